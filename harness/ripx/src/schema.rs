//! Event schema extraction: `enum EventKind`, its serde attributes, the `EventWire` envelope and
//! the `Event::stream_kind` mapping, from crates/rip-kernel/src/lib.rs.
use quote::ToTokens;
use serde_json::{json, Value};
use std::collections::BTreeMap;

#[derive(Debug, Clone)]
pub struct Field {
    pub name: String,
    pub aliases: Vec<String>,
    pub ty: String,
    pub option: bool,
    pub vec: bool,
    pub skip_none: bool,
    pub skip_empty: bool,
    pub default: bool,
}

#[derive(Debug, Clone)]
pub struct Variant {
    pub ident: String,
    pub tag: String,
    pub aliases: Vec<String>,
    pub fields: Vec<Field>,
    pub stream: String,
}

#[derive(Debug, Clone)]
pub struct Schema {
    pub read_envelope: Vec<String>,
    pub envelope: Vec<String>,
    pub tag_field: String,
    pub variants: Vec<Variant>,
}

fn snake(s: &str) -> String {
    let mut out = String::new();
    for (i, c) in s.chars().enumerate() {
        if c.is_uppercase() {
            if i > 0 {
                out.push('_');
            }
            out.extend(c.to_lowercase());
        } else {
            out.push(c);
        }
    }
    out
}

#[derive(Default, Debug)]
struct SerdeAttrs {
    rename: Option<String>,
    rename_all: Option<String>,
    aliases: Vec<String>,
    default: bool,
    skip_if: Option<String>,
    tag: Option<String>,
    flatten: bool,
}

fn serde_attrs(attrs: &[syn::Attribute]) -> Result<SerdeAttrs, String> {
    let mut out = SerdeAttrs::default();
    for a in attrs {
        if !a.path().is_ident("serde") {
            continue;
        }
        a.parse_nested_meta(|meta| {
            let key = meta.path.get_ident().map(|i| i.to_string()).unwrap_or_default();
            match key.as_str() {
                "default" => {
                    out.default = true;
                    if meta.input.peek(syn::Token![=]) {
                        let _: syn::LitStr = meta.value()?.parse()?;
                    }
                }
                "flatten" => out.flatten = true,
                "rename" => out.rename = Some(meta.value()?.parse::<syn::LitStr>()?.value()),
                "rename_all" => out.rename_all = Some(meta.value()?.parse::<syn::LitStr>()?.value()),
                "alias" => out.aliases.push(meta.value()?.parse::<syn::LitStr>()?.value()),
                "tag" => out.tag = Some(meta.value()?.parse::<syn::LitStr>()?.value()),
                "skip_serializing_if" => out.skip_if = Some(meta.value()?.parse::<syn::LitStr>()?.value()),
                other => return Err(meta.error(format!("serde attribute not understood by ripx: {other}"))),
            }
            Ok(())
        })
        .map_err(|e| e.to_string())?;
    }
    Ok(out)
}

pub fn extract(file: &syn::File) -> Result<Schema, String> {
    let mut kind_enum: Option<&syn::ItemEnum> = None;
    let mut wire: Option<&syn::ItemStruct> = None;
    let mut stream_fn: Option<&syn::ImplItemFn> = None;
    let mut event_struct: Option<&syn::ItemStruct> = None;
    for item in &file.items {
        match item {
            syn::Item::Struct(s) if s.ident == "Event" => event_struct = Some(s),
            syn::Item::Enum(e) if e.ident == "EventKind" => kind_enum = Some(e),
            syn::Item::Struct(s) if s.ident == "EventWire" => wire = Some(s),
            syn::Item::Impl(i) if i.self_ty.to_token_stream().to_string() == "Event" && i.trait_.is_none() => {
                for it in &i.items {
                    if let syn::ImplItem::Fn(f) = it {
                        if f.sig.ident == "stream_kind" {
                            stream_fn = Some(f);
                        }
                    }
                }
            }
            _ => {}
        }
    }
    let kind_enum = kind_enum.ok_or("enum EventKind not found")?;
    let event_struct = event_struct.ok_or("struct Event not found")?;
    let mut read_envelope = Vec::new();
    for f in &event_struct.fields {
        let a = serde_attrs(&f.attrs)?;
        if a.flatten {
            continue;
        }
        read_envelope.push(a.rename.unwrap_or_else(|| f.ident.as_ref().unwrap().to_string()));
    }
    let wire = wire.ok_or("struct EventWire not found")?;
    let stream_fn = stream_fn.ok_or("Event::stream_kind not found")?;
    let enum_attrs = serde_attrs(&kind_enum.attrs)?;
    let tag_field = enum_attrs.tag.clone().ok_or("EventKind is not internally tagged")?;
    if enum_attrs.rename_all.as_deref() != Some("snake_case") {
        return Err("EventKind rename_all is not snake_case".into());
    }
    // envelope
    let mut envelope = Vec::new();
    for f in &wire.fields {
        let a = serde_attrs(&f.attrs)?;
        if a.flatten {
            continue;
        }
        envelope.push(a.rename.unwrap_or_else(|| f.ident.as_ref().unwrap().to_string()));
    }
    // stream kinds: arms of the match
    let mut stream_of: BTreeMap<String, String> = BTreeMap::new();
    let mut default_stream: Option<String> = None;
    fn pat_variants(p: &syn::Pat, out: &mut Vec<String>) -> bool {
        match p {
            syn::Pat::Or(o) => o.cases.iter().all(|c| pat_variants(c, out)),
            syn::Pat::Struct(s) => {
                out.push(s.path.segments.last().unwrap().ident.to_string());
                true
            }
            syn::Pat::Wild(_) => true,
            _ => false,
        }
    }
    let mut found_match = false;
    for stmt in &stream_fn.block.stmts {
        if let syn::Stmt::Expr(syn::Expr::Match(m), _) = stmt {
            found_match = true;
            for arm in &m.arms {
                let target = arm.body.to_token_stream().to_string().replace(' ', "");
                let target = target.rsplit("::").next().unwrap_or("").to_lowercase();
                let mut vs = Vec::new();
                if !pat_variants(&arm.pat, &mut vs) {
                    return Err("stream_kind: pattern shape not recognised".into());
                }
                if vs.is_empty() {
                    default_stream = Some(target);
                } else {
                    for v in vs {
                        stream_of.insert(v, target.clone());
                    }
                }
            }
        }
    }
    if !found_match {
        return Err("stream_kind: no match expression".into());
    }
    let mut variants = Vec::new();
    for v in &kind_enum.variants {
        let a = serde_attrs(&v.attrs)?;
        let ident = v.ident.to_string();
        let tag = a.rename.clone().unwrap_or_else(|| snake(&ident));
        let mut fields = Vec::new();
        let syn::Fields::Named(named) = &v.fields else {
            return Err(format!("variant {ident}: not a struct variant"));
        };
        for f in &named.named {
            let fa = serde_attrs(&f.attrs)?;
            let name = fa.rename.clone().unwrap_or_else(|| f.ident.as_ref().unwrap().to_string());
            let ty = f.ty.to_token_stream().to_string().replace(' ', "");
            let option = ty.starts_with("Option<");
            let vec = ty.starts_with("Vec<");
            let (skip_none, skip_empty) = match fa.skip_if.as_deref() {
                None => (false, false),
                Some("Option::is_none") => (true, false),
                Some("Vec::is_empty") => (false, true),
                Some(other) => return Err(format!("variant {ident}.{name}: skip_serializing_if {other} not understood")),
            };
            fields.push(Field { name, aliases: fa.aliases, ty, option, vec, skip_none, skip_empty, default: fa.default });
        }
        let stream = stream_of
            .get(&ident)
            .cloned()
            .or_else(|| default_stream.clone())
            .ok_or(format!("variant {ident}: no stream kind"))?;
        variants.push(Variant { ident, tag, aliases: a.aliases, fields, stream });
    }
    for v in stream_of.keys() {
        if !variants.iter().any(|x| &x.ident == v) {
            return Err(format!("stream_kind names unknown variant {v}"));
        }
    }
    Ok(Schema { read_envelope, envelope, tag_field, variants })
}

pub fn to_json(s: &Schema) -> Value {
    json!({
        "envelope": s.envelope,
        "read_envelope": s.read_envelope,
        "names": intern_table(s),
        "tag_field": s.tag_field,
        "variants": s.variants.iter().map(|v| json!({
            "ident": v.ident, "tag": v.tag, "aliases": v.aliases, "stream": v.stream,
            "fields": v.fields.iter().map(|f| json!({
                "name": f.name, "aliases": f.aliases, "ty": f.ty, "option": f.option, "vec": f.vec,
                "skip_none": f.skip_none, "skip_empty": f.skip_empty, "default": f.default
            })).collect::<Vec<_>>()
        })).collect::<Vec<_>>()
    })
}

/// names are interned to numbers (so that `decide` works on plain `Nat` comparisons); the table is
/// emitted as a comment and as `nameTable` for display
/// the interning order used by `to_lean` (first occurrence)
pub fn intern_table(s: &Schema) -> Vec<String> {
    let mut names: Vec<String> = Vec::new();
    let mut id = |n: &str, names: &mut Vec<String>| {
        if !names.iter().any(|x| x == n) {
            names.push(n.to_string());
        }
    };
    for n in &s.envelope {
        id(n, &mut names);
    }
    id(&s.tag_field, &mut names);
    for v in &s.variants {
        id(&v.tag, &mut names);
        for a in &v.aliases {
            id(a, &mut names);
        }
        for f in &v.fields {
            id(&f.name, &mut names);
            for a in &f.aliases {
                id(a, &mut names);
            }
        }
    }
    for n in &s.read_envelope {
        id(n, &mut names);
    }
    names
}

pub fn to_lean(s: &Schema) -> String {
    let mut names: Vec<String> = Vec::new();
    let mut id = |n: &str, names: &mut Vec<String>| -> usize {
        if let Some(i) = names.iter().position(|x| x == n) {
            i
        } else {
            names.push(n.to_string());
            names.len() - 1
        }
    };
    let mut out = String::new();
    out.push_str("/- GENERATED by ripx from crates/rip-kernel/src/lib.rs. Do not edit. -/\nnamespace Rip.Gen.Schema\n\n");
    out.push_str("inductive Stream | session | task | continuity | artifact\n  deriving Repr, DecidableEq\n\n");
    out.push_str("structure Field where\n  name : Nat\n  aliases : List Nat\n  option : Bool\n  vec : Bool\n  skipNone : Bool\n  skipEmpty : Bool\n  default : Bool\n  deriving Repr, DecidableEq\n\n");
    out.push_str("structure Variant where\n  tag : Nat\n  aliases : List Nat\n  fields : List Field\n  stream : Stream\n  deriving Repr, DecidableEq\n\n");
    let env: Vec<String> = s.envelope.iter().map(|n| id(n, &mut names).to_string()).collect();
    let tagf = id(&s.tag_field, &mut names);
    let mut vs = Vec::new();
    for v in &s.variants {
        let tag = id(&v.tag, &mut names);
        let al: Vec<String> = v.aliases.iter().map(|a| id(a, &mut names).to_string()).collect();
        let mut fs = Vec::new();
        for f in &v.fields {
            let n = id(&f.name, &mut names);
            let fal: Vec<String> = f.aliases.iter().map(|a| id(a, &mut names).to_string()).collect();
            fs.push(format!(
                "{{ name := {n}, aliases := [{}], option := {}, vec := {}, skipNone := {}, skipEmpty := {}, default := {} }}",
                fal.join(", "), f.option, f.vec, f.skip_none, f.skip_empty, f.default
            ));
        }
        vs.push(format!(
            "  -- {} \"{}\"\n  {{ tag := {tag}, aliases := [{}], stream := .{}, fields := [\n    {}] }}",
            v.ident,
            v.tag,
            al.join(", "),
            v.stream,
            fs.join(",\n    ")
        ));
    }
    out.push_str(&format!("def envelope : List Nat := [{}]\n\n", env.join(", ")));
    let renv: Vec<String> = s.read_envelope.iter().map(|n| id(n, &mut names).to_string()).collect();
    out.push_str(&format!("def readEnvelope : List Nat := [{}]\n\n", renv.join(", ")));
    out.push_str(&format!("def tagField : Nat := {tagf}\n\n"));
    out.push_str(&format!("def variants : List Variant := [\n{}\n]\n\n", vs.join(",\n")));
    out.push_str("/- name table\n");
    for (i, n) in names.iter().enumerate() {
        out.push_str(&format!("  {i} = {n}\n"));
    }
    out.push_str("-/\n\nend Rip.Gen.Schema\n");
    out
}
