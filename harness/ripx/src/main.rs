//! ripx — translator: regenerates the Lean model fragments in lean/Rip/Gen from /repo's current
//! source. Fails closed: a target that cannot be found or a shape that is not understood is an
//! error, never silently skipped.
use quote::ToTokens;
use serde_json::{json, Value};
use sha2::{Digest, Sha256};
use std::collections::BTreeMap;
use std::path::{Path, PathBuf};
use syn::visit::Visit;

mod schema;

/// (id, file, function path `Type::name` or `name`)
const ORDER_TARGETS: &[(u32, &str, &str)] = &[
    (1, "crates/ripd/src/session.rs", "emit_event"),
    (2, "crates/ripd/src/session.rs", "emit_events"),
    (3, "crates/ripd/src/tasks/mod.rs", "TaskEmitter::emit"),
    (4, "crates/ripd/src/server.rs", "stream_events"),
    (5, "crates/ripd/src/server.rs", "stream_task_events"),
    (6, "crates/ripd/src/server.rs", "thread_stream_events"),
    (10, "crates/ripd/src/continuities.rs", "ContinuityStore::append_message"),
    (11, "crates/ripd/src/continuities.rs", "ContinuityStore::append_run_spawned"),
    (12, "crates/ripd/src/continuities.rs", "ContinuityStore::append_context_selection_decided"),
    (13, "crates/ripd/src/continuities.rs", "ContinuityStore::append_context_compiled"),
    (14, "crates/ripd/src/continuities.rs", "ContinuityStore::append_provider_cursor_updated"),
    (15, "crates/ripd/src/continuities.rs", "ContinuityStore::append_compaction_checkpoint_created"),
    (16, "crates/ripd/src/continuities.rs", "ContinuityStore::append_compaction_auto_schedule_decided"),
    (17, "crates/ripd/src/continuities.rs", "ContinuityStore::append_job_spawned"),
    (18, "crates/ripd/src/continuities.rs", "ContinuityStore::append_job_ended"),
    (19, "crates/ripd/src/continuities.rs", "ContinuityStore::append_run_ended"),
    (20, "crates/ripd/src/continuities.rs", "ContinuityStore::append_tool_side_effects"),
    (21, "crates/ripd/src/continuities.rs", "ContinuityStore::branch"),
    (22, "crates/ripd/src/continuities.rs", "ContinuityStore::handoff"),
    (23, "crates/ripd/src/continuities.rs", "ContinuityStore::create_continuity"),
    (24, "crates/ripd/src/continuities.rs", "ContinuityStore::ensure_default"),
    (30, "crates/rip-log/src/lib.rs", "EventLog::append"),
    (40, "crates/ripd/src/session.rs", "run_session"),
    (41, "crates/ripd/src/session.rs", "run_openresponses_agent_loop"),
    (42, "crates/ripd/src/tasks/mod.rs", "run_task"),
    (43, "crates/ripd/src/session.rs", "stream_openresponses_request"),
    (44, "crates/ripd/src/server.rs", "thread_post_message"),
    (45, "crates/ripd/src/continuities.rs", "ContinuityStore::compaction_auto_schedule_spawn_job_v1"),
    (46, "crates/ripd/src/continuities.rs", "ContinuityStore::compaction_auto_spawn_job_v1"),
    (47, "crates/ripd/src/continuities.rs", "ContinuityStore::compaction_auto_v1"),
    (48, "crates/ripd/src/continuities.rs", "ContinuityStore::compaction_auto_schedule_v1"),
    (50, "crates/ripd/src/continuities.rs", "ContinuityStore::replay_events"),
    (51, "crates/ripd/src/continuities.rs", "ContinuityStore::replay_events_from_log_locked"),
    (52, "crates/ripd/src/continuities.rs", "ContinuityStore::load_next_seq_for"),
];

const CONST_TARGETS: &[(&str, &str)] = &[
    ("crates/ripd/src/continuities.rs", "EVENT_CHANNEL_CAPACITY"),
    ("crates/ripd/src/continuity_seek_index.rs", "SEEK_INDEX_STRIDE_EVENTS_V1"),
    ("crates/ripd/src/runner.rs", "EVENT_CHANNEL_CAPACITY"),
    ("crates/ripd/src/tasks/mod.rs", "EVENT_CHANNEL_CAPACITY"),
    ("crates/ripd/src/tasks/mod.rs", "OUTPUT_EVENT_MAX_BYTES"),
    ("crates/ripd/src/provider_openresponses.rs", "DEFAULT_MAX_TOOL_CALLS"),
    ("crates/rip-tui/src/state.rs", "DEFAULT_MAX_FRAMES"),
    ("crates/rip-tui/src/state.rs", "DEFAULT_MAX_OUTPUT_BYTES"),
    ("crates/rip-tui/src/state.rs", "DEFAULT_MAX_PREVIEW_BYTES"),
];

#[derive(Debug, Clone, PartialEq)]
enum Eff {
    Publish,
    Record,
    Lock(u32),
    Unlock(u32),
    LogAppend,
    CacheAppend,
    Bump,
    Subscribe,
    Snapshot,
    SeqLoad,
    CreateThread,
    RunTool,
    EmitBatch,
    SideEffects,
    RunProcess,
    FsWrite,
    FsFlush,
    /// branch markers and gates (C11/C16): which arm of a decision the following tokens belong to
    Mark(&'static str),
}

fn lock_id(name: &str) -> u32 {
    match name {
        "buffer" | "events" => 1,
        "seq" => 2,
        "next_seq" => 3,
        "index" => 4,
        "file" | "writer" | "inner" => 5,
        "workspace_lock" => 6,
        _ => 9,
    }
}

fn eff_lean(e: &Eff) -> String {
    match e {
        Eff::Publish => ".publish".into(),
        Eff::Record => ".record".into(),
        Eff::Lock(n) => format!(".lock {n}"),
        Eff::Unlock(n) => format!(".unlock {n}"),
        Eff::LogAppend => ".logAppend".into(),
        Eff::CacheAppend => ".cacheAppend".into(),
        Eff::Bump => ".bump".into(),
        Eff::Subscribe => ".subscribe".into(),
        Eff::Snapshot => ".snapshot".into(),
        Eff::SeqLoad => ".seqLoad".into(),
        Eff::CreateThread => ".createThread".into(),
        Eff::RunTool => ".runTool".into(),
        Eff::EmitBatch => ".emitBatch".into(),
        Eff::SideEffects => ".sideEffects".into(),
        Eff::RunProcess => ".runProcess".into(),
        Eff::FsWrite => ".fsWrite".into(),
        Eff::FsFlush => ".fsFlush".into(),
        Eff::Mark(m) => format!(".{m}"),
    }
}

fn last_ident(e: &syn::Expr) -> String {
    match e {
        syn::Expr::Path(p) => p.path.segments.last().map(|s| s.ident.to_string()).unwrap_or_default(),
        syn::Expr::Field(f) => match &f.member {
            syn::Member::Named(i) => i.to_string(),
            syn::Member::Unnamed(i) => i.index.to_string(),
        },
        syn::Expr::Reference(r) => last_ident(&r.expr),
        syn::Expr::Paren(p) => last_ident(&p.expr),
        syn::Expr::MethodCall(m) => last_ident(&m.receiver),
        syn::Expr::Try(t) => last_ident(&t.expr),
        syn::Expr::Await(a) => last_ident(&a.base),
        syn::Expr::Unary(u) => last_ident(&u.expr),
        _ => String::new(),
    }
}

/// collects effect tokens of one expression in source order (not descending into closures' bodies
/// that are merely defined, but closures passed to map_err etc. contain no effects we name)
struct Collect {
    out: Vec<Eff>,
}

impl<'ast> Visit<'ast> for Collect {
    fn visit_expr_method_call(&mut self, m: &'ast syn::ExprMethodCall) {
        // receiver first, then arguments, then the call itself
        self.visit_expr(&m.receiver);
        for a in &m.args {
            self.visit_expr(a);
        }
        let name = m.method.to_string();
        let recv = last_ident(&m.receiver);
        match name.as_str() {
            "send" if recv == "sender" => self.out.push(Eff::Publish),
            "lock" => self.out.push(Eff::Lock(lock_id(&recv))),
            "push" if recv == "guard" => self.out.push(Eff::Record),
            "append" if recv == "event_log" => self.out.push(Eff::LogAppend),
            "append_best_effort" => self.out.push(Eff::CacheAppend),
            "insert" if recv == "next_seq" => self.out.push(Eff::Bump),
            "subscribe" => self.out.push(Eff::Subscribe),
            "events_snapshot" | "replay_events" => self.out.push(Eff::Snapshot),
            // a reader's fall-back from the sidecar to the log (C06): cache read, log read, rewrite
            "try_replay" => self.out.push(Eff::Mark("tryCache")),
            "replay_stream" => self.out.push(Eff::Mark("logRead")),
            "rebuild_best_effort" => self.out.push(Eff::Mark("rebuild")),
            "replay_events_from_log_locked" => self.out.push(Eff::Mark("fromLogLocked")),
            "load_next_seq_for" => self.out.push(Eff::SeqLoad),
            "create_continuity" => self.out.push(Eff::CreateThread),
            "acquire" if recv == "workspace_lock" => self.out.push(Eff::Lock(6)),
            "run" | "create_checkpoint" | "rewind_checkpoint" if recv == "tool_runner" => self.out.push(Eff::RunTool),
            "append_tool_side_effects" => self.out.push(Eff::SideEffects),
            "emit_all" => self.out.push(Eff::EmitBatch),
            "write_all" | "write" if recv == "file" || recv == "writer" || recv == "guard" => self.out.push(Eff::FsWrite),
            "flush" => self.out.push(Eff::FsFlush),
            "send" if recv == "request" => self.out.push(Eff::Mark("httpSend")),
            // run lifecycle (C07): the thread frames a run appends, in source order
            "append_message" => self.out.push(Eff::Mark("appendMessage")),
            "append_run_spawned" => self.out.push(Eff::Mark("runSpawned")),
            "spawn_session" => self.out.push(Eff::Mark("spawnSession")),
            "append_context_selection_decided" => self.out.push(Eff::Mark("selDecided")),
            "append_context_compiled" => self.out.push(Eff::Mark("compiled")),
            "append_provider_cursor_updated" => self.out.push(Eff::Mark("cursorUpdated")),
            "append_run_ended" => self.out.push(Eff::Mark("runEnded")),
            // compaction planner (C02/C09): any other frame append of the store
            n if n.starts_with("append_") && n != "append_best_effort" && recv == "self" => self.out.push(Eff::Mark("appendFrame")),
            "compaction_auto_spawn_job_v1" | "compaction_auto_run_spawned_job_v1" | "compaction_auto_schedule_spawn_job_v1" => self.out.push(Eff::Mark("appendFrame")),
            _ => {}
        }
    }
    fn visit_expr_call(&mut self, c: &'ast syn::ExprCall) {
        for a in &c.args {
            self.visit_expr(a);
        }
        if let syn::Expr::Path(p) = &*c.func {
            let name = p.path.segments.last().map(|s| s.ident.to_string()).unwrap_or_default();
            if name == "drop" {
                if let Some(a) = c.args.first() {
                    let g = last_ident(a);
                    self.out.push(Eff::Unlock(lock_id_of_guard(&g)));
                }
            }
            if name == "write_snapshot" {
                self.out.push(Eff::Mark("writeSnapshot"));
            }
            if name == "run_openresponses_agent_loop" {
                self.out.push(Eff::Mark("agentLoop"));
            }
            if name == "emit_events" {
                self.out.push(Eff::EmitBatch);
            }
            if name == "run_pipes_task" || name == "run_pty_task" {
                self.out.push(Eff::RunProcess);
            }
            if name == "emit_event" {
                // batch emitter delegates per event: publish/record order is that of emit_event
                self.out.push(Eff::Publish);
                self.out.push(Eff::Record);
            }
        }
    }
    fn visit_expr_closure(&mut self, _c: &'ast syn::ExprClosure) {
        // closure bodies run later (stream combinators); their effects are not part of this order
    }
    fn visit_expr_async(&mut self, _a: &'ast syn::ExprAsync) {}
}

/// early exits of a function body: `return` expressions and `?` operators (closures and async blocks excluded)
struct ExitCount {
    n: u32,
}

impl<'ast> Visit<'ast> for ExitCount {
    fn visit_expr_return(&mut self, r: &'ast syn::ExprReturn) {
        self.n += 1;
        syn::visit::visit_expr_return(self, r);
    }
    fn visit_expr_try(&mut self, t: &'ast syn::ExprTry) {
        self.n += 1;
        syn::visit::visit_expr_try(self, t);
    }
    fn visit_expr_closure(&mut self, _c: &'ast syn::ExprClosure) {}
    fn visit_expr_async(&mut self, _a: &'ast syn::ExprAsync) {}
    fn visit_item(&mut self, _i: &'ast syn::Item) {}
}

/// (C19) functions that read a secret-bearing field (`.api_key`, `.headers` of the provider
/// configuration types), outside test modules
struct SecretReaders {
    cur_fn: Vec<String>,
    found: BTreeMap<String, u32>,
}

impl<'ast> Visit<'ast> for SecretReaders {
    fn visit_item_mod(&mut self, m: &'ast syn::ItemMod) {
        if m.ident == "tests" || m.attrs.iter().any(|a| a.to_token_stream().to_string().replace(' ', "").contains("cfg(test)")) {
            return;
        }
        syn::visit::visit_item_mod(self, m);
    }
    fn visit_item_fn(&mut self, f: &'ast syn::ItemFn) {
        self.cur_fn.push(f.sig.ident.to_string());
        syn::visit::visit_item_fn(self, f);
        self.cur_fn.pop();
    }
    fn visit_impl_item_fn(&mut self, f: &'ast syn::ImplItemFn) {
        self.cur_fn.push(f.sig.ident.to_string());
        syn::visit::visit_impl_item_fn(self, f);
        self.cur_fn.pop();
    }
    fn visit_expr_field(&mut self, e: &'ast syn::ExprField) {
        if let syn::Member::Named(i) = &e.member {
            if i == "api_key" || i == "headers" {
                let name = self.cur_fn.last().cloned().unwrap_or_else(|| "<top>".into());
                *self.found.entry(name).or_insert(0) += 1;
            }
        }
        syn::visit::visit_expr_field(self, e);
    }
}

/// (C01/C15) seq accounting: in source order per function, every `Event { seq: <expr> }` literal whose
/// seq expression dereferences a counter (`*seq`, `*self.seq`, `*req.seq`, possibly with arithmetic
/// around it) and every `*counter += …`.
#[derive(Clone, Debug)]
enum SeqTok {
    /// frame literal numbered from the counter; plain = the expression is exactly `*counter`
    Use { counter: String, plain: bool },
    /// `*counter += <integer literal>`
    Bump { counter: String, k: u64 },
    /// `*counter += <anything else>` (a batch of frames numbered elsewhere)
    Batch { counter: String },
}

struct SeqAcct {
    cur_fn: Vec<String>,
    per_fn: BTreeMap<String, Vec<SeqTok>>,
}

struct FirstDeref {
    found: Option<String>,
}

impl<'ast> Visit<'ast> for FirstDeref {
    fn visit_expr_unary(&mut self, e: &'ast syn::ExprUnary) {
        if matches!(e.op, syn::UnOp::Deref(_)) && self.found.is_none() {
            self.found = Some(squash(&e.expr));
        }
        syn::visit::visit_expr_unary(self, e);
    }
}

fn deref_target(e: &syn::Expr) -> Option<String> {
    match e {
        syn::Expr::Unary(u) if matches!(u.op, syn::UnOp::Deref(_)) => Some(squash(&u.expr)),
        syn::Expr::Paren(p) => deref_target(&p.expr),
        _ => None,
    }
}

impl<'ast> Visit<'ast> for SeqAcct {
    fn visit_item_mod(&mut self, m: &'ast syn::ItemMod) {
        if m.ident == "tests" || m.ident == "verif_hooks" || m.ident == "verif_export" || m.attrs.iter().any(|a| { let t = a.to_token_stream().to_string().replace(' ', ""); t.contains("cfg(test)") || t.contains("cfg(rip_verif)") }) {
            return;
        }
        syn::visit::visit_item_mod(self, m);
    }
    fn visit_item_fn(&mut self, f: &'ast syn::ItemFn) {
        self.cur_fn.push(f.sig.ident.to_string());
        syn::visit::visit_item_fn(self, f);
        self.cur_fn.pop();
    }
    fn visit_impl_item_fn(&mut self, f: &'ast syn::ImplItemFn) {
        self.cur_fn.push(f.sig.ident.to_string());
        syn::visit::visit_impl_item_fn(self, f);
        self.cur_fn.pop();
    }
    fn visit_expr_struct(&mut self, e: &'ast syn::ExprStruct) {
        // `Event { seq: … }` and the input structs of frame builders (`…DumpInput { seq: … }`) alike
        {
            for f in &e.fields {
                if let syn::Member::Named(i) = &f.member {
                    if i == "seq" {
                        let tok = match deref_target(&f.expr) {
                            Some(c) => Some(SeqTok::Use { counter: c, plain: true }),
                            None => {
                                let mut fd = FirstDeref { found: None };
                                fd.visit_expr(&f.expr);
                                fd.found.map(|c| SeqTok::Use { counter: c, plain: false })
                            }
                        };
                        if let (Some(t), Some(name)) = (tok, self.cur_fn.last()) {
                            self.per_fn.entry(name.clone()).or_default().push(t);
                        }
                    }
                }
            }
        }
        syn::visit::visit_expr_struct(self, e);
    }
    fn visit_expr_binary(&mut self, e: &'ast syn::ExprBinary) {
        if matches!(e.op, syn::BinOp::AddAssign(_)) {
            if let Some(c) = deref_target(&e.left) {
                let tok = match &*e.right {
                    syn::Expr::Lit(syn::ExprLit { lit: syn::Lit::Int(n), .. }) => SeqTok::Bump { counter: c, k: n.base10_parse::<u64>().unwrap_or(0) },
                    _ => SeqTok::Batch { counter: c },
                };
                if let Some(name) = self.cur_fn.last() {
                    self.per_fn.entry(name.clone()).or_default().push(tok);
                }
            }
        }
        syn::visit::visit_expr_binary(self, e);
    }
}

const SEQ_FILES: &[&str] = &["crates/ripd/src/session.rs", "crates/rip-tools/src/runtime.rs", "crates/ripd/src/tasks/mod.rs", "crates/ripd/src/checkpoints.rs"];

/// (C04) the doubling-window tail loops of continuities.rs: `while tail_bytes <= MAX_TAIL_BYTES … {
/// …; tail_bytes = (tail_bytes * 2).min(MAX_TAIL_BYTES); }`
struct TailLoops {
    cur_fn: Vec<String>,
    /// (function, has `if tail_bytes >= MAX_TAIL_BYTES { break; }` before the doubling, doubles,
    ///  clears an accumulator per window, text of the first `if` after the loop)
    found: Vec<(String, bool, bool, bool)>,
}

fn squash(t: impl ToTokens) -> String {
    t.to_token_stream().to_string().split_whitespace().collect()
}

impl<'ast> Visit<'ast> for TailLoops {
    fn visit_item_mod(&mut self, m: &'ast syn::ItemMod) {
        if m.ident == "tests" {
            return;
        }
        syn::visit::visit_item_mod(self, m);
    }
    fn visit_impl_item_fn(&mut self, f: &'ast syn::ImplItemFn) {
        self.cur_fn.push(f.sig.ident.to_string());
        syn::visit::visit_impl_item_fn(self, f);
        self.cur_fn.pop();
    }
    fn visit_expr_while(&mut self, w: &'ast syn::ExprWhile) {
        let cond = squash(&w.cond);
        if cond.starts_with("tail_bytes<=MAX_TAIL_BYTES") {
            let mut has_exit = false;
            let mut doubles = false;
            for st in &w.body.stmts {
                let t = squash(st);
                if t.starts_with("iftail_bytes>=MAX_TAIL_BYTES{break;}") && !doubles {
                    has_exit = true;
                }
                if t.starts_with("tail_bytes=(tail_bytes*2).min(MAX_TAIL_BYTES)") {
                    doubles = true;
                }
            }
            let clears = squash(&w.body).contains(".clear();");
            let name = self.cur_fn.last().cloned().unwrap_or_default();
            self.found.push((name, has_exit, doubles, clears));
        }
        syn::visit::visit_expr_while(self, w);
    }
}

const SECRET_FILES: &[&str] = &[
    "crates/ripd/src/config.rs",
    "crates/ripd/src/server.rs",
    "crates/ripd/src/session.rs",
    "crates/ripd/src/provider_openresponses.rs",
    "crates/ripd/src/runner.rs",
    "crates/ripd/src/openresponses_observability.rs",
];

thread_local! {
    /// guard variable → lock id, recorded at `let <name> = <lock expression>;` of the function being read
    static GUARD_NAMES: std::cell::RefCell<std::collections::HashMap<String, u32>> = std::cell::RefCell::new(std::collections::HashMap::new());
}

fn lock_id_of_guard(guard: &str) -> u32 {
    if let Some(n) = GUARD_NAMES.with(|g| g.borrow().get(guard).cloned()) {
        return n;
    }
    match guard {
        "guard" => 1,
        "seq" => 2,
        "next_seq" => 3,
        "index" => 4,
        "_guard" | "_workspace_guard" => 6,
        _ => 9,
    }
}

fn effects_of_expr(e: &syn::Expr) -> Vec<Eff> {
    let mut c = Collect { out: Vec::new() };
    c.visit_expr(e);
    c.out
}

/// walks a block statement by statement, closing lock scopes: a lock taken in a `let` lives until
/// the end of the block (or an explicit drop); a lock taken in any other statement is a temporary
/// and is released at the end of that statement.
fn effects_of_block(b: &syn::Block, out: &mut Vec<Eff>) {
    let mut scope_guards: Vec<u32> = Vec::new();
    for stmt in &b.stmts {
        match stmt {
            syn::Stmt::Local(l) => {
                if let Some(init) = &l.init {
                    let effs = effects_of_init(&init.expr);
                    let bound_lock = top_level_lock(&init.expr);
                    for e in &effs {
                        out.push(e.clone());
                    }
                    // temporaries other than the bound guard
                    let mut locks: Vec<u32> = effs.iter().filter_map(|e| if let Eff::Lock(n) = e { Some(*n) } else { None }).collect();
                    if let Some(n) = bound_lock {
                        if let Some(pos) = locks.iter().rposition(|x| *x == n) {
                            locks.remove(pos);
                        }
                        scope_guards.push(n);
                        if let syn::Pat::Ident(pi) = &l.pat {
                            GUARD_NAMES.with(|g| g.borrow_mut().insert(pi.ident.to_string(), n));
                        }
                    }
                    for n in locks.into_iter().rev() {
                        if !already_unlocked(&effs, n) {
                            out.push(Eff::Unlock(n));
                        }
                    }
                    if let Some(els) = &init.diverge {
                        out.extend(effects_of_expr(&els.1));
                    }
                }
            }
            syn::Stmt::Expr(e, _) => stmt_expr(e, out, &mut scope_guards),
            syn::Stmt::Macro(_) | syn::Stmt::Item(_) => {}
        }
    }
    for n in scope_guards.into_iter().rev() {
        // an explicit `drop(guard)` after the lock already released it
        let last_lock = out.iter().rposition(|e| *e == Eff::Lock(n));
        let released = last_lock.map(|p| out[p..].iter().any(|e| *e == Eff::Unlock(n))).unwrap_or(false);
        if !released {
            out.push(Eff::Unlock(n));
        }
    }
}

fn already_unlocked(effs: &[Eff], n: u32) -> bool {
    effs.iter().any(|e| *e == Eff::Unlock(n))
}

fn effects_of_init(e: &syn::Expr) -> Vec<Eff> {
    // nested blocks inside an initialiser (`let x = { ... };`, `match … { … }`) are walked as blocks;
    // a plain expression yields its raw effects (the caller closes the lock scopes)
    let mut out = Vec::new();
    let mut guards = Vec::new();
    stmt_expr_inner(e, &mut out, &mut guards, false);
    out
}

fn stmt_expr(e: &syn::Expr, out: &mut Vec<Eff>, scope_guards: &mut Vec<u32>) {
    stmt_expr_inner(e, out, scope_guards, true)
}

fn stmt_expr_inner(e: &syn::Expr, out: &mut Vec<Eff>, scope_guards: &mut Vec<u32>, auto_unlock: bool) {
    match e {
        syn::Expr::Block(b) => effects_of_block(&b.block, out),
        syn::Expr::If(i) => {
            let cond = effects_of_expr(&i.cond);
            out.extend(cond.iter().cloned());
            // decisions the obligations of C11/C16 depend on: mark which arm the tokens belong to
            let cond_s: String = i.cond.to_token_stream().to_string().split_whitespace().collect();
            let neg = cond_s.starts_with('!');
            let marks: Option<(&'static str, &'static str)> = if cond_s.contains("requires_workspace_lock(") {
                Some(if neg { ("brNoLock", "brNeedsLock") } else { ("brNeedsLock", "brNoLock") })
            } else if cond_s.contains("allows_function(") {
                Some(if neg { ("brBarred", "brAllowed") } else { ("brAllowed", "brBarred") })
            } else {
                None
            };
            if marks.is_some() && (cond_s.contains("&&") || cond_s.contains("||")) {
                panic!("ripx: compound condition around a lock/tool-choice decision is not understood: {cond_s}");
            }
            // the validation gate: `if !payload.errors().is_empty() { …; return Err(..) }`
            let gate = cond_s.contains(".errors().is_empty()") && neg
                && matches!(i.then_branch.stmts.last(), Some(syn::Stmt::Expr(syn::Expr::Return(_), _)));
            if gate {
                out.push(Eff::Mark("validateGate"));
            }
            // the dry-run gate: `if dry_run { return … }`
            let dry_gate = cond_s == "dry_run" || ((cond_s.ends_with("||dry_run") || cond_s.starts_with("dry_run||")) && !cond_s.contains("&&"));
            if dry_gate && matches!(i.then_branch.stmts.last(), Some(syn::Stmt::Expr(syn::Expr::Return(_), _))) {
                out.push(Eff::Mark("dryRunGate"));
            }
            if let Some((t, _)) = marks {
                out.push(Eff::Mark(t));
            }
            effects_of_block(&i.then_branch, out);
            if let Some((_, els)) = &i.else_branch {
                if let Some((_, e)) = marks {
                    out.push(Eff::Mark(e));
                }
                stmt_expr(els, out, scope_guards);
            }
            if marks.is_some() {
                out.push(Eff::Mark("brEnd"));
            }
            // temporaries of the condition (e.g. a guard in `if let … = x.lock()…`) live to the end of the `if`
            for e in cond.iter().rev() {
                if let Eff::Lock(n) = e {
                    if !already_unlocked(&cond, *n) {
                        out.push(Eff::Unlock(*n));
                    }
                }
            }
        }
        syn::Expr::Match(m) => {
            out.extend(effects_of_expr(&m.expr));
            for arm in &m.arms {
                stmt_expr(&arm.body, out, scope_guards);
            }
        }
        syn::Expr::ForLoop(f) => {
            out.extend(effects_of_expr(&f.expr));
            effects_of_block(&f.body, out);
        }
        syn::Expr::While(w) => {
            out.extend(effects_of_expr(&w.cond));
            effects_of_block(&w.body, out);
        }
        syn::Expr::Loop(l) => effects_of_block(&l.body, out),
        other => {
            let effs = effects_of_expr(other);
            let locks: Vec<u32> = effs.iter().filter_map(|e| if let Eff::Lock(n) = e { Some(*n) } else { None }).collect();
            out.extend(effs.iter().cloned());
            if auto_unlock {
                for n in locks.into_iter().rev() {
                    if !already_unlocked(&effs, n) {
                        out.push(Eff::Unlock(n));
                    }
                }
            }
        }
    }
}

/// `let g = a.b.lock()…;` — the lock whose guard the binding keeps alive (the method chain's head
/// after stripping await / expect / unwrap / `?` / map_err).
fn top_level_lock(e: &syn::Expr) -> Option<u32> {
    match e {
        syn::Expr::Await(a) => top_level_lock(&a.base),
        syn::Expr::Try(t) => top_level_lock(&t.expr),
        syn::Expr::MethodCall(m) => {
            let name = m.method.to_string();
            match name.as_str() {
                "lock" => Some(lock_id(&last_ident(&m.receiver))),
                "acquire" if last_ident(&m.receiver) == "workspace_lock" => Some(6),
                "expect" | "unwrap" | "map_err" | "unwrap_or_else" => top_level_lock(&m.receiver),
                _ => None,
            }
        }
        _ => None,
    }
}

struct FnFinder<'a> {
    want_type: Option<&'a str>,
    want_fn: &'a str,
    cur_type: Option<String>,
    found: Option<syn::Block>,
}

impl<'ast, 'a> Visit<'ast> for FnFinder<'a> {
    fn visit_item_impl(&mut self, i: &'ast syn::ItemImpl) {
        let ty = i.self_ty.to_token_stream().to_string().replace(' ', "");
        let ty = ty.split('<').next().unwrap_or("").to_string();
        let prev = self.cur_type.replace(ty);
        syn::visit::visit_item_impl(self, i);
        self.cur_type = prev;
    }
    fn visit_impl_item_fn(&mut self, f: &'ast syn::ImplItemFn) {
        if f.sig.ident == self.want_fn && self.want_type.map(|t| Some(t.to_string()) == self.cur_type).unwrap_or(false) {
            self.found = Some(f.block.clone());
        }
    }
    fn visit_item_fn(&mut self, f: &'ast syn::ItemFn) {
        if f.sig.ident == self.want_fn && self.want_type.is_none() && self.found.is_none() {
            self.found = Some((*f.block).clone());
        }
    }
    fn visit_item_mod(&mut self, m: &'ast syn::ItemMod) {
        // skip test modules and verification exports
        let name = m.ident.to_string();
        if name == "tests" || name.starts_with("verif") {
            return;
        }
        syn::visit::visit_item_mod(self, m);
    }
}

const READ_ONLY_ENTRIES: &[&str] = &[
    "replay_events",
    "compaction_cut_points_v1",
    "compaction_status_v1",
    "provider_cursor_status_v1",
    "context_selection_status_v1",
    "list",
    "get",
    "subscribe",
    "load_context_compile_input_recent_messages_v1",
    "latest_compaction_checkpoint_for_compile_v1",
    "hierarchical_compaction_checkpoints_for_compile_v1",
];

struct CallGraph {
    cur_type: Option<String>,
    out: Vec<(String, Vec<String>, bool)>,
}

struct CalleeCollect {
    callees: Vec<String>,
    appends: bool,
}

impl<'ast> Visit<'ast> for CalleeCollect {
    fn visit_expr_method_call(&mut self, m: &'ast syn::ExprMethodCall) {
        let name = m.method.to_string();
        let recv = m.receiver.to_token_stream().to_string().replace(' ', "");
        if recv == "self" {
            if !self.callees.contains(&name) {
                self.callees.push(name.clone());
            }
        }
        if name == "append" && recv.ends_with("event_log") {
            self.appends = true;
        }
        syn::visit::visit_expr_method_call(self, m);
    }
    fn visit_expr_call(&mut self, c: &'ast syn::ExprCall) {
        if let syn::Expr::Path(p) = &*c.func {
            let segs: Vec<String> = p.path.segments.iter().map(|s| s.ident.to_string()).collect();
            if segs.len() == 2 && segs[0] == "Self" && !self.callees.contains(&segs[1]) {
                self.callees.push(segs[1].clone());
            }
        }
        syn::visit::visit_expr_call(self, c);
    }
}

impl<'ast> Visit<'ast> for CallGraph {
    fn visit_item_impl(&mut self, i: &'ast syn::ItemImpl) {
        let ty = i.self_ty.to_token_stream().to_string().replace(' ', "");
        let prev = self.cur_type.replace(ty);
        syn::visit::visit_item_impl(self, i);
        self.cur_type = prev;
    }
    fn visit_impl_item_fn(&mut self, f: &'ast syn::ImplItemFn) {
        if self.cur_type.as_deref() != Some("ContinuityStore") {
            return;
        }
        let mut c = CalleeCollect { callees: Vec::new(), appends: false };
        c.visit_block(&f.block);
        self.out.push((f.sig.ident.to_string(), c.callees, c.appends));
    }
    fn visit_item_mod(&mut self, m: &'ast syn::ItemMod) {
        let name = m.ident.to_string();
        if name == "tests" || name.starts_with("verif") {
            return;
        }
        syn::visit::visit_item_mod(self, m);
    }
}

fn fnv64(b: &[u8]) -> u64 {
    let mut h: u64 = 0xcbf29ce484222325;
    for x in b {
        h ^= *x as u64;
        h = h.wrapping_mul(0x100000001b3);
    }
    h
}

struct RegCollect {
    names: Vec<String>,
}

impl<'ast> Visit<'ast> for RegCollect {
    fn visit_expr_method_call(&mut self, m: &'ast syn::ExprMethodCall) {
        let name = m.method.to_string();
        if name == "register" || name == "register_alias" {
            if let Some(syn::Expr::Lit(l)) = m.args.first() {
                if let syn::Lit::Str(s) = &l.lit {
                    self.names.push(s.value());
                }
            }
        }
        syn::visit::visit_expr_method_call(self, m);
    }
}

#[derive(Default)]
struct LogFx {
    in_event_log: bool,
    /// (create, append, truncate, write, create_new)
    opens: Vec<(bool, bool, bool, bool, bool)>,
    destructive: usize,
}

fn chain_methods(e: &syn::Expr, out: &mut Vec<(String, String)>) -> bool {
    // returns true if the chain starts at OpenOptions::new()
    match e {
        syn::Expr::MethodCall(m) => {
            let started = chain_methods(&m.receiver, out);
            let arg = m.args.first().map(|a| a.to_token_stream().to_string()).unwrap_or_default();
            out.push((m.method.to_string(), arg));
            started
        }
        syn::Expr::Call(c) => c.func.to_token_stream().to_string().replace(' ', "").ends_with("OpenOptions::new"),
        syn::Expr::Try(t) => chain_methods(&t.expr, out),
        _ => false,
    }
}

impl<'ast> Visit<'ast> for LogFx {
    fn visit_item_impl(&mut self, i: &'ast syn::ItemImpl) {
        let ty = i.self_ty.to_token_stream().to_string().replace(' ', "");
        let prev = self.in_event_log;
        self.in_event_log = ty == "EventLog";
        syn::visit::visit_item_impl(self, i);
        self.in_event_log = prev;
    }
    fn visit_expr_method_call(&mut self, m: &'ast syn::ExprMethodCall) {
        if self.in_event_log {
            let name = m.method.to_string();
            if name == "open" {
                let mut ms = Vec::new();
                if chain_methods(&m.receiver, &mut ms) {
                    let flag = |n: &str| ms.iter().any(|(k, v)| k == n && v == "true");
                    self.opens.push((flag("create"), flag("append"), flag("truncate"), flag("write"), flag("create_new")));
                }
            }
            if matches!(name.as_str(), "set_len" | "seek" | "truncate" | "rewind") {
                self.destructive += 1;
            }
        }
        syn::visit::visit_expr_method_call(self, m);
    }
    fn visit_expr_call(&mut self, c: &'ast syn::ExprCall) {
        if self.in_event_log {
            let f = c.func.to_token_stream().to_string().replace(' ', "");
            if f.ends_with("File::create") || f.ends_with("fs::write") || f.ends_with("remove_file") || f.ends_with("fs::rename") || f.ends_with("File::create_new") {
                self.destructive += 1;
            }
        }
        syn::visit::visit_expr_call(self, c);
    }
}

fn eval_const(e: &syn::Expr) -> Option<u128> {
    match e {
        syn::Expr::Lit(l) => match &l.lit {
            syn::Lit::Int(i) => i.base10_parse::<u128>().ok(),
            _ => None,
        },
        syn::Expr::Binary(b) => {
            let (l, r) = (eval_const(&b.left)?, eval_const(&b.right)?);
            match b.op {
                syn::BinOp::Mul(_) => Some(l * r),
                syn::BinOp::Add(_) => Some(l + r),
                syn::BinOp::Sub(_) => l.checked_sub(r),
                syn::BinOp::Shl(_) => Some(l << r),
                _ => None,
            }
        }
        syn::Expr::Paren(p) => eval_const(&p.expr),
        syn::Expr::Cast(c) => eval_const(&c.expr),
        _ => None,
    }
}

fn find_const(file: &syn::File, name: &str) -> Option<u128> {
    for item in &file.items {
        if let syn::Item::Const(c) = item {
            if c.ident == name {
                return eval_const(&c.expr);
            }
        }
    }
    None
}

fn main() {
    let args: Vec<String> = std::env::args().collect();
    let mut repo = PathBuf::from("/repo");
    let mut out = PathBuf::from("/verif/lean/Rip/Gen");
    let mut json_out: Option<PathBuf> = None;
    let mut i = 1;
    while i < args.len() {
        match args[i].as_str() {
            "--repo" => {
                repo = PathBuf::from(&args[i + 1]);
                i += 1;
            }
            "--out" => {
                out = PathBuf::from(&args[i + 1]);
                i += 1;
            }
            "--json" => {
                json_out = Some(PathBuf::from(&args[i + 1]));
                i += 1;
            }
            other => {
                eprintln!("ripx: unknown argument {other}");
                std::process::exit(2);
            }
        }
        i += 1;
    }
    std::fs::create_dir_all(&out).expect("out dir");
    let mut parsed: BTreeMap<String, syn::File> = BTreeMap::new();
    let mut digests: BTreeMap<String, String> = BTreeMap::new();
    let mut load = |rel: &str, parsed: &mut BTreeMap<String, syn::File>| -> Result<(), String> {
        if parsed.contains_key(rel) {
            return Ok(());
        }
        let text = std::fs::read_to_string(repo.join(rel)).map_err(|e| format!("{rel}: {e}"))?;
        digests.insert(rel.to_string(), hex::encode(Sha256::digest(text.as_bytes())));
        let f = syn::parse_file(&text).map_err(|e| format!("{rel}: parse error {e}"))?;
        parsed.insert(rel.to_string(), f);
        Ok(())
    };
    let mut errors: Vec<String> = Vec::new();
    let mut cache_mentions_log: Vec<String> = Vec::new();

    // ---- effect orders
    let mut orders: Vec<(u32, String, Vec<Eff>)> = Vec::new();
    let mut exits: Vec<(u32, u32)> = Vec::new();
    for (id, file, path) in ORDER_TARGETS {
        if let Err(e) = load(file, &mut parsed) {
            errors.push(e);
            continue;
        }
        let (ty, name) = match path.split_once("::") {
            Some((t, n)) => (Some(t), n),
            None => (None, *path),
        };
        let mut finder = FnFinder { want_type: ty, want_fn: name, cur_type: None, found: None };
        finder.visit_file(&parsed[*file]);
        match finder.found {
            None => errors.push(format!("{file}: function {path} not found")),
            Some(block) => {
                let mut effs = Vec::new();
                GUARD_NAMES.with(|g| g.borrow_mut().clear());
                effects_of_block(&block, &mut effs);
                let mut ec = ExitCount { n: 0 };
                ec.visit_block(&block);
                exits.push((*id, ec.n));
                if effs.is_empty() {
                    errors.push(format!("{file}: function {path}: no recognised effect (shape not recognised)"));
                }
                orders.push((*id, path.to_string(), effs));
            }
        }
    }

    // ---- constants
    let mut consts: Vec<(String, u128)> = Vec::new();
    for (file, name) in CONST_TARGETS {
        if let Err(e) = load(file, &mut parsed) {
            errors.push(e);
            continue;
        }
        match find_const(&parsed[*file], name) {
            Some(v) => {
                let stem = Path::new(file).file_stem().unwrap().to_string_lossy().to_string();
                let stem = if stem == "mod" || stem == "lib" {
                    Path::new(file).parent().unwrap().file_name().unwrap().to_string_lossy().to_string()
                } else {
                    stem
                };
                consts.push((format!("{}_{}", stem.replace('-', "_"), name), v))
            }
            None => errors.push(format!("{file}: const {name} not found or not a literal expression")),
        }
    }

    // ---- event schema
    let schema = match load("crates/rip-kernel/src/lib.rs", &mut parsed) {
        Ok(()) => match schema::extract(&parsed["crates/rip-kernel/src/lib.rs"]) {
            Ok(s) => Some(s),
            Err(e) => {
                errors.push(e);
                None
            }
        },
        Err(e) => {
            errors.push(e);
            None
        }
    };

    // ---- call graph of impl ContinuityStore (which entry points can reach a log append)
    let mut graph: Vec<(String, Vec<String>, bool)> = Vec::new();
    match load("crates/ripd/src/continuities.rs", &mut parsed) {
        Err(e) => errors.push(e),
        Ok(()) => {
            let mut cg = CallGraph { cur_type: None, out: Vec::new() };
            cg.visit_file(&parsed["crates/ripd/src/continuities.rs"]);
            graph = cg.out;
            for name in READ_ONLY_ENTRIES {
                if !graph.iter().any(|(n, _, _)| n == name) {
                    errors.push(format!("continuities.rs: read-only entry point {name} not found"));
                }
            }
            if !graph.iter().any(|(_, _, a)| *a) {
                errors.push("continuities.rs: no function appends to the event log (shape not recognised)".into());
            }
        }
    }
    // the cache layer must not know the truth log at all
    for f in ["crates/ripd/src/continuity_stream_cache.rs", "crates/ripd/src/continuity_seek_index.rs", "crates/ripd/src/message_ordinal_index.rs", "crates/ripd/src/compaction_checkpoint_index.rs"] {
        match std::fs::read_to_string(repo.join(f)) {
            Err(e) => errors.push(format!("{f}: {e}")),
            Ok(text) => {
                let code: String = text
                    .split("#[cfg(test)]")
                    .next()
                    .unwrap_or("")
                    .lines()
                    .filter(|l| !l.trim_start().starts_with("//"))
                    .collect::<Vec<_>>()
                    .join("\n");
                if code.contains("EventLog") || code.contains("events.jsonl") || code.contains("event_log") {
                    cache_mentions_log.push(f.to_string());
                }
            }
        }
    }

    // ---- lock table: which tools are exempt from the workspace lock, which tools are registered
    let mut exempt: Vec<String> = Vec::new();
    let mut exempt_is_complement = false;
    let mut registered: Vec<String> = Vec::new();
    match std::fs::read_to_string(repo.join("crates/ripd/src/workspace_lock.rs")) {
        Err(e) => errors.push(format!("workspace_lock.rs: {e}")),
        Ok(text) => match syn::parse_file(&text) {
            Err(e) => errors.push(format!("workspace_lock.rs: {e}")),
            Ok(f) => {
                let mut found = false;
                for item in &f.items {
                    if let syn::Item::Fn(func) = item {
                        if func.sig.ident == "requires_workspace_lock" {
                            found = true;
                            let body = func.block.to_token_stream().to_string();
                            // deny-list `!matches!(tool_name, "a" | …)` (the listed tools are exempt) or
                            // allow-list `matches!(tool_name, "a" | …)` (every other registered tool is exempt)
                            let squashed = body.replace(' ', "");
                            if squashed.starts_with("{matches!(tool_name,") {
                                exempt_is_complement = true;
                            } else if !squashed.starts_with("{!matches!(tool_name,") {
                                errors.push("requires_workspace_lock: shape not recognised (expected `!matches!(tool_name, \"a\" | …)` or `matches!(tool_name, \"a\" | …)`)".into());
                            }
                            let mut rest = body.as_str();
                            while let Some(p) = rest.find('"') {
                                let r = &rest[p + 1..];
                                let Some(q) = r.find('"') else { break };
                                exempt.push(r[..q].to_string());
                                rest = &r[q + 1..];
                            }
                        }
                    }
                }
                if !found {
                    errors.push("workspace_lock.rs: requires_workspace_lock not found".into());
                }
            }
        },
    }
    match std::fs::read_to_string(repo.join("crates/rip-tools/src/builtins/mod.rs")) {
        Err(e) => errors.push(format!("builtins/mod.rs: {e}")),
        Ok(text) => match syn::parse_file(&text) {
            Err(e) => errors.push(format!("builtins/mod.rs: {e}")),
            Ok(f) => {
                let mut rc = RegCollect { names: Vec::new() };
                for item in &f.items {
                    if let syn::Item::Fn(func) = item {
                        if func.sig.ident == "register_builtin_tools" {
                            rc.visit_block(&func.block);
                        }
                    }
                }
                registered = rc.names;
                if registered.is_empty() {
                    errors.push("register_builtin_tools: no registry.register(\"…\") call found".into());
                }
                if exempt_is_complement {
                    let listed = std::mem::take(&mut exempt);
                    exempt = registered.iter().filter(|n| !listed.contains(n)).cloned().collect();
                }
            }
        },
    }

    // ---- how the truth file is opened and written (impl EventLog)
    let mut log_fx = LogFx::default();
    match load("crates/rip-log/src/lib.rs", &mut parsed) {
        Err(e) => errors.push(e),
        Ok(()) => {
            log_fx.visit_file(&parsed["crates/rip-log/src/lib.rs"]);
            if log_fx.opens.is_empty() {
                errors.push("rip-log: no OpenOptions chain found in impl EventLog (shape not recognised)".into());
            }
        }
    }

    if !errors.is_empty() {
        for e in &errors {
            eprintln!("ripx: {e}");
        }
        std::process::exit(1);
    }

    // ---- emit Lean
    let mut lean = String::new();
    lean.push_str("/- GENERATED by ripx from /repo's current source. Do not edit. -/\nnamespace Rip.Gen\n\n");
    lean.push_str("inductive Eff\n  | publish | record | lock (n : Nat) | unlock (n : Nat) | logAppend | cacheAppend | bump\n  | subscribe | snapshot | seqLoad | createThread | runTool | emitBatch | sideEffects | runProcess | fsWrite | fsFlush\n  | brNeedsLock | brNoLock | brBarred | brAllowed | brEnd | validateGate | httpSend\n  | appendMessage | runSpawned | spawnSession | selDecided | compiled | cursorUpdated | runEnded | writeSnapshot | agentLoop\n  | appendFrame | dryRunGate | tryCache | logRead | rebuild | fromLogLocked\n  deriving Repr, DecidableEq\n\n");
    lean.push_str("/-- lock ids: 1 = recorded-frames buffer, 2 = task seq counter, 3 = continuity next_seq map, 4 = index, 5 = log file, 9 = other -/\n");
    lean.push_str("def effectOrders : List (Nat × List Eff) := [\n");
    for (k, (id, path, effs)) in orders.iter().enumerate() {
        lean.push_str(&format!(
            "  -- {path}\n  ({id}, [{}]){}\n",
            effs.iter().map(eff_lean).collect::<Vec<_>>().join(", "),
            if k + 1 == orders.len() { "" } else { "," }
        ));
    }
    lean.push_str("]\n\n");
    lean.push_str("def orderOf (id : Nat) : List Eff := match effectOrders.find? (fun e => e.1 == id) with | some e => e.2 | none => []\n\n");
    lean.push_str("/-- (function id, number of early exits: `return` expressions and `?` operators in its body) -/\n");
    lean.push_str(&format!("def earlyExits : List (Nat × Nat) := [{}]\n\n", exits.iter().map(|(i, n)| format!("({i}, {n})")).collect::<Vec<_>>().join(", ")));
    lean.push_str("def earlyExitsOf (id : Nat) : Nat := match earlyExits.find? (fun e => e.1 == id) with | some e => e.2 | none => 1000\n\n");
    lean.push_str("end Rip.Gen\n");
    write_if_changed(&out.join("EffectOrder.lean"), &lean);

    let mut lean = String::new();
    lean.push_str("/- GENERATED by ripx from /repo's current source. Do not edit. -/\nnamespace Rip.Gen.Consts\n\n");
    for (n, v) in &consts {
        lean.push_str(&format!("def {n} : Nat := {v}\n"));
    }
    lean.push_str("\nend Rip.Gen.Consts\n");
    write_if_changed(&out.join("Consts.lean"), &lean);

    if let Some(s) = &schema {
        write_if_changed(&out.join("EventSchema.lean"), &schema::to_lean(s));
    }

    // call graph
    let mut lean = String::new();
    lean.push_str("/- GENERATED by ripx from crates/ripd/src/continuities.rs. Do not edit. -/\nnamespace Rip.Gen.CallGraph\n\n");
    lean.push_str("/-- (function, direct callees inside impl ContinuityStore, appends to the event log directly) -/\n");
    lean.push_str("def fns : List (Nat × List Nat × Bool) := [\n");
    let idx = |n: &str| graph.iter().position(|(x, _, _)| x == n);
    for (k, (name, callees, appends)) in graph.iter().enumerate() {
        let cs: Vec<String> = callees.iter().filter_map(|c| idx(c)).map(|i| i.to_string()).collect();
        lean.push_str(&format!("  ({k}, [{}], {}){} -- {name}\n", cs.join(", "), appends, if k + 1 == graph.len() { " " } else { "," }));
    }
    lean.push_str("]\n\n");
    lean.push_str(&format!(
        "/-- the read-only capabilities: {} -/\ndef readOnlyEntries : List Nat := [{}]\n\n",
        READ_ONLY_ENTRIES.join(", "),
        READ_ONLY_ENTRIES.iter().filter_map(|n| idx(n)).map(|i| i.to_string()).collect::<Vec<_>>().join(", ")
    ));
    lean.push_str(&format!("/-- cache-layer files that mention the truth log (must be none) -/\ndef cacheFilesMentioningLog : Nat := {}\n\n", cache_mentions_log.len()));
    // who rewrites the sidecar from a log snapshot (C06): every function of ripd/src (outside test
    // modules) whose body calls `rebuild_best_effort`, by FNV-1a 64 of its name
    let mut rebuilders: Vec<String> = Vec::new();
    for f in ["crates/ripd/src/continuities.rs", "crates/ripd/src/continuity_stream_cache.rs", "crates/ripd/src/server.rs", "crates/ripd/src/session.rs", "crates/ripd/src/runner.rs"] {
        if load(f, &mut parsed).is_err() {
            continue;
        }
        struct Who {
            cur: Vec<String>,
            out: Vec<String>,
        }
        impl<'ast> Visit<'ast> for Who {
            fn visit_item_mod(&mut self, m: &'ast syn::ItemMod) {
                if m.ident == "tests" || m.attrs.iter().any(|a| a.to_token_stream().to_string().replace(' ', "").contains("cfg(test)")) {
                    return;
                }
                syn::visit::visit_item_mod(self, m);
            }
            fn visit_item_fn(&mut self, f: &'ast syn::ItemFn) {
                self.cur.push(f.sig.ident.to_string());
                syn::visit::visit_item_fn(self, f);
                self.cur.pop();
            }
            fn visit_impl_item_fn(&mut self, f: &'ast syn::ImplItemFn) {
                self.cur.push(f.sig.ident.to_string());
                syn::visit::visit_impl_item_fn(self, f);
                self.cur.pop();
            }
            fn visit_expr_method_call(&mut self, m: &'ast syn::ExprMethodCall) {
                if m.method == "rebuild_best_effort" {
                    if let Some(n) = self.cur.last() {
                        if !self.out.contains(n) {
                            self.out.push(n.clone());
                        }
                    }
                }
                syn::visit::visit_expr_method_call(self, m);
            }
        }
        let mut w = Who { cur: Vec::new(), out: Vec::new() };
        w.visit_file(&parsed[f]);
        rebuilders.extend(w.out);
    }
    rebuilders.sort();
    lean.push_str(&format!(
        "/-- functions that rewrite the sidecar from a log snapshot (call `rebuild_best_effort`): {} -/\ndef sidecarRebuilders : List Nat := [{}]\n\n",
        rebuilders.join(", "),
        rebuilders.iter().map(|n| fnv64(n.as_bytes()).to_string()).collect::<Vec<_>>().join(", ")
    ));
    lean.push_str("end Rip.Gen.CallGraph\n");
    write_if_changed(&out.join("CallGraph.lean"), &lean);

    // lock table
    let tool_id = |n: &str| -> usize {
        match n {
            "read" => 1,
            "ls" => 2,
            "grep" => 3,
            "artifact_fetch" => 4,
            "write" => 5,
            "apply_patch" => 6,
            "bash" => 7,
            "shell" => 8,
            other => 100 + (fnv64(other.as_bytes()) % 100_000) as usize,
        }
    };
    let mut lean = String::new();
    lean.push_str("/- GENERATED by ripx from ripd/src/workspace_lock.rs and rip-tools/src/builtins/mod.rs. Do not edit. -/\nnamespace Rip.Gen.LockTable\n\n");
    lean.push_str("/-- tool ids: 1 read, 2 ls, 3 grep, 4 artifact_fetch, 5 write, 6 apply_patch, 7 bash, 8 shell; any other tool name gets an id ≥ 100 -/\n");
    lean.push_str(&format!("def exemptFromLock : List Nat := [{}] -- {}\n\n", exempt.iter().map(|n| tool_id(n).to_string()).collect::<Vec<_>>().join(", "), exempt.join(", ")));
    lean.push_str(&format!("def registered : List Nat := [{}] -- {}\n\n", registered.iter().map(|n| tool_id(n).to_string()).collect::<Vec<_>>().join(", "), registered.join(", ")));
    lean.push_str("end Rip.Gen.LockTable\n");
    write_if_changed(&out.join("LockTable.lean"), &lean);

    // log effects
    let mut lean = String::new();
    lean.push_str("/- GENERATED by ripx from crates/rip-log/src/lib.rs (impl EventLog). Do not edit. -/\nnamespace Rip.Gen.LogEffects\n\n");
    lean.push_str("structure Open where\n  create : Bool\n  append : Bool\n  truncate : Bool\n  write : Bool\n  createNew : Bool\n  deriving Repr, DecidableEq\n\n");
    lean.push_str(&format!(
        "def opens : List Open := [{}]\n\n",
        log_fx.opens.iter().map(|o| format!("{{ create := {}, append := {}, truncate := {}, write := {}, createNew := {} }}", o.0, o.1, o.2, o.3, o.4)).collect::<Vec<_>>().join(", ")
    ));
    lean.push_str(&format!("/-- File::create / set_len / seek / fs::write / remove_file / rename / truncate inside impl EventLog -/\ndef destructiveCalls : Nat := {}\n\n", log_fx.destructive));
    // EventLog::append: how many of its write / flush calls sit under a condition (if / match / loop)
    {
        struct CondWrites {
            depth: u32,
            total: u32,
            conditional: u32,
        }
        impl<'ast> Visit<'ast> for CondWrites {
            fn visit_expr_if(&mut self, e: &'ast syn::ExprIf) {
                self.visit_expr(&e.cond);
                self.depth += 1;
                self.visit_block(&e.then_branch);
                if let Some((_, els)) = &e.else_branch {
                    self.visit_expr(els);
                }
                self.depth -= 1;
            }
            fn visit_expr_match(&mut self, m: &'ast syn::ExprMatch) {
                self.visit_expr(&m.expr);
                self.depth += 1;
                for a in &m.arms {
                    self.visit_arm(a);
                }
                self.depth -= 1;
            }
            fn visit_expr_while(&mut self, w: &'ast syn::ExprWhile) {
                self.depth += 1;
                syn::visit::visit_expr_while(self, w);
                self.depth -= 1;
            }
            fn visit_expr_for_loop(&mut self, f: &'ast syn::ExprForLoop) {
                self.depth += 1;
                syn::visit::visit_expr_for_loop(self, f);
                self.depth -= 1;
            }
            fn visit_expr_method_call(&mut self, c: &'ast syn::ExprMethodCall) {
                let m = c.method.to_string();
                if m == "write_all" || m == "flush" || m == "write" {
                    self.total += 1;
                    if self.depth > 0 {
                        self.conditional += 1;
                    }
                }
                syn::visit::visit_expr_method_call(self, c);
            }
        }
        let mut finder = FnFinder { want_type: Some("EventLog"), want_fn: "append", cur_type: None, found: None };
        finder.visit_file(&parsed["crates/rip-log/src/lib.rs"]);
        let mut cw = CondWrites { depth: 0, total: 0, conditional: 0 };
        match finder.found {
            None => {
                eprintln!("ripx: rip-log/src/lib.rs: EventLog::append not found");
                std::process::exit(1);
            }
            Some(block) => cw.visit_block(&block),
        }
        lean.push_str(&format!("/-- write_all / write / flush calls in `EventLog::append` -/\ndef appendWrites : Nat := {}\n\n", cw.total));
        lean.push_str(&format!("/-- … of which under an `if`, a `match` arm or a loop -/\ndef appendWritesUnderACondition : Nat := {}\n\n", cw.conditional));
    }
    lean.push_str("end Rip.Gen.LogEffects\n");
    write_if_changed(&out.join("LogEffects.lean"), &lean);

    // tail loops (C04)
    let mut loops = TailLoops { cur_fn: Vec::new(), found: Vec::new() };
    match load("crates/ripd/src/continuities.rs", &mut parsed) {
        Ok(()) => loops.visit_file(&parsed["crates/ripd/src/continuities.rs"]),
        Err(e) => {
            eprintln!("ripx: {e}");
            std::process::exit(1);
        }
    }
    let cont_src = std::fs::read_to_string(repo.join("crates/ripd/src/continuities.rs")).unwrap_or_default();
    let cont_flat: String = cont_src.split_whitespace().collect();
    // provider_cursor_status_v1 falls back to the truth log when its scan was not enough
    let cursor_fallback = cont_flat.contains("if!scanned_sidecar||!tail_enough{");
    // context_selection_status_v1 falls back when the tail is incomplete and short of the limit
    let selection_fallback = cont_flat.contains("if!scanned_sidecar||(!tail_complete&&decisions.len()<limit){");
    // scan_tail rejects a file whose first frame is not seq 0 when the scan reached its start
    let cache_src = std::fs::read_to_string(repo.join("crates/ripd/src/continuity_stream_cache.rs")).unwrap_or_default();
    let cache_flat: String = cache_src.split_whitespace().collect();
    let head_check = cache_flat.contains("parsed.complete&&events.first().map(|event|event.seq)!=Some(0)")
        || cache_flat.contains("parsed.complete&&events.first().map(|e|e.seq)!=Some(0)");
    let mut lean = String::new();
    lean.push_str("/- GENERATED by ripx from crates/ripd/src/continuities.rs and continuity_stream_cache.rs. Do not edit. -/\nnamespace Rip.Gen.TailLoops\n\n");
    lean.push_str("/-- doubling-window loops `while tail_bytes <= MAX_TAIL_BYTES …`: (FNV-1a 64 of the function name, leaves the loop at the largest window, doubles the window, clears an accumulator per window) -/\n");
    lean.push_str("def loops : List (Nat × Bool × Bool × Bool) := [\n");
    for (i, (n, e, d, c)) in loops.found.iter().enumerate() {
        lean.push_str(&format!("  ({}, {e}, {d}, {c}){} -- {n}\n", fnv64(n.as_bytes()), if i + 1 < loops.found.len() { "," } else { "" }));
    }
    lean.push_str("]\n\n");
    lean.push_str(&format!("/-- provider_cursor_status_v1: `if !scanned_sidecar || !tail_enough` ⇒ answer from the truth log -/\ndef cursorFallback : Bool := {cursor_fallback}\n\n"));
    lean.push_str(&format!("/-- context_selection_status_v1: `if !scanned_sidecar || (!tail_complete && decisions.len() < limit)` ⇒ truth log -/\ndef selectionFallback : Bool := {selection_fallback}\n\n"));
    lean.push_str(&format!("/-- scan_tail: a scan that reached the start of the file must begin at seq 0 -/\ndef headCheck : Bool := {head_check}\n\n"));
    lean.push_str("end Rip.Gen.TailLoops\n");
    write_if_changed(&out.join("TailLoops.lean"), &lean);

    // secret readers (C19)
    let mut readers = SecretReaders { cur_fn: Vec::new(), found: BTreeMap::new() };
    for f in SECRET_FILES {
        match load(f, &mut parsed) {
            Ok(()) => readers.visit_file(&parsed[*f]),
            Err(e) => {
                eprintln!("ripx: {e}");
                std::process::exit(1);
            }
        }
    }
    let mut lean = String::new();
    lean.push_str("/- GENERATED by ripx from ripd/src/{config,server,session,provider_openresponses,runner,openresponses_observability}.rs. Do not edit. -/\nnamespace Rip.Gen.SecretReaders\n\n");
    lean.push_str("/-- functions (outside test modules) that read the field `.api_key` or `.headers`: (FNV-1a 64 of the function name, number of reads) -/\n");
    lean.push_str("def readers : List (Nat × Nat) := [\n");
    let items: Vec<String> = readers.found.iter().map(|(n, c)| format!("  ({}, {c}) -- {n}", fnv64(n.as_bytes()))).collect();
    for (i, it) in items.iter().enumerate() {
        let (a, b) = it.split_once(" -- ").unwrap();
        lean.push_str(&format!("{a}{} -- {b}\n", if i + 1 < items.len() { "," } else { "" }));
    }
    lean.push_str("]\n\nend Rip.Gen.SecretReaders\n");
    write_if_changed(&out.join("SecretReaders.lean"), &lean);

    // seq accounting (C01)
    let mut lean = String::new();
    lean.push_str("/- GENERATED by ripx from ripd/src/{session,tasks/mod,checkpoints}.rs and rip-tools/src/runtime.rs. Do not edit. -/\nnamespace Rip.Gen.SeqAccounting\n\n");
    lean.push_str("/-- per function (outside test and hook modules), in source order: every struct literal with a field `seq: …` numbered from a dereferenced counter (`Event { … }` and the input structs of frame builders) and every `*counter += …`. Token = (FNV-1a 64 of the counter expression, kind, argument): kind 0 = frame literal (argument 1 iff the seq expression is exactly `*counter`), kind 1 = `+= <literal>` (argument = the literal), kind 2 = `+= <other expression>` -/\n");
    lean.push_str("def table : List (Nat × List (Nat × Nat × Nat)) := [\n");
    let mut rows: Vec<String> = Vec::new();
    for f in SEQ_FILES {
        let mut acct = SeqAcct { cur_fn: Vec::new(), per_fn: BTreeMap::new() };
        match load(f, &mut parsed) {
            Ok(()) => acct.visit_file(&parsed[*f]),
            Err(e) => {
                eprintln!("ripx: {e}");
                std::process::exit(1);
            }
        }
        for (name, toks) in &acct.per_fn {
            let qual = format!("{}::{}", f.rsplit('/').next().unwrap_or(f).trim_end_matches(".rs"), name);
            let ts: Vec<String> = toks
                .iter()
                .map(|t| match t {
                    SeqTok::Use { counter, plain } => format!("({}, 0, {})", fnv64(counter.as_bytes()), *plain as u8),
                    SeqTok::Bump { counter, k } => format!("({}, 1, {k})", fnv64(counter.as_bytes())),
                    SeqTok::Batch { counter } => format!("({}, 2, 0)", fnv64(counter.as_bytes())),
                })
                .collect();
            rows.push(format!("  ({}, [{}]) -- {qual}", fnv64(qual.as_bytes()), ts.join(", ")));
        }
    }
    for (i, it) in rows.iter().enumerate() {
        let (a, b) = it.split_once(" -- ").unwrap();
        lean.push_str(&format!("{a}{} -- {b}\n", if i + 1 < rows.len() { "," } else { "" }));
    }
    lean.push_str("]\n\nend Rip.Gen.SeqAccounting\n");
    write_if_changed(&out.join("SeqAccounting.lean"), &lean);

    // authority recovery (C18): in `acquire_authority_lock_with_recovery` (ripd/src/server.rs), whose
    // liveness is checked and whose files the stale cleanup is asked to remove
    {
        struct Args {
            liveness: Vec<String>,
            cleanup_pid: Vec<String>,
        }
        impl<'ast> Visit<'ast> for Args {
            fn visit_expr_call(&mut self, c: &'ast syn::ExprCall) {
                if let syn::Expr::Path(p) = &*c.func {
                    let name = p.path.segments.last().map(|s| s.ident.to_string()).unwrap_or_default();
                    if name == "pid_liveness" {
                        if let Some(a) = c.args.first() {
                            self.liveness.push(squash(a));
                        }
                    }
                    if name == "try_cleanup_stale_authority_files" {
                        if let Some(a) = c.args.iter().nth(1) {
                            self.cleanup_pid.push(squash(a));
                        }
                    }
                }
                syn::visit::visit_expr_call(self, c);
            }
        }
        let mut lean = String::new();
        lean.push_str("/- GENERATED by ripx from ripd/src/server.rs. Do not edit. -/\nnamespace Rip.Gen.AuthRecovery\n\n");
        match load("crates/ripd/src/server.rs", &mut parsed) {
            Err(e) => {
                eprintln!("ripx: {e}");
                std::process::exit(1);
            }
            Ok(()) => {
                let mut finder = FnFinder { want_type: None, want_fn: "acquire_authority_lock_with_recovery", cur_type: None, found: None };
                finder.visit_file(&parsed["crates/ripd/src/server.rs"]);
                let mut a = Args { liveness: Vec::new(), cleanup_pid: Vec::new() };
                match finder.found {
                    None => {
                        eprintln!("ripx: server.rs: acquire_authority_lock_with_recovery not found");
                        std::process::exit(1);
                    }
                    Some(block) => a.visit_block(&block),
                }
                lean.push_str(&format!(
                    "/-- FNV-1a 64 of the argument expression of every `pid_liveness(…)` call in the recovery loop: {} -/\ndef livenessOf : List Nat := [{}]\n\n",
                    a.liveness.join(", "),
                    a.liveness.iter().map(|x| fnv64(x.as_bytes()).to_string()).collect::<Vec<_>>().join(", ")
                ));
                lean.push_str(&format!(
                    "/-- …and of the expected-pid argument of every `try_cleanup_stale_authority_files(…)` call: {} -/\ndef cleanupExpects : List Nat := [{}]\n\n",
                    a.cleanup_pid.join(", "),
                    a.cleanup_pid.iter().map(|x| fnv64(x.as_bytes()).to_string()).collect::<Vec<_>>().join(", ")
                ));
                lean.push_str(&format!("/-- FNV-1a 64 of `lock.pid` (the pid recorded in the lock file that was just read) -/\ndef lockPid : Nat := {}\n\n", fnv64(b"lock.pid")));
            }
        }
        // the meta step of the stale cleanup (ripd/src/local_authority.rs): under which conditions
        // meta.json is renamed away
        {
            struct MetaOps {
                conds: Vec<String>,
                ops: Vec<Vec<String>>,
            }
            impl<'ast> Visit<'ast> for MetaOps {
                fn visit_expr_if(&mut self, e: &'ast syn::ExprIf) {
                    self.visit_expr(&e.cond);
                    self.conds.push(squash(&e.cond));
                    self.visit_block(&e.then_branch);
                    self.conds.pop();
                    if let Some((_, els)) = &e.else_branch {
                        self.visit_expr(els);
                    }
                }
                fn visit_expr_call(&mut self, c: &'ast syn::ExprCall) {
                    if let syn::Expr::Path(p) = &*c.func {
                        let name = p.path.segments.last().map(|s| s.ident.to_string()).unwrap_or_default();
                        if (name == "rename" || name == "remove_file") && c.args.first().map(|a| squash(a) == "&meta_path" || squash(a) == "meta_path").unwrap_or(false) {
                            self.ops.push(self.conds.clone());
                        }
                    }
                    syn::visit::visit_expr_call(self, c);
                }
            }
            match load("crates/ripd/src/local_authority.rs", &mut parsed) {
                Err(e) => {
                    eprintln!("ripx: {e}");
                    std::process::exit(1);
                }
                Ok(()) => {
                    let mut finder = FnFinder { want_type: None, want_fn: "try_cleanup_stale_authority_files", cur_type: None, found: None };
                    finder.visit_file(&parsed["crates/ripd/src/local_authority.rs"]);
                    let mut m = MetaOps { conds: Vec::new(), ops: Vec::new() };
                    match finder.found {
                        None => {
                            eprintln!("ripx: local_authority.rs: try_cleanup_stale_authority_files not found");
                            std::process::exit(1);
                        }
                        Some(block) => m.visit_block(&block),
                    }
                    lean.push_str("/-- stale cleanup: for every rename / removal of `meta_path`, the FNV-1a 64 of each enclosing `if` condition, outermost first -/\n");
                    lean.push_str("def metaRemovalGuards : List (List Nat) := [\n");
                    let rows: Vec<String> = m.ops.iter().map(|cs| format!("  [{}] -- {}", cs.iter().map(|c| fnv64(c.as_bytes()).to_string()).collect::<Vec<_>>().join(", "), cs.join(" ; "))).collect();
                    for (i, it) in rows.iter().enumerate() {
                        let (a, b) = it.split_once(" -- ").unwrap();
                        lean.push_str(&format!("{a}{} -- {b}\n", if i + 1 < rows.len() { "," } else { "" }));
                    }
                    lean.push_str("]\n\n");
                    lean.push_str(&format!("/-- FNV-1a 64 of `meta.pid==expected_pid` -/\ndef metaPidIsExpected : Nat := {}\n\n", fnv64(b"meta.pid==expected_pid")));
                }
            }
        }
        lean.push_str("end Rip.Gen.AuthRecovery\n");
        write_if_changed(&out.join("AuthRecovery.lean"), &lean);
    }

    // seek-index use (C04): who reads an index entry's `.offset`, and in which order
    // `best_offset_for_seq` looks an entry up, checks it against the sidecar and reads its offset
    {
        #[derive(Default)]
        struct OffsetReaders {
            cur_fn: Vec<String>,
            found: BTreeMap<String, u32>,
            best_tokens: Vec<u32>,
        }
        impl OffsetReaders {
            fn in_best(&self) -> bool {
                self.cur_fn.last().map(|f| f == "best_offset_for_seq").unwrap_or(false)
            }
        }
        fn call_name(c: &syn::ExprCall) -> String {
            if let syn::Expr::Path(p) = &*c.func {
                p.path.segments.last().map(|s| s.ident.to_string()).unwrap_or_default()
            } else {
                String::new()
            }
        }
        impl<'ast> Visit<'ast> for OffsetReaders {
            fn visit_item_mod(&mut self, m: &'ast syn::ItemMod) {
                if m.ident == "tests" || m.attrs.iter().any(|a| a.to_token_stream().to_string().replace(' ', "").contains("cfg(test)")) {
                    return;
                }
                syn::visit::visit_item_mod(self, m);
            }
            fn visit_item_fn(&mut self, f: &'ast syn::ItemFn) {
                self.cur_fn.push(f.sig.ident.to_string());
                syn::visit::visit_item_fn(self, f);
                self.cur_fn.pop();
            }
            fn visit_impl_item_fn(&mut self, f: &'ast syn::ImplItemFn) {
                self.cur_fn.push(f.sig.ident.to_string());
                syn::visit::visit_impl_item_fn(self, f);
                self.cur_fn.pop();
            }
            fn visit_expr_try(&mut self, t: &'ast syn::ExprTry) {
                if self.in_best() {
                    if let syn::Expr::Call(c) = &*t.expr {
                        if call_name(c) == "validate_seq_index_against_sidecar" {
                            // the check, with its failure propagated
                            self.best_tokens.push(2);
                            for a in c.args.iter() {
                                self.visit_expr(a);
                            }
                            return;
                        }
                    }
                }
                syn::visit::visit_expr_try(self, t);
            }
            fn visit_expr_call(&mut self, c: &'ast syn::ExprCall) {
                if self.in_best() {
                    match call_name(c).as_str() {
                        "best_entry_for_seq" => self.best_tokens.push(1),
                        "validate_seq_index_against_sidecar" => self.best_tokens.push(4), // result not propagated
                        _ => {}
                    }
                }
                syn::visit::visit_expr_call(self, c);
            }
            fn visit_expr_field(&mut self, e: &'ast syn::ExprField) {
                if let syn::Member::Named(i) = &e.member {
                    if i == "offset" {
                        let name = self.cur_fn.last().cloned().unwrap_or_else(|| "<top>".into());
                        *self.found.entry(name).or_insert(0) += 1;
                        if self.in_best() {
                            self.best_tokens.push(3);
                        }
                    }
                }
                syn::visit::visit_expr_field(self, e);
            }
        }
        let mut r = OffsetReaders::default();
        let mut seek_starts: Vec<(String, String)> = Vec::new();
        for f in ["crates/ripd/src/continuity_seek_index.rs", "crates/ripd/src/continuity_stream_cache.rs"] {
            match load(f, &mut parsed) {
                Ok(()) => r.visit_file(&parsed[f]),
                Err(e) => {
                    eprintln!("ripx: {e}");
                    std::process::exit(1);
                }
            }
        }
        // every `best_offset_for_seq(…)` call site and every other function that hands a byte offset
        // of the full sidecar to `SeekFrom::Start`
        {
            struct Starts<'a> {
                cur_fn: Vec<String>,
                out: &'a mut Vec<(String, String)>,
            }
            impl<'ast, 'a> Visit<'ast> for Starts<'a> {
                fn visit_item_mod(&mut self, m: &'ast syn::ItemMod) {
                    if m.ident == "tests" {
                        return;
                    }
                    syn::visit::visit_item_mod(self, m);
                }
                fn visit_impl_item_fn(&mut self, f: &'ast syn::ImplItemFn) {
                    self.cur_fn.push(f.sig.ident.to_string());
                    syn::visit::visit_impl_item_fn(self, f);
                    self.cur_fn.pop();
                }
                fn visit_item_fn(&mut self, f: &'ast syn::ItemFn) {
                    self.cur_fn.push(f.sig.ident.to_string());
                    syn::visit::visit_item_fn(self, f);
                    self.cur_fn.pop();
                }
                fn visit_expr_call(&mut self, c: &'ast syn::ExprCall) {
                    if let syn::Expr::Path(p) = &*c.func {
                        let segs: Vec<String> = p.path.segments.iter().map(|s| s.ident.to_string()).collect();
                        if segs.ends_with(&["SeekFrom".to_string(), "Start".to_string()]) {
                            if let Some(a) = c.args.first() {
                                self.out.push((self.cur_fn.last().cloned().unwrap_or_default(), squash(a)));
                            }
                        }
                    }
                    syn::visit::visit_expr_call(self, c);
                }
            }
            let mut st = Starts { cur_fn: Vec::new(), out: &mut seek_starts };
            st.visit_file(&parsed["crates/ripd/src/continuity_stream_cache.rs"]);
        }
        if r.best_tokens.is_empty() {
            eprintln!("ripx: continuity_seek_index.rs: best_offset_for_seq not found or empty");
            std::process::exit(1);
        }
        let mut lean = String::new();
        lean.push_str("/- GENERATED by ripx from ripd/src/{continuity_seek_index,continuity_stream_cache}.rs. Do not edit. -/\nnamespace Rip.Gen.SeekUse\n\n");
        lean.push_str("/-- functions (outside test modules) that read a field `.offset`: (FNV-1a 64 of the function name, number of reads) -/\n");
        lean.push_str("def offsetReaders : List (Nat × Nat) := [\n");
        let items: Vec<String> = r.found.iter().map(|(n, c)| format!("  ({}, {c}) -- {n}", fnv64(n.as_bytes()))).collect();
        for (i, it) in items.iter().enumerate() {
            let (a, b) = it.split_once(" -- ").unwrap();
            lean.push_str(&format!("{a}{} -- {b}\n", if i + 1 < items.len() { "," } else { "" }));
        }
        lean.push_str("]\n\n");
        lean.push_str("/-- `best_offset_for_seq`, in source order: 1 = the entry is looked up (`best_entry_for_seq`), 2 = `validate_seq_index_against_sidecar(…)?` (checked, failure propagated), 4 = the same call without `?`, 3 = a read of `.offset` -/\n");
        lean.push_str(&format!("def bestOffsetTokens : List Nat := [{}]\n\n", r.best_tokens.iter().map(|t| t.to_string()).collect::<Vec<_>>().join(", ")));
        lean.push_str("/-- every `SeekFrom::Start(x)` in continuity_stream_cache.rs: (FNV-1a 64 of the function name, FNV-1a 64 of `x`) -/\n");
        lean.push_str("def seekStarts : List (Nat × Nat) := [\n");
        let items: Vec<String> = seek_starts.iter().map(|(f, a)| format!("  ({}, {}) -- {f}: {a}", fnv64(f.as_bytes()), fnv64(a.as_bytes()))).collect();
        for (i, it) in items.iter().enumerate() {
            let (a, b) = it.split_once(" -- ").unwrap();
            lean.push_str(&format!("{a}{} -- {b}\n", if i + 1 < items.len() { "," } else { "" }));
        }
        lean.push_str("]\n\n");
        for n in ["best_offset_for_seq", "validate_seq_index_against_sidecar", "load_seq_index_v1", "start_offset", "anchor_offset", "boundary_pos_for_seq_v1", "window_recent_messages_v1_from_cut_v1"] {
            lean.push_str(&format!("def h_{n} : Nat := {}\n", fnv64(n.as_bytes())));
        }
        lean.push_str("\nend Rip.Gen.SeekUse\n");
        write_if_changed(&out.join("SeekUse.lean"), &lean);
    }

    if let Some(p) = json_out {
        let v: Value = json!({
            "orders": orders.iter().map(|(id, p, e)| json!({"id": id, "fn": p, "effects": e.iter().map(eff_lean).collect::<Vec<_>>()})).collect::<Vec<_>>(),
            "consts": consts.iter().map(|(n, v)| json!({"name": n, "value": v.to_string()})).collect::<Vec<_>>(),
            "schema": schema.as_ref().map(schema::to_json),
            "source_digests": digests,
            "lock_table": {"exempt": exempt},
        });
        std::fs::write(p, serde_json::to_string_pretty(&v).unwrap()).expect("write json");
    }
}

fn write_if_changed(path: &Path, text: &str) {
    if std::fs::read_to_string(path).map(|t| t == text).unwrap_or(false) {
        return;
    }
    std::fs::write(path, text).expect("write generated file");
}
