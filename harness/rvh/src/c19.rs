//! C19: secrets never reach frames, artifacts, caches, logs or diagnostics.
//! Each case plants canary secrets in every way a secret can be supplied (four configuration layers,
//! inline and env indirection, the three fallback environment variables, custom headers), then
//!  (1) compares GET /config/doctor and the headers the scripted provider actually received with the
//!      Lean model of layered resolution (`Rip.Secrets.resolve` / `doctor` / `wire`);
//!  (2) runs a thread message against the provider (success with a tool call, HTTP error echoing the
//!      request body, dropped connection, junk events), with request dumping on and off;
//!  (3) searches every file the authority wrote, every HTTP response and — the cases run in a child
//!      process — the process's stdout/stderr for the canaries.
use crate::c16::{build_sse, gen_response};
use crate::common::*;
use crate::http::*;
use crate::provider::*;
use serde_json::{json, Map, Value};
use std::collections::BTreeMap;
use std::path::{Path, PathBuf};

const ENV_VARS: &[&str] = &[
    "RIP_CONFIG_HOME",
    "RIP_CONFIG",
    "RIP_OPENRESPONSES_ENDPOINT",
    "RIP_OPENRESPONSES_MODEL",
    "RIP_OPENRESPONSES_API_KEY",
    "OPENAI_API_KEY",
    "OPENROUTER_API_KEY",
    "C19_KEY_1",
    "C19_KEY_2",
    "C19_KEY_3",
    "RIP_OPENRESPONSES_DUMP_REQUEST",
];

struct Secrets {
    vals: Vec<String>, // index 0 = blank
    serial: u64,
    case_no: u64,
}

impl Secrets {
    fn fresh(&mut self, rng: &mut Rng) -> (String, usize) {
        if rng.chance(1, 8) {
            return (rng.pick(&["", "  "]).to_string(), 0);
        }
        self.serial += 1;
        // secrets as they really arrive: some carry a trailing line break (pasted key, CRLF .env
        // file) or another byte that is illegal in a header value
        let tail = match rng.below(12) {
            0 => "\n",
            1 => "\r\n",
            2 => "\u{1}x",
            _ => "",
        };
        // and in the shapes real credentials come in: diagnostics that guess what a value "looks
        // like" (a variable name, a URL, a token family) treat some shapes differently
        let (c, n) = (self.case_no, self.serial);
        let body = match rng.below(8) {
            0 => format!("CANARY_{c}_{n}_S3CR3T"),               // like an environment variable name
            1 => format!("CANARY{c}X{n}ABCDEF0123456789"),        // upper-case alphanumeric (hex / ULID-like)
            2 => format!("sk-CANARY-{c}-{n}-s3cr3t"),             // vendor-prefixed
            3 => format!("eyJhbGciOi.CANARY{c}x{n}.c2lnbmF0dXJl"), // three dot-separated parts
            4 => format!("https://CANARY-{c}-{n}.example/key"),   // URL-shaped
            5 => format!("CANARY {c} {n} with spaces"),
            _ => format!("CANARY-{c}-{n}-s3cr3t"),
        };
        let s = format!("{body}{tail}");
        self.vals.push(s.clone());
        (s, self.vals.len() - 1)
    }
}

fn endpoints(base: &str) -> Vec<(String, bool, bool)> {
    vec![
        (format!("{base}/v1/responses"), false, false),
        (format!("{base}/openai.com/v1/responses"), true, false),
        (format!("{base}/openrouter.ai/v1/responses"), false, true),
        ("http://127.0.0.1:9/unused".to_string(), false, false),
    ]
}

fn ep_token(i: Option<usize>, eps: &[(String, bool, bool)]) -> String {
    match i {
        None => "_".into(),
        Some(i) => format!("E {} {} {}", i, eps[i].1 as u8, eps[i].2 as u8),
    }
}

/// one configuration layer: (json, model token)
fn gen_layer(rng: &mut Rng, sec: &mut Secrets, eps: &[(String, bool, bool)]) -> (Value, String) {
    let mut providers = Map::new();
    let mut ptoks: Vec<String> = Vec::new();
    for pid in 1..=3usize {
        if !rng.chance(1, 2) {
            continue;
        }
        let mut p = Map::new();
        let ep = if rng.chance(2, 3) { Some(rng.below(eps.len() as u64) as usize) } else { None };
        if let Some(i) = ep {
            p.insert("endpoint".into(), json!(eps[i].0));
        }
        let key_tok = match rng.below(4) {
            0 => "_".to_string(),
            1 | 2 => {
                let (s, n) = sec.fresh(rng);
                p.insert("api_key".into(), json!(s));
                format!("I {n}")
            }
            _ => {
                let k = rng.range(1, 3);
                p.insert("api_key".into(), json!({"env": format!("C19_KEY_{k}")}));
                format!("N {k}")
            }
        };
        let mut headers = Map::new();
        let mut htoks = Vec::new();
        for h in 1..=3usize {
            if rng.chance(1, 3) {
                let (s, n) = sec.fresh(rng);
                // a blank header value cannot be sent as such; keep header values non-blank
                let (s, n) = if n == 0 { ("plain".to_string(), sec_plain(sec)) } else { (s, n) };
                headers.insert(format!("x-h{h}"), json!(s));
                htoks.push(format!("{h} {n}"));
            }
        }
        if !headers.is_empty() || rng.chance(1, 3) {
            p.insert("headers".into(), Value::Object(headers));
        }
        providers.insert(format!("p{pid}"), Value::Object(p));
        ptoks.push(format!("{pid} {} {} {}{}{}", ep_token(ep, eps), key_tok, htoks.len(), if htoks.is_empty() { "" } else { " " }, htoks.join(" ")));
    }
    let mut layer = Map::new();
    if !providers.is_empty() || rng.chance(1, 2) {
        layer.insert("provider".into(), Value::Object(providers));
    }
    let mut route = |rng: &mut Rng| -> (Option<String>, String) {
        if rng.chance(1, 3) {
            let (p, m) = (rng.range(1, 3), rng.range(1, 3));
            (Some(format!("p{p}/m{m}")), format!("R {p} {m}"))
        } else {
            (None, "_".to_string())
        }
    };
    let (primary, ptok) = route(rng);
    let (model, mtok) = route(rng);
    if let Some(r) = primary {
        layer.insert("roles".into(), json!({"primary": r}));
    }
    if let Some(r) = model {
        layer.insert("model".into(), json!(r));
    }
    let tok = format!("{}{}{} {} {}", ptoks.len(), if ptoks.is_empty() { "" } else { " " }, ptoks.join(" "), ptok, mtok);
    (Value::Object(layer), tok)
}

fn sec_plain(sec: &mut Secrets) -> usize {
    if let Some(p) = sec.vals.iter().position(|v| v == "plain") {
        return p;
    }
    sec.vals.push("plain".into());
    sec.vals.len() - 1
}

fn walk(dir: &Path, out: &mut Vec<PathBuf>) {
    if let Ok(rd) = std::fs::read_dir(dir) {
        for e in rd.flatten() {
            let p = e.path();
            if p.is_dir() {
                walk(&p, out);
            } else {
                out.push(p);
            }
        }
    }
}

fn contains(hay: &[u8], needle: &[u8]) -> bool {
    hay.windows(needle.len()).any(|w| w == needle)
}

fn one_case(rep: &mut Report, model: &mut Model, rng: &mut Rng, case_no: u64) {
    let scratch = Scratch::new("c19");
    let data_dir = scratch.path().join("data");
    let ws = scratch.path().join("ws");
    let home = scratch.path().join("home");
    std::fs::create_dir_all(&ws).unwrap();
    std::fs::create_dir_all(&home).unwrap();
    std::fs::write(ws.join("seed.txt"), "seed\n").unwrap();
    let mut sec = Secrets { vals: vec![String::new()], serial: 0, case_no };
    // provider script: chosen below, after the endpoints are known
    let outcome = rng.below(5);
    let mut serial = 0u64;
    let first: Resp = match outcome {
        0 => Resp::EchoHttp { status: *rng.pick(&[400u16, 401, 500]) },
        1 => Resp::Drop,
        2 => Resp::Sse { body: b"data: {broken\n\nevent: x\ndata: {\"type\":\"response.bogus\"}\n\ndata: [DONE]\n\n".to_vec(), chunk: 0, cut_at: None },
        _ => {
            let evs = gen_response(rng, &mut serial, 1, false, if outcome == 3 { &["ls"] } else { &["read?"] });
            Resp::Sse { body: build_sse(rng, &evs, Some("resp_1"), true, &[]), chunk: 0, cut_at: None }
        }
    };
    let provider = ScriptedProvider::start(vec![first]);
    let base = provider.endpoint.trim_end_matches("/v1/responses").to_string();
    let eps = endpoints(&base);
    // ---- configuration layers: global, custom, outer project, inner project
    let mut own_files: Vec<PathBuf> = Vec::new();
    let mut layer_toks: Vec<String> = Vec::new();
    let slots: [(PathBuf, &str); 4] = [(home.join("config.json"), "global"), (scratch.path().join("custom-config.json"), "custom"), (scratch.path().join("rip.json"), "outer"), (ws.join("rip.json"), "inner")];
    for (path, kind) in slots.iter() {
        if !rng.chance(3, 5) {
            continue;
        }
        let (v, tok) = gen_layer(rng, &mut sec, &eps);
        let text = if rng.chance(1, 4) { format!("// {kind} layer\n{}\n", serde_json::to_string_pretty(&v).unwrap()) } else { v.to_string() };
        std::fs::write(path, text).unwrap();
        own_files.push(path.clone());
        layer_toks.push(tok);
        rep.count(&format!("layer_{kind}"));
    }
    // ---- environment
    for v in ENV_VARS {
        std::env::remove_var(v);
    }
    std::env::set_var("RIP_CONFIG_HOME", &home);
    if slots[1].0.exists() {
        std::env::set_var("RIP_CONFIG", &slots[1].0);
    }
    let env_ep = if rng.chance(1, 3) { Some(rng.below(3) as usize) } else { None };
    if let Some(i) = env_ep {
        std::env::set_var("RIP_OPENRESPONSES_ENDPOINT", &eps[i].0);
    }
    let env_model = if rng.chance(1, 4) { Some(rng.range(1, 3)) } else { None };
    if let Some(m) = env_model {
        std::env::set_var("RIP_OPENRESPONSES_MODEL", format!("m{m}"));
    }
    let mut key_var = |name: &str, rng: &mut Rng, sec: &mut Secrets, p: (u64, u64)| -> String {
        if rng.chance(p.0, p.1) {
            let (s, n) = sec.fresh(rng);
            std::env::set_var(name, &s);
            n.to_string()
        } else {
            "_".to_string()
        }
    };
    let rip_key = key_var("RIP_OPENRESPONSES_API_KEY", rng, &mut sec, (1, 4));
    let openai_key = key_var("OPENAI_API_KEY", rng, &mut sec, (1, 2));
    let openrouter_key = key_var("OPENROUTER_API_KEY", rng, &mut sec, (1, 2));
    let mut named: Vec<String> = Vec::new();
    for k in 1..=3 {
        let t = key_var(&format!("C19_KEY_{k}"), rng, &mut sec, (2, 3));
        if t != "_" {
            named.push(format!("{k} {t}"));
        }
    }
    let dump = rng.chance(1, 2);
    if dump {
        std::env::set_var("RIP_OPENRESPONSES_DUMP_REQUEST", "1");
        rep.count("request_dump_on");
    }
    let env_tok = format!(
        "{} {} {} {} {} {}{}{}",
        ep_token(env_ep, &eps),
        env_model.map(|m| m.to_string()).unwrap_or("_".into()),
        rip_key,
        openai_key,
        openrouter_key,
        named.len(),
        if named.is_empty() { "" } else { " " },
        named.join(" ")
    );
    let layers_tok = format!("{}{}{}", layer_toks.len(), if layer_toks.is_empty() { "" } else { " " }, layer_toks.join(" "));
    // ---- run
    let rt = tokio::runtime::Builder::new_multi_thread().worker_threads(3).enable_all().build().unwrap();
    let mut responses: Vec<(String, Vec<u8>)> = Vec::new();
    let ov_ep = if rng.chance(1, 2) { Some(rng.below(3) as usize) } else { None };
    let ov_model = if rng.chance(1, 4) { Some(rng.range(1, 3)) } else { None };
    let doctor_line = format!("c19 {layers_tok} {env_tok} _ _");
    let run_line = format!("c19 {layers_tok} {env_tok} {} {}", ep_token(ov_ep, &eps), ov_model.map(|m| m.to_string()).unwrap_or("_".into()));
    {
        let app = ripd::verif_export::VerifApp::new(data_dir.clone(), ws.clone());
        rt.block_on(async {
            let (_, body) = call(&app.router, "GET", "/config/doctor", None).await;
            responses.push(("GET /config/doctor".into(), body));
            let (_, v) = call_json(&app.router, "POST", "/threads/ensure", None).await;
            let tid = v["thread_id"].as_str().unwrap_or("").to_string();
            let mut body = json!({"content": "hello"});
            let mut ovj = Map::new();
            if let Some(i) = ov_ep {
                ovj.insert("endpoint".into(), json!(eps[i].0));
            }
            if let Some(m) = ov_model {
                ovj.insert("model".into(), json!(format!("m{m}")));
            }
            if !ovj.is_empty() {
                body["openresponses"] = Value::Object(ovj);
            }
            let (_, raw) = call(&app.router, "POST", &format!("/threads/{tid}/messages"), Some(body)).await;
            let v: Value = serde_json::from_slice(&raw).unwrap_or(Value::Null);
            responses.push(("POST /threads/{id}/messages".into(), raw));
            let sid = v["session_id"].as_str().unwrap_or("").to_string();
            for _ in 0..1500 {
                let text = std::fs::read_to_string(data_dir.join("events.jsonl")).unwrap_or_default();
                if text.lines().any(|l| l.contains("continuity_run_ended") && l.contains(&sid)) {
                    break;
                }
                tokio::time::sleep(std::time::Duration::from_millis(10)).await;
            }
            let evs = sse_collect(&app.router, &format!("/sessions/{sid}/events"), 1500, |v| v["type"] == "session_ended").await;
            responses.push(("GET /sessions/{id}/events".into(), serde_json::to_vec(&evs).unwrap()));
            let evs = sse_collect(&app.router, &format!("/threads/{tid}/events"), 300, |v| v["type"] == "continuity_run_ended").await;
            responses.push(("GET /threads/{id}/events".into(), serde_json::to_vec(&evs).unwrap()));
            for uri in [format!("/threads/{tid}"), "/threads".to_string(), "/openapi.json".to_string()] {
                let (_, b) = call(&app.router, "GET", &uri, None).await;
                responses.push((format!("GET {uri}"), b));
            }
            for uri in [format!("/threads/{tid}/provider-cursor-status"), format!("/threads/{tid}/context-selection-status"), format!("/threads/{tid}/compaction-status")] {
                let (_, b) = call(&app.router, "POST", &uri, Some(json!({}))).await;
                responses.push((format!("POST {uri}"), b));
            }
        });
    }
    drop(rt);
    rep.evaluations += 1;
    rep.count("cases");
    rep.count(&format!("provider_outcome_{}", ["echo-http-error", "drop", "junk-events", "tool-call", "failing-tool-call"][outcome as usize]));
    let case = json!({"case": case_no, "doctor_line": doctor_line, "run_line": run_line});
    // ---- (1) model: doctor
    let doctor: Value = serde_json::from_slice(&responses[0].1).unwrap_or(Value::Null);
    let name_no = |s: Option<&str>, prefix: &str| -> String { s.and_then(|x| x.strip_prefix(prefix)).and_then(|x| x.parse::<u64>().ok()).map(|n| n.to_string()).unwrap_or("_".into()) };
    let ep_no = |s: &str| -> String { eps.iter().position(|e| e.0 == s).map(|i| i.to_string()).unwrap_or(format!("?{s}")) };
    let src = |s: Option<&str>| -> String {
        match s {
            None => "_".into(),
            Some("inline") => "inline".into(),
            Some("env:RIP_OPENRESPONSES_API_KEY") => "env:rip".into(),
            Some("env:OPENAI_API_KEY") => "env:openai".into(),
            Some("env:OPENROUTER_API_KEY") => "env:openrouter".into(),
            Some(x) => x.strip_prefix("env:C19_KEY_").map(|n| format!("env:{n}")).unwrap_or(format!("?{x}")),
        }
    };
    let m_doc = model.ask(&doctor_line);
    let imp_doc = match doctor.get("openresponses") {
        None | Some(Value::Null) => "none".to_string(),
        Some(o) => format!(
            "pid={} ep={} model={} has={} src={} hdrs=[{}]",
            name_no(o["provider_id"].as_str(), "p"),
            ep_no(o["endpoint"].as_str().unwrap_or("")),
            name_no(o["model"].as_str(), "m"),
            o["has_api_key"].as_bool().unwrap_or(false) as u8,
            src(o["api_key_source"].as_str()),
            o["headers"].as_array().map(|a| a.iter().map(|h| name_no(h.as_str(), "x-h")).collect::<Vec<_>>().join(",")).unwrap_or_default()
        ),
    };
    let m_doc_public = m_doc.split(" key=").next().unwrap_or("").to_string();
    if imp_doc != m_doc_public {
        rep.disagreement("config doctor", case.clone(), &imp_doc, &m_doc_public);
    }
    if imp_doc != "none" {
        rep.count("doctor_resolved");
        if imp_doc.contains("has=1") {
            rep.count("doctor_has_key");
        }
        rep.nontrivial_case(&imp_doc);
    }
    // ---- (1b) model: what went on the wire
    let m_run = model.ask(&run_line);
    let reqs = provider.requests.lock().unwrap().clone();
    let resolved_to_provider = m_run != "none" && m_run.split(' ').find(|t| t.starts_with("ep=")).map(|t| t != "ep=3").unwrap_or(false);
    let wire_ids: Vec<usize> = {
        let key_tok = m_run.split(" key=").nth(1).and_then(|r| r.split(' ').next()).unwrap_or("_").to_string();
        let wire_tok = m_run.split(" wire=[").nth(1).map(|r| r.trim_end_matches(']').to_string()).unwrap_or_default();
        key_tok.parse::<usize>().ok().into_iter().chain(wire_tok.split(',').filter_map(|p| p.split_once(':').and_then(|(_, v)| v.parse::<usize>().ok()))).collect()
    };
    let malformed_on_wire = wire_ids.iter().any(|i| sec.vals.get(*i).map(|v| v.chars().any(|c| c.is_control())).unwrap_or(false));
    if malformed_on_wire {
        // the request cannot be built: nothing is sent; the canary search below still applies
        rep.count("runs_with_a_secret_illegal_in_a_header");
    } else if resolved_to_provider {
        rep.count("runs_reaching_the_provider");
        match reqs.first() {
            None => rep.disagreement("wire", case.clone(), "no request reached the provider", &m_run),
            Some((headers, _body)) => {
                let auth = headers.iter().find(|(k, _)| k == "authorization").map(|(_, v)| v.clone());
                let key_tok = m_run.split(" key=").nth(1).and_then(|r| r.split(' ').next()).unwrap_or("_").to_string();
                let want_auth = if key_tok == "_" { None } else { key_tok.parse::<usize>().ok().and_then(|i| sec.vals.get(i)).map(|s| format!("Bearer {s}")) };
                if auth != want_auth {
                    rep.disagreement("wire: authorization header", case.clone(), &format!("{auth:?}"), &format!("{want_auth:?}"));
                }
                if want_auth.is_some() {
                    rep.count("wire_key_sent");
                }
                let wire_tok = m_run.split(" wire=[").nth(1).map(|r| r.trim_end_matches(']').to_string()).unwrap_or_default();
                for pair in wire_tok.split(',').filter(|x| !x.is_empty()) {
                    let (n, v) = pair.split_once(':').unwrap_or(("", ""));
                    let want = v.parse::<usize>().ok().and_then(|i| sec.vals.get(i)).cloned();
                    let got = headers.iter().find(|(k, _)| *k == format!("x-h{n}")).map(|(_, v)| v.clone());
                    if got != want {
                        rep.disagreement("wire: custom header", case.clone(), &format!("x-h{n}={got:?}"), &format!("{want:?}"));
                    }
                    rep.count("wire_header_sent");
                }
            }
        }
    } else if !reqs.is_empty() && m_run == "none" {
        rep.disagreement("wire", case.clone(), "a request reached the provider", "the model resolves no provider");
    }
    // ---- (3) canary scan
    let canaries: Vec<&String> = sec.vals.iter().filter(|v| v.starts_with("CANARY")).collect();
    rep.count_n("canaries_planted", canaries.len() as u64);
    let mut files = Vec::new();
    walk(scratch.path(), &mut files);
    let mut scanned = 0u64;
    for f in &files {
        if own_files.contains(f) {
            continue;
        }
        let bytes = std::fs::read(f).unwrap_or_default();
        scanned += 1;
        if contains(&bytes, b"CANARY") {
            let which = canaries.iter().find(|c| contains(&bytes, c.as_bytes())).map(|c| c.to_string()).unwrap_or_default();
            let rel = f.strip_prefix(scratch.path()).unwrap_or(f).to_string_lossy().to_string();
            let class = if rel.contains("events.jsonl") { "log" } else if rel.contains("artifacts") { "artifact" } else if rel.contains("snapshots") { "snapshot" } else { "file" };
            rep.oracle_failure(&format!("C19|secret-in-{class}"), &format!("secret {which} found in {rel}"), case.clone());
        }
    }
    rep.count_n("files_scanned", scanned);
    for (what, body) in &responses {
        if contains(body, b"CANARY") {
            rep.oracle_failure("C19|secret-in-http-response", &format!("a planted secret appears in the response to {what}"), case.clone());
        }
    }
    rep.count_n("http_responses_scanned", responses.len() as u64);
    if dump {
        let dumped = files.iter().any(|f| f.to_string_lossy().contains("artifacts/blobs"));
        if dumped {
            rep.count("request_dump_artifacts_seen");
        }
    }
    rep.sample(json!({"doctor": imp_doc, "run_line": run_line}));
    for v in ENV_VARS {
        std::env::remove_var(v);
    }
}

/// Configuration files that are valid JSON but do not fit the configuration's shape, with a secret
/// sitting where the shape goes wrong (a provider block written one level too high, a header token
/// left unquoted, a header block written as one string, a key wrapped in a list or an object...).
/// Such a file must not make any diagnostic quote the secret. Oracle-only: the doctor, a run and
/// every file under the scratch directory (other than the configuration file itself) are searched.
fn misshaped_case(rep: &mut Report, rng: &mut Rng, case_no: u64) {
    let scratch = Scratch::new("c19m");
    let data_dir = scratch.path().join("data");
    let ws = scratch.path().join("ws");
    let home = scratch.path().join("home");
    std::fs::create_dir_all(&ws).unwrap();
    std::fs::create_dir_all(&home).unwrap();
    for v in ENV_VARS {
        std::env::remove_var(v);
    }
    std::env::set_var("RIP_CONFIG_HOME", &home);
    let canary = format!("CANARY-M{case_no}-s3cr3t");
    // a numeric token: long enough not to occur by accident
    let number: u64 = 481_516_000_000_000 + case_no * 7919 + rng.below(1000);
    let shape = rng.below(12);
    let ep = "http://127.0.0.1:9/v1/responses";
    let (layer, what): (Value, &str) = match shape {
        0 => (json!({"provider": {"endpoint": ep, "api_key": canary}}), "provider fields one level too high"),
        1 => (json!({"provider": {"p1": {"endpoint": ep, "headers": {"x-token": number}}}}), "unquoted numeric header token"),
        2 => (json!({"provider": {"p1": {"endpoint": ep, "headers": format!("Authorization: Bearer {canary}")}}}), "header block written as one string"),
        3 => (json!({"provider": {"p1": {"endpoint": ep, "api_key": [canary]}}}), "api key wrapped in a list"),
        4 => (json!({"provider": {"p1": {"endpoint": ep, "api_key": {"value": canary}}}}), "api key wrapped in an object of the wrong kind"),
        5 => (json!({"provider": {"p1": canary}}), "a string where a provider block belongs"),
        6 => (json!({"provider": [canary]}), "a list where the provider map belongs"),
        7 => (json!({"provider": {"p1": {"endpoint": ep, "api_key": number}}}), "numeric api key"),
        8 => (json!({"provider": {"p1": {"endpoint": ep, "api_key": {"env": number}}}}), "numeric env reference"),
        9 => (json!({"provider": {"p1": {"endpoint": 5, "api_key": canary, "headers": {"x-token": canary}}}}), "a well-formed secret next to a mistyped field"),
        10 => (json!({"provider": {"p1": {"endpoint": ep, "headers": {"x-token": [canary]}}}}), "header value wrapped in a list"),
        _ => (json!({"provider": {"p1": {"endpoint": ep, "api_key": canary}}, "roles": canary, "model": {"key": canary}}), "mistyped route next to a well-formed secret"),
    };
    let slot = if rng.chance(1, 2) { home.join("config.json") } else { ws.join("rip.json") };
    let text = if rng.chance(1, 4) { format!("// layer\n{}\n", serde_json::to_string_pretty(&layer).unwrap()) } else { layer.to_string() };
    std::fs::write(&slot, text).unwrap();
    let rt = tokio::runtime::Builder::new_multi_thread().worker_threads(2).enable_all().build().unwrap();
    let mut responses: Vec<(String, Vec<u8>)> = Vec::new();
    {
        let app = ripd::verif_export::VerifApp::new(data_dir.clone(), ws.clone());
        rt.block_on(async {
            let (_, body) = call(&app.router, "GET", "/config/doctor", None).await;
            responses.push(("GET /config/doctor".into(), body));
            let (_, v) = call_json(&app.router, "POST", "/threads/ensure", None).await;
            let tid = v["thread_id"].as_str().unwrap_or("").to_string();
            let (_, raw) = call(&app.router, "POST", &format!("/threads/{tid}/messages"), Some(json!({"content": "hello"}))).await;
            let v: Value = serde_json::from_slice(&raw).unwrap_or(Value::Null);
            responses.push(("POST /threads/{id}/messages".into(), raw));
            let sid = v["session_id"].as_str().unwrap_or("").to_string();
            for _ in 0..500 {
                let text = std::fs::read_to_string(data_dir.join("events.jsonl")).unwrap_or_default();
                if text.lines().any(|l| l.contains("continuity_run_ended") && l.contains(&sid)) {
                    break;
                }
                tokio::time::sleep(std::time::Duration::from_millis(10)).await;
            }
            let evs = sse_collect(&app.router, &format!("/sessions/{sid}/events"), 800, |v| v["type"] == "session_ended").await;
            responses.push(("GET /sessions/{id}/events".into(), serde_json::to_vec(&evs).unwrap()));
        });
    }
    drop(rt);
    rep.evaluations += 1;
    rep.count("misshaped_config_cases");
    rep.count(&format!("misshaped_{}", what.replace(' ', "_")));
    let case = json!({"case": case_no, "configuration_shape": what, "layer": slot.strip_prefix(scratch.path()).unwrap_or(&slot).to_string_lossy()});
    let needles: Vec<Vec<u8>> = vec![canary.as_bytes().to_vec(), number.to_string().into_bytes()];
    let mut files = Vec::new();
    walk(scratch.path(), &mut files);
    for f in &files {
        if *f == slot {
            continue;
        }
        let bytes = std::fs::read(f).unwrap_or_default();
        if needles.iter().any(|n| contains(&bytes, n)) {
            let rel = f.strip_prefix(scratch.path()).unwrap_or(f).to_string_lossy().to_string();
            rep.oracle_failure("C19|secret-in-file|misshaped-config", &format!("the secret of a mis-shaped configuration file ({what}) found in {rel}"), case.clone());
        }
    }
    for (w, body) in &responses {
        if needles.iter().any(|n| contains(body, n)) {
            rep.oracle_failure("C19|secret-in-http-response|misshaped-config", &format!("the secret of a mis-shaped configuration file ({what}) appears in the response to {w}"), case.clone());
        }
    }
    for v in ENV_VARS {
        std::env::remove_var(v);
    }
}

pub fn run_child(opts: &Opts) -> Report {
    let mut rep = Report::new(
        "C19",
        "cases of 0-4 configuration layers (global via RIP_CONFIG_HOME, custom via RIP_CONFIG, outer and inner project rip.json; JSON and JSONC) with providers, routes, inline and env-reference api keys and custom headers, the three fallback environment variables, per-request overrides, request dumping on/off; one thread run per case against a scripted provider (tool call, failing tool call, HTTP error echoing the request body, dropped connection, junk events); non-trivial = a provider configuration resolves, distinct by the doctor summary",
    );
    let mut rng = Rng::new(opts.seed);
    let mut model = Model::spawn();
    let n = if opts.thorough { 900 } else { 120 } * opts.scale;
    for case_no in 0..n {
        one_case(&mut rep, &mut model, &mut rng, case_no);
    }
    let nm = if opts.thorough { 300 } else { 48 } * opts.scale;
    for case_no in 0..nm {
        misshaped_case(&mut rep, &mut rng, case_no);
    }
    rep
}

/// the cases run in a child process so that its stdout/stderr can be searched too
pub fn run(opts: &Opts) -> Report {
    let scratch = Scratch::new("c19parent");
    let out = scratch.path().join("child.json");
    let exe = std::env::current_exe().expect("current exe");
    let child = std::process::Command::new(exe)
        .arg("c19child")
        .arg("--seed")
        .arg(opts.seed.to_string())
        .arg("--tier")
        .arg(if opts.thorough { "thorough" } else { "quick" })
        .arg("--scale")
        .arg(opts.scale.to_string())
        .arg("--out")
        .arg(&out)
        .output()
        .expect("spawn child");
    let text = std::fs::read_to_string(&out).unwrap_or_default();
    let v: Value = serde_json::from_str(&text).unwrap_or(Value::Null);
    let mut rep = Report::new("C19", v["rule"].as_str().unwrap_or(""));
    if v.is_null() {
        rep.oracle_failure("C19|child-failed", &format!("the case runner did not produce a report: {}", String::from_utf8_lossy(&child.stderr).chars().take(2000).collect::<String>()), json!({}));
        return rep;
    }
    rep.evaluations = v["evaluations"].as_u64().unwrap_or(0);
    for i in 0..v["distinct_nontrivial"].as_u64().unwrap_or(0) {
        rep.nontrivial.insert(i);
    }
    rep.samples = v["samples"].as_array().cloned().unwrap_or_default();
    rep.distribution = v["distribution"].as_object().map(|m| m.iter().map(|(k, x)| (k.clone(), x.as_u64().unwrap_or(0))).collect::<BTreeMap<_, _>>()).unwrap_or_default();
    rep.disagreements = v["disagreements"].as_array().cloned().unwrap_or_default();
    rep.oracle_failures = v["oracle_failures"].as_array().cloned().unwrap_or_default();
    rep.traces_validated = v["traces_validated_against_impl"].as_u64().unwrap_or(0);
    rep.count_n("process_output_bytes_scanned", (child.stdout.len() + child.stderr.len()) as u64);
    if contains(&child.stdout, b"CANARY") || contains(&child.stderr, b"CANARY") {
        let line = String::from_utf8_lossy(&child.stderr).lines().chain(String::from_utf8_lossy(&child.stdout).lines()).find(|l| l.contains("CANARY")).unwrap_or("").chars().take(300).collect::<String>();
        rep.oracle_failure("C19|secret-in-process-output", &format!("a planted secret appears in the authority's stdout/stderr: {line}"), json!({}));
    }
    if !child.status.success() {
        rep.oracle_failure("C19|child-failed", "the case runner exited with an error", json!({"stderr": String::from_utf8_lossy(&child.stderr).chars().take(2000).collect::<String>()}));
    }
    rep
}
