//! C09: compaction cut points / planning / auto job / scheduler vs the Lean model `Rip.Compaction`.
use crate::common::*;
use crate::store::*;
use ripd::{
    CompactionAutoScheduleV1Request, CompactionAutoV1Request, CompactionCheckpointCumulativeV1Request,
    CompactionCutPointsV1Request,
};
use serde_json::{json, Value};

fn c09_frame_tokens(f: &Value, c: &mut Canon) -> String {
    let id = c.id(f["id"].as_str().unwrap_or("?"));
    let seq = f["seq"].as_u64().unwrap_or(0);
    let kind = match f["type"].as_str().unwrap_or("?") {
        "continuity_message_appended" => "message".to_string(),
        "continuity_compaction_checkpoint_created" => {
            // the model's checkpoint id is the checkpoint_id field (what cut points report)
            format!("ckpt {}", f["to_seq"].as_u64().unwrap_or(0))
        }
        "continuity_job_spawned" => format!("js {}", c.id(f["job_id"].as_str().unwrap_or("?"))),
        "continuity_job_ended" => format!("je {}", c.id(f["job_id"].as_str().unwrap_or("?"))),
        "continuity_compaction_auto_schedule_decided" => "decided".to_string(),
        _ => "other".to_string(),
    };
    format!("{id} {seq} {kind}")
}

fn show_appended(fs: &[&Value]) -> String {
    fs.iter()
        .map(|f| {
            let seq = f["seq"].as_u64().unwrap_or(0);
            match f["type"].as_str().unwrap_or("?") {
                "continuity_message_appended" => format!("message@{seq}"),
                "continuity_compaction_checkpoint_created" => format!("ckpt({})@{seq}", f["to_seq"]),
                "continuity_job_spawned" => format!("job_spawned@{seq}"),
                "continuity_job_ended" => format!("job_ended@{seq}"),
                "continuity_compaction_auto_schedule_decided" => format!("decided@{seq}"),
                _ => format!("other@{seq}"),
            }
        })
        .collect::<Vec<_>>()
        .join(",")
}

fn opt(v: Option<u64>) -> String {
    v.map(|x| x.to_string()).unwrap_or("_".into())
}

/// Two overlapping auto-compaction calls on one thread (the property quantifies over concurrent
/// schedule / auto calls): B plans and is parked at the first effect of its job (taking the seq lock
/// for its job-spawned frame) while A plans the same cut points and finishes its job; then B runs.
/// Whatever the two jobs write for one cut point, it is the same summary text for the same history,
/// and every summary builds on a base that covers strictly less than it does.
fn overlapping_jobs_case(rep: &mut Report, rng: &mut Rng, case_no: u64) {
    use crate::sched::Scheduler;
    let ts = TestStore::new("c09o");
    let t = ts.store.ensure_default().unwrap();
    let mut msgs: Vec<Msg> = Vec::new();
    // an earlier checkpointed cut point (the base), then fresh messages
    let k0 = rng.range(6, 14) as usize;
    random_history(&ts.store, &t, rng, k0, &mut msgs);
    let _ = ts.store.compaction_auto_v1(&t, CompactionAutoV1Request { stride_messages: Some(2), max_new_checkpoints: Some(1), dry_run: Some(false), actor_id: "u".into(), origin: "cli".into() });
    for k in 0..4 {
        let _ = ts.store.append_message(&t, "user".into(), "cli".into(), format!("fresh {k} {}", rng.below(1000)));
    }
    let before = ts.frames().len();
    let mk = |store: std::sync::Arc<ripd::ContinuityStore>, t: String| -> Box<dyn FnOnce() + Send> {
        Box::new(move || {
            let _ = store.compaction_auto_v1(&t, CompactionAutoV1Request { stride_messages: Some(2), max_new_checkpoints: Some(1), dry_run: Some(false), actor_id: "u".into(), origin: "cli".into() });
        })
    };
    let mut s = Scheduler::new(vec![mk(ts.store.clone(), t.clone()), mk(ts.store.clone(), t.clone())]);
    // B (worker 1) up to its first effect: it has planned by then
    s.step(1);
    let b_parked_at = s.where_is(1);
    // A to the end
    for _ in 0..400 {
        if s.where_is(0) == "finished" {
            break;
        }
        if s.step_or_block(0, 60) == "blocked" {
            break;
        }
    }
    let a_done = s.where_is(0) == "finished";
    for _ in 0..400 {
        if s.where_is(1) == "finished" {
            break;
        }
        s.step_or_block(1, 60);
    }
    for _ in 0..400 {
        if s.where_is(0) == "finished" {
            break;
        }
        s.step_or_block(0, 60);
    }
    s.finish();
    let after = ts.frames();
    let cks: Vec<&Value> = after[before.min(after.len())..].iter().filter(|f| f["type"] == "continuity_compaction_checkpoint_created").collect();
    rep.evaluations += 1;
    rep.traces_validated += 1;
    rep.count("overlapping_jobs_cases");
    let mut by_cut: std::collections::BTreeMap<u64, Vec<(String, Value)>> = std::collections::BTreeMap::new();
    for c in &cks {
        let a = c["summary_artifact_id"].as_str().unwrap_or("").to_string();
        let v: Value = std::fs::read(ts.ws.join(".rip/artifacts/blobs").join(&a)).ok().and_then(|b| serde_json::from_slice(&b).ok()).unwrap_or(Value::Null);
        by_cut.entry(c["to_seq"].as_u64().unwrap_or(0)).or_default().push((a, v));
    }
    let case = json!({"case": case_no, "b_parked_at": b_parked_at, "a_finished_while_b_was_parked": a_done, "checkpoint_frames_appended": cks.len()});
    for (cut, list) in &by_cut {
        if list.len() >= 2 {
            rep.count("overlapping_jobs_wrote_the_same_cut_point_twice");
            rep.nontrivial_case(&format!("overlap {case_no} {cut}"));
            let texts: Vec<&str> = list.iter().map(|(_, v)| v["summary_markdown"].as_str().unwrap_or("")).collect();
            if texts.iter().any(|x| *x != texts[0]) {
                rep.oracle_failure("C09|overlapping-jobs-wrote-different-summaries", &format!("two jobs for the cut point at seq {cut} wrote different summary text for the same history"), case.clone());
            }
        }
        for (a, v) in list {
            // a summary's base covers strictly less than the summary
            let text = v.to_string();
            if let Some(p) = text.find("\"base_summary_artifact_id\":\"") {
                let base: String = text[p + 28..].chars().take_while(|c| *c != '"').collect();
                let bv: Value = std::fs::read(ts.ws.join(".rip/artifacts/blobs").join(&base)).ok().and_then(|b| serde_json::from_slice(&b).ok()).unwrap_or(Value::Null);
                let bt = bv.to_string();
                if let Some(q) = bt.find("\"to_seq\":") {
                    let n: u64 = bt[q + 9..].chars().take_while(|c| c.is_ascii_digit()).collect::<String>().parse().unwrap_or(0);
                    rep.count("overlapping_jobs_bases_checked");
                    if n >= *cut && *cut > 0 {
                        rep.oracle_failure("C09|summary-based-on-its-own-cut", &format!("the summary {a} for the cut at seq {cut} is based on summary {base}, which already covers seq {n}"), case.clone());
                    }
                }
            }
        }
    }
}

pub fn run(opts: &Opts) -> Report {
    let mut rep = Report::new(
        "C09",
        "random thread histories (0-40 messages interleaved with run / side-effect frames, manual checkpoints at message boundaries and non-boundaries, jobs left in flight) x operation sequences {cut_points(stride, limit), auto(stride, max_new, dry_run), auto_schedule(stride, max_new, block_on_inflight, execute, dry_run), manual checkpoint by to_seq / to_message_id / stride} with stride, limit, max_new in {None, 0, 1, 2, 3, 7, 32, 33, 10000}; the same job run on two byte-copies of a store must write the same summaries; non-trivial = thread with >=2 stride multiples, distinct by canonical case",
    );
    let mut model = Model::spawn();
    let mut rng = Rng::new(opts.seed);
    let n = if opts.thorough { 2500 } else { 250 } * opts.scale;
    let nums: [Option<u64>; 10] = [None, Some(0), Some(1), Some(2), Some(3), Some(7), Some(32), Some(33), Some(10_000), Some(5)];
    for case_no in 0..n {
        let ts = TestStore::new("c09");
        let store = &ts.store;
        let t = store.ensure_default().unwrap();
        let mut msgs: Vec<Msg> = Vec::new();
        let k = rng.range(0, 40) as usize;
        random_history(store, &t, &mut rng, k, &mut msgs);
        let mut nops = rng.range(2, 7);
        // structured sequences the random choice rarely produces: a job left in flight by
        // schedule(execute=false), then dry runs / blocking / non-blocking schedules on the same stride
        // (choice, stride, other, block_on_inflight, execute, dry_run)
        let mut forced: std::collections::VecDeque<(u64, Option<u64>, Option<u64>, bool, bool, bool)> = std::collections::VecDeque::new();
        if rng.chance(1, 3) {
            let s = Some(rng.range(1, 3));
            forced.push_back((8, s, Some(2), rng.chance(1, 2), false, false));
            forced.push_back((8, s, Some(2), true, rng.chance(1, 2), true));
            forced.push_back((6, s, Some(2), false, false, true));
            forced.push_back((8, s, Some(2), true, true, false));
            forced.push_back((8, s, Some(2), false, true, false));
            nops += forced.len() as u64;
        }
        for op_no in 0..nops {
            let before = ts.frames();
            let thread_frames: Vec<&Value> = before.iter().filter(|f| f["session_id"].as_str() == Some(t.as_str())).collect();
            let mut canon = Canon::default();
            // checkpoint ids are what cut points report: intern them so the model's frame id of a
            // checkpoint frame equals the canonical id of its checkpoint_id
            let toks: Vec<String> = thread_frames
                .iter()
                .map(|f| {
                    if f["type"] == "continuity_compaction_checkpoint_created" {
                        let id = canon.id(f["checkpoint_id"].as_str().unwrap_or("?"));
                        format!("{id} {} ckpt {}", f["seq"], f["to_seq"])
                    } else {
                        c09_frame_tokens(f, &mut canon)
                    }
                })
                .collect();
            let head = format!("c09 {} {}", toks.len(), toks.join(" "));
            let mut stride = *rng.pick(&nums);
            let mut other = *rng.pick(&nums);
            let (mut b1, mut b2, mut b3) = (rng.chance(1, 2), rng.chance(1, 2), rng.chance(1, 4));
            rep.evaluations += 1;
            let mut choice = rng.below(10);
            if op_no >= 2 {
                if let Some(f) = forced.pop_front() {
                    (choice, stride, other, b1, b2, b3) = f;
                    rep.count("structured_inflight_ops");
                }
            }
            let (op_desc, model_line, impl_line): (String, String, String) = match choice {
                0..=2 => {
                    let r = store.compaction_cut_points_v1(&t, CompactionCutPointsV1Request { stride_messages: stride, limit: other.map(|x| x as u32) });
                    // oracle (no model involved): a cut point counts as checkpointed exactly when a
                    // checkpoint frame for that seq exists, the latest such frame in stream order winning
                    if let Ok(resp) = &r {
                        for c in &resp.cut_points {
                            let latest = thread_frames.iter().rev().find(|f| f["type"] == "continuity_compaction_checkpoint_created" && f["to_seq"].as_u64() == Some(c.to_seq)).and_then(|f| f["checkpoint_id"].as_str());
                            if c.already_checkpointed != latest.is_some() || c.latest_checkpoint_id.as_deref() != latest {
                                rep.oracle_failure(
                                    "C09|cut-point-checkpointed-flag-wrong",
                                    &format!("cut point at seq {} reported already_checkpointed={} latest={:?}; the thread's latest checkpoint frame for that seq is {:?}", c.to_seq, c.already_checkpointed, c.latest_checkpoint_id, latest),
                                    json!({"case": case_no, "stride": stride, "limit": other, "frames": thread_frames.iter().map(|f| format!("{}@{}{}", f["type"].as_str().unwrap_or("?").replace("continuity_", ""), f["seq"], f["to_seq"].as_u64().map(|q| format!("->to_seq {q}")).unwrap_or_default())).collect::<Vec<_>>()}),
                                );
                            }
                        }
                    }
                    let impl_line = match r {
                        Err(e) => format!("err {e}"),
                        Ok(resp) => format!(
                            "count={} cuts=[{}]",
                            resp.message_count,
                            resp.cut_points
                                .iter()
                                .map(|c| format!(
                                    "{}:{}:{}:{}:{}",
                                    c.target_message_ordinal,
                                    c.to_seq,
                                    canon.get(&c.to_message_id).map(|x| x.to_string()).unwrap_or("?".into()),
                                    c.already_checkpointed as u8,
                                    c.latest_checkpoint_id.as_ref().map(|x| canon.get(x).map(|y| y.to_string()).unwrap_or("?".into())).unwrap_or("_".into())
                                ))
                                .collect::<Vec<_>>()
                                .join(",")
                        ),
                    };
                    (format!("cut_points(stride={stride:?}, limit={other:?})"), format!("{head} cuts {} {} 0 0 0", opt(stride), opt(other)), impl_line)
                }
                3..=5 if rng.chance(1, 12) => {
                    // the artifact store cannot be written: the summarizer job fails. Whatever it
                    // managed to do, the job is bracketed by exactly one spawned and one ended frame
                    // and no checkpoint references a summary that is not there
                    let blobs = ts.ws.join(".rip/artifacts/blobs");
                    let parked = ts.ws.join(".rip/artifacts/blobs.parked");
                    let had = std::fs::rename(&blobs, &parked).is_ok();
                    let _ = std::fs::create_dir_all(ts.ws.join(".rip/artifacts"));
                    std::fs::write(&blobs, b"not a directory").unwrap();
                    let r = store.compaction_auto_v1(
                        &t,
                        CompactionAutoV1Request { stride_messages: stride, max_new_checkpoints: other.map(|x| x as u32), dry_run: Some(false), actor_id: "u".into(), origin: "cli".into() },
                    );
                    let _ = std::fs::remove_file(&blobs);
                    if had {
                        let _ = std::fs::rename(&parked, &blobs);
                    }
                    let after = ts.frames();
                    let appended: Vec<&Value> = after[before.len()..].iter().collect();
                    let spawned: Vec<&str> = appended.iter().filter(|f| f["type"] == "continuity_job_spawned").filter_map(|f| f["job_id"].as_str()).collect();
                    let ended: Vec<&str> = appended.iter().filter(|f| f["type"] == "continuity_job_ended").filter_map(|f| f["job_id"].as_str()).collect();
                    rep.count("op_auto_with_unwritable_artifact_store");
                    if !spawned.is_empty() {
                        rep.count("auto_job_failed_midway");
                    }
                    if spawned.len() > 1 || spawned != ended {
                        rep.oracle_failure("C09|failed-job-not-bracketed", &format!("auto-compaction with an unwritable artifact store ({}): job_spawned {:?}, job_ended {:?}", r.as_ref().map(|x| x.status.clone()).unwrap_or_else(|e| format!("Err({e})")), spawned, ended), json!({"case": case_no, "stride": stride, "appended": show_appended(&appended)}));
                    }
                    for c in appended.iter().filter(|f| f["type"] == "continuity_compaction_checkpoint_created") {
                        let a = c["summary_artifact_id"].as_str().unwrap_or("");
                        if !parked.join(a).is_file() && !blobs.join(a).is_file() {
                            rep.oracle_failure("C09|summary-unreadable-or-mismatch|failed-job", &format!("a checkpoint frame references summary {a}, which was never stored"), json!({"case": case_no, "appended": show_appended(&appended)}));
                        }
                    }
                    continue;
                }
                3..=5 => {
                    let r = store.compaction_auto_v1(
                        &t,
                        CompactionAutoV1Request { stride_messages: stride, max_new_checkpoints: other.map(|x| x as u32), dry_run: Some(b3), actor_id: "u".into(), origin: "cli".into() },
                    );
                    let after = ts.frames();
                    let appended: Vec<&Value> = after[before.len()..].iter().collect();
                    let impl_line = match r {
                        Err(e) => format!("err {e}"),
                        Ok(resp) => {
                            // oracle: with every cut point of the stride already carrying a checkpoint
                            // frame, a repeated run has nothing to do and appends nothing
                            {
                                let st = resp.stride_messages.max(1) as usize;
                                let msg_seqs: Vec<u64> = thread_frames.iter().filter(|f| f["type"] == "continuity_message_appended").filter_map(|f| f["seq"].as_u64()).collect();
                                let all_done = msg_seqs.iter().enumerate().filter(|(i, _)| (i + 1) % st == 0).all(|(_, q)| thread_frames.iter().any(|f| f["type"] == "continuity_compaction_checkpoint_created" && f["to_seq"].as_u64() == Some(*q)));
                                if all_done {
                                    rep.count("auto_with_nothing_to_do");
                                    if !appended.is_empty() {
                                        rep.oracle_failure("C09|auto-appended-with-nothing-to-do", &format!("every cut point of stride {st} has a checkpoint frame, yet auto-compaction appended {} frames", appended.len()), json!({"case": case_no, "stride": stride, "appended": show_appended(&appended)}));
                                    }
                                }
                            }
                            // oracle: created checkpoints reference readable summaries whose coverage matches
                            for c in &resp.result {
                                let blob = ts.ws.join(".rip/artifacts/blobs").join(&c.summary_artifact_id);
                                let ok = std::fs::read(&blob).ok().and_then(|b| serde_json::from_slice::<Value>(&b).ok()).map(|v| v.to_string().contains(&format!("\"to_seq\":{}", c.to_seq))).unwrap_or(false);
                                if !ok {
                                    rep.oracle_failure("C09|summary-unreadable-or-mismatch", &format!("checkpoint to_seq {} references summary {} which is unreadable or covers something else", c.to_seq, c.summary_artifact_id), json!({"case": case_no}));
                                }
                            }
                            format!(
                                "{} count={} planned=[{}] appended=[{}]",
                                resp.status,
                                resp.message_count,
                                resp.planned.iter().map(|p| format!("{}:{}:{}", p.target_message_ordinal, p.to_seq, canon.get(&p.to_message_id).map(|x| x.to_string()).unwrap_or("?".into()))).collect::<Vec<_>>().join(","),
                                show_appended(&appended)
                            )
                        }
                    };
                    (format!("auto(stride={stride:?}, max_new={other:?}, dry_run={b3})"), format!("{head} auto {} {} {} 0 0", opt(stride), opt(other), b3 as u8), impl_line)
                }
                6..=8 => {
                    let r = store.compaction_auto_schedule_v1(
                        &t,
                        CompactionAutoScheduleV1Request {
                            stride_messages: stride,
                            max_new_checkpoints: other.map(|x| x as u32),
                            block_on_inflight: Some(b1),
                            execute: Some(b2),
                            dry_run: Some(b3),
                            actor_id: "u".into(),
                            origin: "cli".into(),
                        },
                    );
                    let after = ts.frames();
                    let appended: Vec<&Value> = after[before.len()..].iter().collect();
                    // oracle (as for auto above): with every cut point of the stride already carrying a
                    // checkpoint frame the schedule has nothing to do and appends nothing - whatever
                    // else is going on in the thread (an unfinished job, a dry run, blocking or not)
                    if let Ok(resp) = &r {
                        let st = resp.stride_messages.max(1) as usize;
                        let msg_seqs: Vec<u64> = thread_frames.iter().filter(|f| f["type"] == "continuity_message_appended").filter_map(|f| f["seq"].as_u64()).collect();
                        let all_done = msg_seqs.iter().enumerate().filter(|(i, _)| (i + 1) % st == 0).all(|(_, q)| thread_frames.iter().any(|f| f["type"] == "continuity_compaction_checkpoint_created" && f["to_seq"].as_u64() == Some(*q)));
                        if all_done {
                            rep.count("schedule_with_nothing_to_do");
                            if !appended.is_empty() {
                                rep.oracle_failure("C09|schedule-appended-with-nothing-to-do", &format!("every cut point of stride {st} has a checkpoint frame, yet auto_schedule (decision {}) appended {} frame(s)", resp.decision, appended.len()), json!({"case": case_no, "stride": stride, "block_on_inflight": b1, "execute": b2, "dry_run": b3, "appended": show_appended(&appended)}));
                            }
                        }
                    }
                    let impl_line = match r {
                        Err(e) => format!("err {e}"),
                        Ok(resp) => format!(
                            "{} count={} planned=[{}] appended=[{}]",
                            resp.decision,
                            resp.message_count,
                            resp.planned.iter().map(|p| format!("{}:{}:{}", p.target_message_ordinal, p.to_seq, canon.get(&p.to_message_id).map(|x| x.to_string()).unwrap_or("?".into()))).collect::<Vec<_>>().join(","),
                            show_appended(&appended)
                        ),
                    };
                    (
                        format!("auto_schedule(stride={stride:?}, max_new={other:?}, block={b1}, execute={b2}, dry_run={b3})"),
                        format!("{head} sched {} {} {} {} {}", opt(stride), opt(other), b1 as u8, b2 as u8, b3 as u8),
                        impl_line,
                    )
                }
                _ => {
                    // manual checkpoint: at a message boundary, at a non-boundary, by id, by stride
                    let msg_frames: Vec<&&Value> = thread_frames.iter().filter(|f| f["type"] == "continuity_message_appended").collect();
                    let head_seq = thread_frames.last().and_then(|f| f["seq"].as_u64()).unwrap_or(0);
                    let (mut to_seq, mut to_mid, mut strd) = match rng.below(4) {
                        0 if !msg_frames.is_empty() => (rng.pick(&msg_frames)["seq"].as_u64(), None, None),
                        1 => (Some(rng.below(head_seq + 2)), None, None),
                        2 if !msg_frames.is_empty() => (None, rng.pick(&msg_frames)["id"].as_str().map(|s| s.to_string()), None),
                        _ => (None, None, stride),
                    };
                    // one in three: hand in the summary artifact of an earlier checkpoint (its coverage
                    // matches only if the target is the same message) or an id that is no summary at all
                    let earlier: Vec<(String, u64)> = thread_frames.iter().filter(|f| f["type"] == "continuity_compaction_checkpoint_created").filter_map(|f| Some((f["summary_artifact_id"].as_str()?.to_string(), f["to_seq"].as_u64()?))).collect();
                    let given_artifact: Option<String> = if rng.chance(1, 3) {
                        if !earlier.is_empty() && rng.chance(4, 5) {
                            let (a, q) = rng.pick(&earlier).clone();
                            if rng.chance(1, 2) {
                                // the same cut again: the one target this summary does cover
                                to_seq = Some(q);
                                to_mid = None;
                                strd = None;
                            }
                            Some(a)
                        } else {
                            Some("ef".repeat(32))
                        }
                    } else {
                        None
                    };
                    let r = store.compaction_checkpoint_cumulative_v1(
                        &t,
                        CompactionCheckpointCumulativeV1Request { summary_markdown: if given_artifact.is_some() { None } else { Some("manual summary".into()) }, summary_artifact_id: given_artifact.clone(), to_message_id: to_mid.clone(), to_seq, stride_messages: strd, actor_id: "u".into(), origin: "cli".into() },
                    );
                    let after = ts.frames();
                    let appended: Vec<&Value> = after[before.len()..].iter().collect();
                    if let (Some(a), Ok((_, _, q, _, _))) = (&given_artifact, &r) {
                        // accepted with a summary that was handed in: it must be readable and cover exactly this cut
                        rep.count("manual_checkpoint_with_given_summary_accepted");
                        let blob = ts.ws.join(".rip/artifacts/blobs").join(a);
                        let v = std::fs::read(&blob).ok().and_then(|b| serde_json::from_slice::<Value>(&b).ok());
                        let text = v.as_ref().map(|v| v.to_string()).unwrap_or_default();
                        if v.is_none() || !text.contains(&format!("\"to_seq\":{q}")) || !text.contains(t.as_str()) {
                            rep.oracle_failure("C09|summary-unreadable-or-mismatch|manual", &format!("manual checkpoint at seq {q} accepted the summary artifact {a}, which is unreadable or covers something else"), json!({"case": case_no, "to_seq": q, "artifact": a, "earlier_checkpoints": earlier}));
                        }
                    } else if given_artifact.is_some() {
                        rep.count("manual_checkpoint_with_given_summary_refused");
                    }
                    // oracle only: a manual checkpoint lands exactly on a message, or is refused silently
                    match r {
                        Ok((_, _, q, mid, _)) => {
                            let is_msg = msg_frames.iter().any(|f| f["seq"].as_u64() == Some(q) && f["id"].as_str() == Some(mid.as_str()));
                            if !is_msg || appended.len() != 1 {
                                rep.oracle_failure("C09|manual-checkpoint-off-boundary", &format!("manual checkpoint accepted at seq {q} which is not that message's frame"), json!({"to_seq": to_seq, "to_message_id": to_mid}));
                            }
                        }
                        Err(_) => {
                            if !appended.is_empty() {
                                rep.oracle_failure("C09|refused-checkpoint-wrote", "a refused manual checkpoint appended frames", json!({"to_seq": to_seq}));
                            }
                        }
                    }
                    rep.count("op_manual_checkpoint");
                    continue;
                }
            };
            rep.traces_validated += 1;
            let m = model.ask(&model_line);
            if m != impl_line {
                rep.disagreement(&op_desc, json!({"case": case_no, "thread": thread_frames.iter().map(|f| format!("{}@{}", f["type"].as_str().unwrap_or("?").replace("continuity_", ""), f["seq"])).collect::<Vec<_>>(), "op": op_desc}), &impl_line, &m);
            }
            rep.count(&format!("op_{}", op_desc.split('(').next().unwrap_or("?")));
            rep.count(&format!("result_{}", impl_line.split(' ').next().unwrap_or("?")));
            let nm = thread_frames.iter().filter(|f| f["type"] == "continuity_message_appended").count() as u64;
            if let Some(s) = stride {
                if s > 0 && nm / s >= 2 {
                    rep.nontrivial_case(&model_line);
                }
            }
            rep.sample(json!({"op": op_desc, "result": impl_line}));
        }
        // replay-safety / determinism: the same auto job on two byte-copies writes the same summaries
        if case_no % 5 == 0 && msgs.len() >= 4 {
            let mut texts: Vec<Vec<String>> = Vec::new();
            for copy in 0..2 {
                let dst = ts.scratch.path().join(format!("copy{copy}"));
                std::fs::create_dir_all(&dst).unwrap();
                let _ = std::process::Command::new("cp").arg("-r").arg(&ts.data_dir).arg(&dst).status();
                let _ = std::process::Command::new("cp").arg("-r").arg(&ts.ws).arg(&dst).status();
                let log = std::sync::Arc::new(rip_log::EventLog::new(dst.join("data/events.jsonl")).unwrap());
                let s2 = ripd::ContinuityStore::new(dst.join("data"), dst.join("ws"), log).unwrap();
                let r = s2.compaction_auto_v1(&t, CompactionAutoV1Request { stride_messages: Some(2), max_new_checkpoints: Some(3), dry_run: Some(false), actor_id: "u".into(), origin: "cli".into() });
                let mut md = Vec::new();
                if let Ok(resp) = r {
                    // artifact ids are random; ids minted during this run are canonicalised by position
                    let minted: Vec<String> = resp.result.iter().map(|c| c.summary_artifact_id.clone()).collect();
                    for c in &resp.result {
                        let blob = dst.join("ws/.rip/artifacts/blobs").join(&c.summary_artifact_id);
                        let v: Value = std::fs::read(&blob).ok().and_then(|b| serde_json::from_slice(&b).ok()).unwrap_or(Value::Null);
                        // the job id is part of provenance; the summary text must not depend on it
                        let mut text = v["summary_markdown"].as_str().unwrap_or("").to_string();
                        for (i, id) in minted.iter().enumerate() {
                            text = text.replace(id, &format!("<artifact-{i}>"));
                        }
                        md.push(text);
                    }
                }
                texts.push(md);
            }
            rep.evaluations += 1;
            if texts[0] != texts[1] && std::env::var("C09_DUMP").is_ok() {
                eprintln!("--- copy0:\n{}\n--- copy1:\n{}", texts[0].join("\n=====\n"), texts[1].join("\n=====\n"));
                std::process::exit(3);
            }
            if texts[0] != texts[1] {
                rep.oracle_failure("C09|summary-not-deterministic", "the same history produced different summary text on two copies of the store", json!({"case": case_no}));
            }
            rep.count("determinism_pairs");
        }
    }
    let no = if opts.thorough { 120 } else { 16 } * opts.scale;
    for case_no in 0..no {
        overlapping_jobs_case(&mut rep, &mut rng, case_no);
    }
    rep
}
