//! C02: the truth log is append-only; read-only and no-op capabilities never write.
use crate::common::*;
use crate::http::*;
use crate::store::*;
use ripd::{
    CompactionAutoScheduleV1Request, CompactionAutoV1Request, CompactionCheckpointCumulativeV1Request,
    CompactionCutPointsV1Request, CompactionStatusV1Request, ContextSelectionStatusV1Request, ProviderCursorRotateV1Request,
    ProviderCursorStatusV1Request,
};
use serde_json::{json, Value};
use sha2::{Digest, Sha256};

fn check_step(rep: &mut Report, before: &[u8], after: &[u8], read_only: bool, what: &str, case: &Value) {
    if after.len() < before.len() || &after[..before.len()] != before {
        rep.oracle_failure(
            "C02|prefix-changed",
            &format!("after {what} the previous log content (sha256 {}) is no longer a prefix of the file", hex::encode(Sha256::digest(before))),
            case.clone(),
        );
        return;
    }
    let suffix = &after[before.len()..];
    if read_only && !suffix.is_empty() {
        rep.oracle_failure("C02|read-only-wrote", &format!("{what} appended {} bytes", suffix.len()), case.clone());
    }
    if !suffix.is_empty() {
        if *suffix.last().unwrap() != b'\n' {
            rep.oracle_failure("C02|partial-frame", &format!("{what} left a frame without its newline"), case.clone());
        }
        for line in suffix.split(|b| *b == b'\n').filter(|l| !l.is_empty()) {
            if serde_json::from_slice::<Value>(line).map(|v| !v.is_object()).unwrap_or(true) {
                rep.oracle_failure("C02|not-a-json-frame", &format!("{what} appended a line that is not a JSON object"), case.clone());
            }
        }
    }
}

/// Every cut point of `stride` (the k*stride-th messages of `thread`) already has a checkpoint frame
/// in `log`: auto-compaction then has nothing to do. Read from the log bytes, not from any answer.
fn nothing_to_do(log: &[u8], thread: &str, stride: u64) -> bool {
    if stride == 0 {
        return false;
    }
    let frames: Vec<Value> = String::from_utf8_lossy(log).lines().filter_map(|l| serde_json::from_str::<Value>(l).ok()).filter(|f| f["session_id"].as_str() == Some(thread)).collect();
    let msg_seqs: Vec<u64> = frames.iter().filter(|f| f["type"] == "continuity_message_appended").filter_map(|f| f["seq"].as_u64()).collect();
    msg_seqs
        .iter()
        .enumerate()
        .filter(|(i, _)| (*i as u64 + 1) % stride == 0)
        .all(|(_, q)| frames.iter().any(|f| f["type"] == "continuity_compaction_checkpoint_created" && f["to_seq"].as_u64() == Some(*q)))
}

pub fn run(opts: &Opts) -> Report {
    let mut rep = Report::new(
        "C02",
        "operation histories over the continuity API: appends of every public kind, branch/handoff (succeeding and failing selectors), manual checkpoints (boundary and non-boundary), auto / auto_schedule (dry_run, noop, execute), cursor rotate; read-only capabilities through the store API AND through the HTTP router (list, get, cut points, compaction status, cursor status, selection status, SSE stream open) with valid, invalid (stride 0, huge limits) and unknown-thread arguments; cache deletion (forcing rebuilds) and store reopen between operations; after every call: previous bytes are an exact prefix, the suffix is whole JSON frames, read-only/no-op calls add nothing; non-trivial = history with >=6 calls of >=3 kinds, distinct by op sequence",
    );
    let mut rng = Rng::new(opts.seed);
    let rt = tokio::runtime::Builder::new_current_thread().enable_all().build().unwrap();
    let n = if opts.thorough { 600 } else { 60 } * opts.scale;
    let nums: [Option<u64>; 7] = [None, Some(0), Some(1), Some(2), Some(3), Some(33), Some(10_000)];
    for case_no in 0..n {
        let scratch = Scratch::new("c02");
        let data_dir = scratch.path().join("data");
        let ws = scratch.path().join("ws");
        std::fs::create_dir_all(&ws).unwrap();
        let mut app = ripd::verif_export::VerifApp::new(data_dir.clone(), ws.clone());
        let log_path = data_dir.join("events.jsonl");
        let read = || std::fs::read(&log_path).unwrap_or_default();
        let mut store = app.continuities();
        let t0 = store.ensure_default().unwrap();
        let mut threads = vec![t0.clone()];
        let mut msgs: Vec<Msg> = Vec::new();
        let mut ops_done: Vec<String> = Vec::new();
        let nops = rng.range(6, 30);
        // structured tail the random choice rarely produces: messages, a job left in flight by
        // schedule(execute=false), then dry runs with the default (blocking) in-flight policy
        let structured = rng.chance(1, 3);
        let nops = if structured { nops + 4 } else { nops };
        // a second structured tail: a backlog of cut points drained one checkpoint per call (the
        // planner goes latest-first, so checkpoint frames land out of to_seq order), then a repeat
        let backfill = !structured && rng.chance(1, 3);
        let nops = if backfill { nops + 1 } else { nops };
        for op_no in 0..nops {
            if backfill && op_no + 1 == nops {
                for i in 0..5 {
                    let _ = store.append_message(&t0, "u".into(), "cli".into(), format!("backlog {i}"));
                }
                let st = rng.range(1, 2);
                let mut drained = false;
                for _ in 0..60 {
                    let before = read();
                    let nothing = nothing_to_do(&before, &t0, st);
                    let r = store.compaction_auto_v1(&t0, CompactionAutoV1Request { stride_messages: Some(st), max_new_checkpoints: Some(1), dry_run: Some(false), actor_id: "u".into(), origin: "cli".into() });
                    let after = read();
                    rep.count("structured_backfill_ops");
                    let name = format!("structured:auto(stride={st},max_new=1,nothing_to_do={nothing})");
                    if !after.starts_with(&before) {
                        rep.oracle_failure("C02|not-append-only", &format!("after {name} the previous log content is not a prefix"), json!({"op": name}));
                    }
                    if nothing && after.len() != before.len() {
                        rep.oracle_failure("C02|noop-wrote|backfilled-checkpoints", &format!("{name}: every cut point already has a checkpoint frame, yet the call appended {} bytes to the truth log", after.len() - before.len()), json!({"op": name, "ops_before": ops_done, "appended": String::from_utf8_lossy(&after[before.len()..]).chars().take(400).collect::<String>()}));
                    }
                    if nothing || r.is_err() {
                        drained = nothing;
                        break;
                    }
                }
                if drained {
                    rep.count("structured_backfill_drained");
                }
                ops_done.push("structured:backfill".into());
                continue;
            }
            // an id that names no thread: a plain unknown one, or one that — joined to a cache
            // directory — spells one of the store's own files (thread ids are not file names)
            let unknown_id = rng.chance(1, 8);
            let t = if unknown_id {
                rng.pick(&["unknown-thread", "../events", "../events.jsonl", "../continuities/index", "../../data/events", "..", ".", "../verif-events", "a/../../events"]).to_string()
            } else {
                rng.pick(&threads).clone()
            };
            if unknown_id && t != "unknown-thread" {
                rep.count("calls_with_a_path_like_thread_id");
            }
            // the same id as one path segment of a request URI
            let t_uri = t.replace('%', "%25").replace('/', "%2F");
            let stride = *rng.pick(&nums);
            let other = *rng.pick(&nums);
            if structured && op_no + 4 >= nops {
                let before = read();
                let step = op_no + 4 - nops;
                let (name, silent): (String, bool) = match step {
                    0 => {
                        for i in 0..5 {
                            let _ = store.append_message(&t0, "u".into(), "cli".into(), format!("structured {i}"));
                        }
                        ("structured:messages".into(), false)
                    }
                    1 => {
                        let _ = store.compaction_auto_schedule_v1(&t0, CompactionAutoScheduleV1Request { stride_messages: Some(2), max_new_checkpoints: Some(1), block_on_inflight: None, execute: Some(false), dry_run: Some(false), actor_id: "u".into(), origin: "cli".into() });
                        ("structured:schedule(execute=false)".into(), false)
                    }
                    2 => {
                        let _ = store.compaction_auto_schedule_v1(&t0, CompactionAutoScheduleV1Request { stride_messages: Some(2), max_new_checkpoints: Some(1), block_on_inflight: None, execute: Some(rng.chance(1, 2)), dry_run: Some(true), actor_id: "u".into(), origin: "cli".into() });
                        ("structured:schedule(dry_run, job in flight)".into(), true)
                    }
                    _ => {
                        let _ = store.compaction_auto_v1(&t0, CompactionAutoV1Request { stride_messages: Some(2), max_new_checkpoints: Some(1), dry_run: Some(true), actor_id: "u".into(), origin: "cli".into() });
                        ("structured:auto(dry_run, job in flight)".into(), true)
                    }
                };
                let after = read();
                rep.count("structured_inflight_ops");
                if !after.starts_with(&before) {
                    rep.oracle_failure("C02|not-append-only", &format!("after {name} the previous log content is not a prefix"), json!({"op": name}));
                }
                if silent && after.len() != before.len() {
                    rep.oracle_failure("C02|dry-run-wrote", &format!("{name} appended {} bytes to the truth log", after.len() - before.len()), json!({"op": name, "appended": String::from_utf8_lossy(&after[before.len()..]).chars().take(400).collect::<String>()}));
                }
                ops_done.push(name);
                continue;
            }
            let before = read();
            let pick = rng.below(27);
            let (name, read_only): (String, bool) = match pick {
                0..=3 => {
                    let k = rng.range(1, 5) as usize;
                    if !unknown_id {
                        random_history(&store, &t, &mut rng, k, &mut msgs);
                    } else {
                        let _ = store.append_message(&t, "u".into(), "cli".into(), "x".into());
                    }
                    ("appends".into(), false)
                }
                4 => {
                    let sel_seq = if rng.chance(1, 2) { Some(rng.below(40)) } else { None };
                    let sel_msg = if rng.chance(1, 3) { msgs.first().map(|m| m.id.clone()).or(Some("nope".into())) } else { None };
                    if let Ok((c, _, _)) = store.branch(&t, None, sel_msg, sel_seq, "u".into(), "cli".into()) {
                        threads.push(c);
                    }
                    ("branch".into(), false)
                }
                5 => {
                    let summary = match rng.below(3) { 0 => (Some("# s".to_string()), None), 1 => (None, Some("ab".repeat(32))), _ => (None, None) };
                    if let Ok((c, _, _)) = store.handoff(&t, None, summary, None, if rng.chance(1, 2) { Some(rng.below(40)) } else { None }, ("u".into(), "cli".into())) {
                        threads.push(c);
                    }
                    ("handoff".into(), false)
                }
                6 => {
                    let _ = store.compaction_checkpoint_cumulative_v1(&t, CompactionCheckpointCumulativeV1Request { summary_markdown: Some("m".into()), summary_artifact_id: None, to_message_id: None, to_seq: Some(rng.below(30)), stride_messages: None, actor_id: "u".into(), origin: "cli".into() });
                    ("manual_checkpoint".into(), false)
                }
                7 => {
                    let dry = rng.chance(1, 2);
                    let r = store.compaction_auto_v1(&t, CompactionAutoV1Request { stride_messages: stride, max_new_checkpoints: other.map(|x| x as u32), dry_run: Some(dry), actor_id: "u".into(), origin: "cli".into() });
                    // whether the call is a no-op is decided from the log as it was before the call
                    // (every cut point of the stride already carries a checkpoint frame), not only
                    // from what the call reports about itself
                    let nothing = r.as_ref().map(|x| nothing_to_do(&before, &t, x.stride_messages)).unwrap_or(false);
                    if nothing {
                        rep.count("auto_with_nothing_to_do");
                    }
                    let noop = r.as_ref().map(|x| x.status == "noop").unwrap_or(true) || nothing;
                    (format!("auto(dry={dry},noop={noop})"), dry || noop)
                }
                8 => {
                    let dry = rng.chance(1, 2);
                    let r = store.compaction_auto_schedule_v1(&t, CompactionAutoScheduleV1Request { stride_messages: stride, max_new_checkpoints: other.map(|x| x as u32), block_on_inflight: Some(rng.chance(1, 2)), execute: Some(rng.chance(1, 2)), dry_run: Some(dry), actor_id: "u".into(), origin: "cli".into() });
                    // a dry run must be silent whatever it reports (the expectation comes from the request,
                    // not from the answer); otherwise silence is expected for the noop decision and for errors
                    let nothing = r.as_ref().map(|x| nothing_to_do(&before, &t, x.stride_messages)).unwrap_or(false);
                    if nothing {
                        rep.count("schedule_with_nothing_to_do");
                    }
                    let silent = dry || nothing || r.as_ref().map(|x| x.decision == "noop" || x.decision == "dry_run").unwrap_or(true);
                    (format!("auto_schedule(dry={dry},silent={silent})"), silent)
                }
                9 => {
                    let _ = store.provider_cursor_rotate_v1(&t, ProviderCursorRotateV1Request { provider: Some("openresponses".into()), endpoint: None, model: None, reason: Some("r".into()), actor_id: "u".into(), origin: "cli".into() });
                    ("cursor_rotate".into(), false)
                }
                10 => {
                    let _ = store.replay_events(&t);
                    ("replay_events".into(), true)
                }
                11 => {
                    let _ = store.compaction_cut_points_v1(&t, CompactionCutPointsV1Request { stride_messages: stride, limit: other.map(|x| x as u32) });
                    ("cut_points".into(), true)
                }
                12 => {
                    let _ = store.compaction_status_v1(&t, CompactionStatusV1Request { stride_messages: stride });
                    ("compaction_status".into(), true)
                }
                13 => {
                    let _ = store.provider_cursor_status_v1(&t, ProviderCursorStatusV1Request {});
                    ("cursor_status".into(), true)
                }
                14 => {
                    let _ = store.context_selection_status_v1(&t, ContextSelectionStatusV1Request { limit: other.map(|x| x as u32) });
                    ("selection_status".into(), true)
                }
                15 => {
                    let _ = store.list();
                    let _ = store.get(&t);
                    ("list_get".into(), true)
                }
                16 => {
                    let _ = rt.block_on(call(&app.router, "GET", "/threads", None));
                    let _ = rt.block_on(call(&app.router, "GET", &format!("/threads/{t_uri}"), None));
                    ("http_list_get".into(), true)
                }
                17 => {
                    let _ = rt.block_on(call(&app.router, "POST", &format!("/threads/{t_uri}/compaction-cut-points"), Some(json!({"stride_messages": stride, "limit": other}))));
                    ("http_cut_points".into(), true)
                }
                18 => {
                    let _ = rt.block_on(call(&app.router, "POST", &format!("/threads/{t_uri}/compaction-status"), Some(json!({"stride_messages": stride}))));
                    ("http_compaction_status".into(), true)
                }
                19 => {
                    let _ = rt.block_on(call(&app.router, "POST", &format!("/threads/{t_uri}/provider-cursor-status"), Some(json!({}))));
                    let _ = rt.block_on(call(&app.router, "POST", &format!("/threads/{t_uri}/context-selection-status"), Some(json!({"limit": other}))));
                    ("http_status".into(), true)
                }
                20 => {
                    // open the SSE stream and drop it
                    rt.block_on(async {
                        let _ = sse_collect(&app.router, &format!("/threads/{t_uri}/events"), 30, |_| false).await;
                    });
                    ("http_stream_open".into(), true)
                }
                21 => {
                    let _ = rt.block_on(call(&app.router, "POST", &format!("/threads/{t_uri}/compaction-auto"), Some(json!({"stride_messages": stride, "dry_run": true, "actor_id": "u", "origin": "cli"}))));
                    ("http_auto_dry_run".into(), true)
                }
                22 => {
                    let _ = rt.block_on(call(&app.router, "POST", &format!("/threads/{t_uri}/compaction-auto-schedule"), Some(json!({"stride_messages": stride, "dry_run": true, "actor_id": "u", "origin": "cli"}))));
                    ("http_schedule_dry_run".into(), true)
                }
                23 => {
                    // lose the caches: every later read has to rebuild them
                    let _ = std::fs::remove_dir_all(data_dir.join("continuity_streams"));
                    if rng.chance(1, 2) {
                        let _ = std::fs::remove_file(data_dir.join("continuities").join("index.json"));
                    }
                    ("drop_caches".into(), true)
                }
                24 => {
                    // authority restart
                    app = ripd::verif_export::VerifApp::new(data_dir.clone(), ws.clone());
                    store = app.continuities();
                    ("reopen".into(), true)
                }
                25 => {
                    // what a process death between a frame's body and its newline leaves: the last frame
                    // is whole but unterminated. The next authority opens the log over it; the bytes that
                    // are there (a frame `replay` already serves) must stay where they are.
                    let body = if rng.chance(1, 2) { "x".repeat(rng.range(9_000, 30_000) as usize) } else { "short".to_string() };
                    let _ = store.append_message(&t, "u".into(), "cli".into(), body);
                    let mut bytes = read();
                    if bytes.last() == Some(&b'\n') {
                        bytes.pop();
                        let _ = std::fs::write(&log_path, &bytes);
                    }
                    let dangling = read();
                    app = ripd::verif_export::VerifApp::new(data_dir.clone(), ws.clone());
                    store = app.continuities();
                    let reopened = read();
                    let case = json!({"case": case_no, "ops_before": ops_done, "op": "reopen_over_unterminated_frame", "log_bytes": dangling.len()});
                    check_step(&mut rep, &dangling, &reopened, false, "reopening the store over a whole but unterminated last frame", &case);
                    rep.count("op_reopen_over_unterminated_frame");
                    ("reopen_over_unterminated_frame".into(), false)
                }
                _ => {
                    let _ = store.ensure_default();
                    ("ensure_default(existing)".into(), true)
                }
            };
            rep.evaluations += 1;
            let after = read();
            let case = json!({"case": case_no, "ops_before": ops_done, "op": name, "thread": if unknown_id { t.as_str() } else { "known" }, "stride": stride, "other": other});
            check_step(&mut rep, &before, &after, read_only, &name, &case);
            rep.count(&format!("op_{}", name.split('(').next().unwrap_or("?")));
            ops_done.push(name);
        }
        rep.traces_validated += 1;
        let kinds: std::collections::BTreeSet<&String> = ops_done.iter().collect();
        if ops_done.len() >= 6 && kinds.len() >= 3 {
            rep.nontrivial_case(&ops_done.join(","));
        }
        rep.sample(json!({"ops": ops_done}));
    }
    rep
}
