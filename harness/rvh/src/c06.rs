//! C06: a stream subscriber sees every frame exactly once, in order — every attach moment.
use crate::common::*;
use crate::sched::{self, Scheduler};
use rip_kernel::{Event, EventKind};
use serde_json::{json, Value};
use std::sync::{Arc, Mutex};

#[derive(Clone, Copy, PartialEq, Debug)]
pub enum Kind {
    Session,
    Task,
    Thread,
}

fn gen_id(k: Kind) -> (u32, bool) {
    match k {
        Kind::Session => (1, false),
        Kind::Task => (3, false),
        Kind::Thread => (10, true),
    }
}

pub struct Outcome {
    pub delivered: Vec<u64>,
    pub model_acts: Vec<String>,
}

/// Runs one controlled schedule: `acts` is a list of 'p' / 's'.
pub fn run_schedule(kind: Kind, n: usize, acts: &[char], thread_rot: usize) -> Outcome {
    let scratch = Scratch::new("c06");
    let data_dir = scratch.path().join("data");
    let ws = scratch.path().join("ws");
    std::fs::create_dir_all(&ws).unwrap();
    let setup_rt = tokio::runtime::Builder::new_current_thread().enable_all().build().unwrap();
    let app = Arc::new(ripd::verif_export::VerifApp::new(data_dir.clone(), ws.clone()));
    // stream under test
    let (uri, session, task, thread_id) = setup_rt.block_on(async {
        match kind {
            Kind::Session => {
                let h = app.register_session().await;
                (format!("/sessions/{}/events", h.session_id), Some(h), None, None)
            }
            Kind::Task => {
                let t = app.register_task().await;
                (format!("/tasks/{}/events", t.task_id()), None, Some(Arc::new(t)), None)
            }
            Kind::Thread => {
                let id = app.continuities().ensure_default().unwrap();
                (format!("/threads/{id}/events"), None, None, Some(id))
            }
        }
    });
    let delivered: Arc<Mutex<Vec<u64>>> = Arc::new(Mutex::new(Vec::new()));
    let expected = if kind == Kind::Thread { n + 1 } else { n };

    // producer
    let p_app = app.clone();
    let producer: Box<dyn FnOnce() + Send> = Box::new(move || {
        let rt = tokio::runtime::Builder::new_current_thread().enable_all().build().unwrap();
        rt.block_on(async {
            for k in 0..n {
                match kind {
                    Kind::Session => {
                        let h = session.as_ref().unwrap();
                        let ev = Event {
                            id: format!("e{k}"),
                            session_id: h.session_id.clone(),
                            timestamp_ms: 0,
                            seq: k as u64,
                            kind: EventKind::OutputTextDelta { delta: format!("d{k}") },
                        };
                        p_app.session_emit(h, ev).await;
                    }
                    Kind::Task => task.as_ref().unwrap().emit_delta(&format!("d{k}")).await,
                    Kind::Thread => {
                        // every public append kind of a run's life in turn: each has its own copy of
                        // the log / cache / broadcast sequence
                        let store = p_app.continuities();
                        let t = thread_id.as_ref().unwrap();
                        match (k + thread_rot) % 4 {
                            0 => {
                                let _ = store.append_message(t, "a".into(), "o".into(), format!("m{k}"));
                            }
                            1 => {
                                let _ = store.append_run_spawned(t, "m", &format!("run-{k}"), "a".into(), "o".into());
                            }
                            2 => {
                                let link = ripd::ContinuityRunLink { continuity_id: t.clone(), message_id: "m".into(), actor_id: "a".into(), origin: "o".into() };
                                let _ = store.append_tool_side_effects(&link, &format!("run-{k}"), ripd::ToolSideEffects { tool_id: "t".into(), tool_name: "write".into(), affected_paths: Some(vec!["a.txt".into()]), checkpoint_id: None });
                            }
                            _ => {
                                let _ = store.append_run_ended(t, "m", &format!("run-{k}"), "completed".into(), "a".into(), "o".into());
                            }
                        }
                    }
                }
            }
        });
    });
    // subscriber
    let s_app = app.clone();
    let s_out = delivered.clone();
    let subscriber: Box<dyn FnOnce() + Send> = Box::new(move || {
        let rt = tokio::runtime::Builder::new_current_thread().enable_all().build().unwrap();
        rt.block_on(async {
            use axum::body::Body;
            use axum::http::Request;
            use http_body_util::BodyExt;
            use tower::ServiceExt;
            let req = Request::builder().method("GET").uri(&uri).body(Body::empty()).unwrap();
            let resp = s_app.router.clone().oneshot(req).await.unwrap();
            sched::point("h.read");
            let mut body = resp.into_body();
            let mut buf = String::new();
            let deadline = tokio::time::Instant::now() + std::time::Duration::from_millis(250);
            loop {
                if s_out.lock().unwrap().len() >= expected {
                    // linger briefly: a duplicate would arrive right behind
                    match tokio::time::timeout(std::time::Duration::from_millis(15), body.frame()).await {
                        Ok(Some(Ok(f))) => {
                            if let Some(d) = f.data_ref() {
                                buf.push_str(&String::from_utf8_lossy(d));
                            }
                        }
                        _ => break,
                    }
                } else {
                    match tokio::time::timeout_at(deadline, body.frame()).await {
                        Ok(Some(Ok(f))) => {
                            if let Some(d) = f.data_ref() {
                                buf.push_str(&String::from_utf8_lossy(d));
                            }
                        }
                        _ => break,
                    }
                }
                while let Some(pos) = buf.find("\n\n") {
                    let block: String = buf.drain(..pos + 2).collect();
                    for line in block.lines() {
                        if let Some(rest) = line.strip_prefix("data:") {
                            if let Ok(v) = serde_json::from_str::<Value>(rest.trim_start()) {
                                if let Some(seq) = v["seq"].as_u64() {
                                    s_out.lock().unwrap().push(seq);
                                }
                            }
                        }
                    }
                }
            }
        });
    });
    let mut s = Scheduler::new(vec![producer, subscriber]);
    // leave "start": producer to its first point, subscriber to sse.subscribe
    s.step(0);
    s.step(1);
    let mut model_acts: Vec<String> = Vec::new();
    let mut sub_blocked = false;
    let mut do_act = |s: &mut Scheduler, a: char, model_acts: &mut Vec<String>, sub_blocked: &mut bool| match a {
        'p' => {
            let at = s.where_is(0);
            if at == "finished" {
                return;
            }
            model_acts.push(format!("p:{at}"));
            s.step(0);
            if *sub_blocked {
                s.drain();
                if s.where_is(1) == "h.read" {
                    // the blocked snapshot went through as soon as the lock was released
                    model_acts.push("s".into());
                    *sub_blocked = false;
                }
            }
        }
        _ => {
            let at = s.where_is(1);
            if at == "h.read" || at == "finished" || *sub_blocked {
                return;
            }
            model_acts.push("s".into());
            if s.step_or_block(1, 60) == "blocked" {
                *sub_blocked = true;
            }
        }
    };
    for a in acts {
        do_act(&mut s, *a, &mut model_acts, &mut sub_blocked);
    }
    // drain: producer to the end, then the subscriber's remaining steps
    for _ in 0..(n * 8 + 8) {
        do_act(&mut s, 'p', &mut model_acts, &mut sub_blocked);
    }
    for _ in 0..3 {
        do_act(&mut s, 's', &mut model_acts, &mut sub_blocked);
    }
    s.finish();
    let mut d = delivered.lock().unwrap().clone();
    if kind == Kind::Thread {
        // seq 0 is the thread's creation frame, written before the test; frames under test are 1..n
        d = d.into_iter().filter(|x| *x != 0).map(|x| x - 1).collect();
    }
    Outcome { delivered: d, model_acts }
}


/// Two emitters on one task stream (the stdout and stderr pumps of a real task), single-stepped
/// through the yield points of the real `TaskEmitter::emit` under a random schedule. Whatever the
/// schedule, the stream's frames must be recorded, logged and replayed to a late subscriber as
/// 0,1,2,… in order.
/// two or three emitters on one task stream under a random controlled schedule: (seqs of the task
/// stream in log file order, what a late subscriber receives, frames expected, the case)
pub fn two_emitter_run(rng: &mut Rng) -> (Vec<u64>, Vec<u64>, u64, Value, String) {
    let scratch = Scratch::new("c06e");
    let data_dir = scratch.path().join("data");
    let ws = scratch.path().join("ws");
    std::fs::create_dir_all(&ws).unwrap();
    let setup_rt = tokio::runtime::Builder::new_current_thread().enable_all().build().unwrap();
    let app = Arc::new(ripd::verif_export::VerifApp::new(data_dir.clone(), ws.clone()));
    let task = Arc::new(setup_rt.block_on(app.register_task()));
    let task_id = task.task_id().to_string();
    let per = rng.range(1, 3) as usize;
    let nworkers = rng.range(2, 3) as usize;
    let workers: Vec<Box<dyn FnOnce() + Send>> = (0..nworkers)
        .map(|w| {
            let t = task.clone();
            Box::new(move || {
                let rt = tokio::runtime::Builder::new_current_thread().enable_all().build().unwrap();
                rt.block_on(async {
                    for k in 0..per {
                        t.emit_delta(&format!("w{w}.{k}")).await;
                    }
                });
            }) as Box<dyn FnOnce() + Send>
        })
        .collect();
    let mut s = Scheduler::new(workers);
    let mut schedule = Vec::new();
    for _ in 0..(nworkers * per * 5) {
        let id = rng.below(nworkers as u64) as usize;
        schedule.push(id);
        if s.step_or_block(id, 20) == "blocked" {
            s.drain();
        }
    }
    s.finish();
    let total = (nworkers * per) as u64;
    // (1) the log: the task stream's frames in file order
    let logged: Vec<u64> = crate::store::read_frames(&data_dir.join("verif-events.jsonl")).iter().filter(|f| f["session_id"].as_str() == Some(task_id.as_str())).filter_map(|f| f["seq"].as_u64()).collect();
    // (2) a late subscriber (replays the recorded frames)
    let uri = format!("/tasks/{task_id}/events");
    let late: Vec<u64> = setup_rt.block_on(async { crate::http::sse_collect(&app.router, &uri, 300, |_| false).await }).iter().filter_map(|v| v["seq"].as_u64()).collect();
    let case = json!({"emitters": nworkers, "frames_each": per, "schedule": schedule});
    (logged, late, total, case, format!("two-emitters|{nworkers}|{per}|{schedule:?}"))
}

fn two_emitter_case(rep: &mut Report, rng: &mut Rng) {
    let (logged, late, total, case, key) = two_emitter_run(rng);
    let want: Vec<u64> = (0..total).collect();
    rep.evaluations += 1;
    rep.traces_validated += 1;
    rep.count("two_emitter_cases");
    rep.nontrivial_case(&key);
    if logged != want {
        rep.oracle_failure("C06|two-emitters|log-order", &format!("two emitters on one task stream: the log holds seqs {logged:?}, expected {want:?}"), case.clone());
    }
    if late != want {
        rep.oracle_failure("C06|two-emitters|late-subscriber", &format!("two emitters on one task stream: a late subscriber received {late:?}, expected {want:?}"), case);
    }
}

/// A subscriber that attached before the stream started and does not read while more frames than
/// the broadcast channel holds are emitted.
/// A reader that finds the thread's sidecar unreadable answers from the log and then rewrites the
/// sidecar from the frames it read. Scheduled here: the reader is parked between its log read and
/// the rewrite while a producer appends one more frame (log, caches, broadcast); then the reader
/// finishes. A subscriber attaching AFTERWARDS must still get every frame from 0 on, and so must
/// the frames appended while it listens.
fn reader_rebuild_race_case(rep: &mut Report, rng: &mut Rng) {
    let scratch = Scratch::new("c06rr");
    let data_dir = scratch.path().join("data");
    let ws = scratch.path().join("ws");
    std::fs::create_dir_all(&ws).unwrap();
    let app = Arc::new(ripd::verif_export::VerifApp::new(data_dir.clone(), ws.clone()));
    let store = app.continuities();
    let thread = store.ensure_default().unwrap();
    let before = rng.range(1, 6) as usize;
    for k in 0..before {
        let _ = store.append_message(&thread, "a".into(), "o".into(), format!("m{k}"));
    }
    // how the sidecar became unreadable: lost, or left with a torn last line
    let sidecar = data_dir.join("continuity_streams").join(format!("{thread}.jsonl"));
    let damage = if rng.chance(1, 2) {
        let _ = std::fs::remove_file(&sidecar);
        "sidecar lost"
    } else {
        let mut b = std::fs::read(&sidecar).unwrap_or_default();
        b.extend_from_slice(b"{\"id\":\"torn");
        let _ = std::fs::write(&sidecar, b);
        "sidecar with a torn last line"
    };
    let during = rng.range(1, 3) as usize;
    let (r_store, r_thread) = (store.clone(), thread.clone());
    let reader: Box<dyn FnOnce() + Send> = Box::new(move || {
        let _ = r_store.replay_events(&r_thread);
    });
    let (p_store, p_thread) = (store.clone(), thread.clone());
    let producer: Box<dyn FnOnce() + Send> = Box::new(move || {
        for k in 0..during {
            let _ = p_store.append_message(&p_thread, "a".into(), "o".into(), format!("during {k}"));
        }
    });
    let mut s = Scheduler::new(vec![reader, producer]);
    // the reader up to the rewrite (or to its end when it never falls back to the log)
    let mut parked = false;
    for _ in 0..40 {
        let at = s.where_is(0);
        if at == "replay.rebuild" {
            parked = true;
            break;
        }
        if at == "finished" {
            break;
        }
        if s.step_or_block(0, 60) == "blocked" {
            break;
        }
    }
    // the producer to its end, then the reader to its end
    for _ in 0..(during * 12 + 12) {
        if s.where_is(1) == "finished" {
            break;
        }
        if s.step_or_block(1, 60) == "blocked" {
            break;
        }
    }
    let producer_done = s.where_is(1) == "finished";
    for _ in 0..12 {
        if s.where_is(0) == "finished" {
            break;
        }
        s.step_or_block(0, 60);
    }
    for _ in 0..(during * 12 + 12) {
        if s.where_is(1) == "finished" {
            break;
        }
        s.step_or_block(1, 60);
    }
    s.finish();
    // a late subscriber, and one more frame while it listens
    let after = 1usize;
    let last = (before + during + after) as u64; // seq 0 is the creation frame
    let rt = tokio::runtime::Builder::new_multi_thread().worker_threads(2).enable_all().build().unwrap();
    let delivered: Vec<u64> = rt.block_on(async {
        use axum::body::Body;
        use axum::http::Request;
        use http_body_util::BodyExt;
        use tower::ServiceExt;
        let req = Request::builder().method("GET").uri(format!("/threads/{thread}/events")).body(Body::empty()).unwrap();
        let resp = app.router.clone().oneshot(req).await.unwrap();
        let (l_store, l_thread) = (store.clone(), thread.clone());
        tokio::task::spawn_blocking(move || {
            for k in 0..after {
                let _ = l_store.append_message(&l_thread, "a".into(), "o".into(), format!("after {k}"));
            }
        })
        .await
        .unwrap();
        let mut body = resp.into_body();
        let mut buf = String::new();
        let mut out: Vec<u64> = Vec::new();
        loop {
            match tokio::time::timeout(std::time::Duration::from_millis(200), body.frame()).await {
                Ok(Some(Ok(f))) => {
                    if let Some(d) = f.data_ref() {
                        buf.push_str(&String::from_utf8_lossy(d));
                    }
                }
                _ => break,
            }
            while let Some(pos) = buf.find("\n\n") {
                let block: String = buf.drain(..pos + 2).collect();
                for line in block.lines() {
                    if let Some(rest) = line.strip_prefix("data:") {
                        if let Ok(v) = serde_json::from_str::<Value>(rest.trim_start()) {
                            if let Some(seq) = v["seq"].as_u64() {
                                out.push(seq);
                            }
                        }
                    }
                }
            }
            if out.last() == Some(&last) {
                break;
            }
        }
        out
    });
    drop(rt);
    rep.evaluations += 1;
    rep.traces_validated += 1;
    rep.count("reader_rebuild_race_cases");
    if parked {
        rep.count("reader_rebuild_race_reader_parked_before_rewrite");
    }
    if parked && producer_done {
        rep.nontrivial_case(&format!("rr {before} {during} {damage}"));
    }
    let want: Vec<u64> = (0..=last).collect();
    if delivered != want {
        rep.oracle_failure(
            "C06|late-subscriber-after-reader-rebuild",
            &format!("a subscriber attached after a reader rebuilt the sidecar received {delivered:?}, expected every frame 0..={last}"),
            json!({"kind": "Thread", "how_the_sidecar_became_unreadable": damage, "frames_before": before + 1, "frames_appended_between_the_readers_log_read_and_its_rewrite": during, "frames_appended_while_subscribed": after, "reader_parked_before_rewrite": parked, "producer_finished_while_reader_parked": producer_done}),
        );
    }
}

/// The caches of a thread are lost while the authority is running and the next thing that happens
/// is an append (the next seq is in memory): a subscriber attaching afterwards must still get every
/// frame from 0 on.
fn cache_loss_then_append_case(rep: &mut Report, rng: &mut Rng) {
    let scratch = Scratch::new("c06cl");
    let data_dir = scratch.path().join("data");
    let ws = scratch.path().join("ws");
    std::fs::create_dir_all(&ws).unwrap();
    let app = Arc::new(ripd::verif_export::VerifApp::new(data_dir.clone(), ws.clone()));
    let store = app.continuities();
    let thread = store.ensure_default().unwrap();
    let before = rng.range(1, 6) as usize;
    for k in 0..before {
        let _ = store.append_message(&thread, "a".into(), "o".into(), format!("m{k}"));
    }
    let whole_dir = rng.chance(1, 2);
    if whole_dir {
        let _ = std::fs::remove_dir_all(data_dir.join("continuity_streams"));
    } else {
        let _ = std::fs::remove_file(data_dir.join("continuity_streams").join(format!("{thread}.jsonl")));
    }
    let during = rng.range(1, 3) as usize;
    for k in 0..during {
        let _ = store.append_message(&thread, "a".into(), "o".into(), format!("after the loss {k}"));
    }
    let last = (before + during + 1) as u64;
    let rt = tokio::runtime::Builder::new_multi_thread().worker_threads(2).enable_all().build().unwrap();
    let delivered: Vec<u64> = rt.block_on(async {
        use axum::body::Body;
        use axum::http::Request;
        use http_body_util::BodyExt;
        use tower::ServiceExt;
        let req = Request::builder().method("GET").uri(format!("/threads/{thread}/events")).body(Body::empty()).unwrap();
        let resp = app.router.clone().oneshot(req).await.unwrap();
        let (l_store, l_thread) = (store.clone(), thread.clone());
        tokio::task::spawn_blocking(move || {
            let _ = l_store.append_message(&l_thread, "a".into(), "o".into(), "while subscribed".into());
        })
        .await
        .unwrap();
        let mut body = resp.into_body();
        let mut buf = String::new();
        let mut out: Vec<u64> = Vec::new();
        loop {
            match tokio::time::timeout(std::time::Duration::from_millis(200), body.frame()).await {
                Ok(Some(Ok(f))) => {
                    if let Some(d) = f.data_ref() {
                        buf.push_str(&String::from_utf8_lossy(d));
                    }
                }
                _ => break,
            }
            while let Some(pos) = buf.find("\n\n") {
                let block: String = buf.drain(..pos + 2).collect();
                for line in block.lines() {
                    if let Some(rest) = line.strip_prefix("data:") {
                        if let Ok(v) = serde_json::from_str::<Value>(rest.trim_start()) {
                            if let Some(seq) = v["seq"].as_u64() {
                                out.push(seq);
                            }
                        }
                    }
                }
            }
            if out.last() == Some(&last) {
                break;
            }
        }
        out
    });
    drop(rt);
    rep.evaluations += 1;
    rep.traces_validated += 1;
    rep.count("cache_loss_then_append_cases");
    rep.nontrivial_case(&format!("cl {before} {during} {whole_dir}"));
    let want: Vec<u64> = (0..=last).collect();
    if delivered != want {
        rep.oracle_failure(
            "C06|late-subscriber-after-cache-loss-and-append",
            &format!("a subscriber attached after the thread's caches were lost and {during} frame(s) appended received {delivered:?}, expected every frame 0..={last}"),
            json!({"kind": "Thread", "frames_before_the_loss": before + 1, "lost": if whole_dir { "the cache directory" } else { "the thread's sidecar" }, "frames_appended_after_the_loss": during}),
        );
    }
}

/// every thread of a store is published on ONE broadcast channel, each with its own seq space: a
/// subscriber of thread A is connected while another thread B of the same store appends frames with
/// higher seqs, then A goes on. A's subscriber receives every frame of A exactly once and in order,
/// and nothing of B.
fn neighbour_thread_case(rep: &mut Report, rng: &mut Rng) {
    let scratch = Scratch::new("c06nb");
    let data_dir = scratch.path().join("data");
    let ws = scratch.path().join("ws");
    std::fs::create_dir_all(&ws).unwrap();
    let app = Arc::new(ripd::verif_export::VerifApp::new(data_dir.clone(), ws.clone()));
    let store = app.continuities();
    let a = store.ensure_default().unwrap();
    let a_before = rng.range(0, 3) as usize;
    for k in 0..a_before {
        let _ = store.append_message(&a, "a".into(), "o".into(), format!("a{k}"));
    }
    // B is a branch of A (frames 0 and 1 are its creation and lineage), then grows past A's head
    let Ok((b, _, _)) = store.branch(&a, Some("neighbour".into()), None, None, "u".into(), "cli".into()) else { return };
    let b_before = rng.range(0, 4) as usize;
    for k in 0..b_before {
        let _ = store.append_message(&b, "a".into(), "o".into(), format!("b{k}"));
    }
    let b_during = rng.range(2, 8) as usize;
    let a_during = rng.range(1, 4) as usize;
    let a_last = (a_before + a_during) as u64;
    let rt = tokio::runtime::Builder::new_multi_thread().worker_threads(2).enable_all().build().unwrap();
    let delivered: Vec<(String, u64)> = rt.block_on(async {
        use axum::body::Body;
        use axum::http::Request;
        use http_body_util::BodyExt;
        use tower::ServiceExt;
        let req = Request::builder().method("GET").uri(format!("/threads/{a}/events")).body(Body::empty()).unwrap();
        let resp = app.router.clone().oneshot(req).await.unwrap();
        let (l_store, l_a, l_b) = (store.clone(), a.clone(), b.clone());
        tokio::task::spawn_blocking(move || {
            for k in 0..b_during {
                let _ = l_store.append_message(&l_b, "a".into(), "o".into(), format!("b while a is watched {k}"));
            }
            for k in 0..a_during {
                let _ = l_store.append_message(&l_a, "a".into(), "o".into(), format!("a while subscribed {k}"));
            }
        })
        .await
        .unwrap();
        let mut body = resp.into_body();
        let mut buf = String::new();
        let mut out: Vec<(String, u64)> = Vec::new();
        loop {
            match tokio::time::timeout(std::time::Duration::from_millis(250), body.frame()).await {
                Ok(Some(Ok(f))) => {
                    if let Some(d) = f.data_ref() {
                        buf.push_str(&String::from_utf8_lossy(d));
                    }
                }
                _ => break,
            }
            while let Some(pos) = buf.find("\n\n") {
                let block: String = buf.drain(..pos + 2).collect();
                for line in block.lines() {
                    if let Some(rest) = line.strip_prefix("data:") {
                        if let Ok(v) = serde_json::from_str::<Value>(rest.trim_start()) {
                            if let Some(seq) = v["seq"].as_u64() {
                                out.push((v["session_id"].as_str().unwrap_or("?").to_string(), seq));
                            }
                        }
                    }
                }
            }
            if out.last().map(|(t, q)| t == &a && *q == a_last).unwrap_or(false) {
                break;
            }
        }
        out
    });
    drop(rt);
    rep.evaluations += 1;
    rep.traces_validated += 1;
    rep.count("neighbour_thread_cases");
    rep.nontrivial_case(&format!("nb {a_before} {b_before} {b_during} {a_during}"));
    let want: Vec<(String, u64)> = (0..=a_last).map(|q| (a.clone(), q)).collect();
    if delivered != want {
        let got: Vec<String> = delivered.iter().map(|(t, q)| format!("{}{q}", if t == &a { "A" } else { "B" })).collect();
        rep.oracle_failure(
            "C06|thread-subscriber-disturbed-by-a-neighbour-thread",
            &format!("a subscriber connected to thread A at head {a_before} while thread B of the same store appended {b_during} frames (up to seq {}) and A then {a_during}: received {got:?}, expected A0..=A{a_last}", 1 + b_before + b_during),
            json!({"kind": "Thread", "a_frames_before": a_before + 1, "b_frames_before": b_before + 2, "b_frames_during": b_during, "a_frames_during": a_during}),
        );
    }
}

fn lag_case(rep: &mut Report, extra: usize) {
    let cap = std::fs::read_to_string("/verif/.build/gen.json")
        .ok()
        .and_then(|t| serde_json::from_str::<Value>(&t).ok())
        .and_then(|v| {
            v["consts"].as_array().and_then(|a| {
                a.iter().find(|c| c["name"] == "runner_EVENT_CHANNEL_CAPACITY").and_then(|c| c["value"].as_str().and_then(|s| s.parse::<usize>().ok()))
            })
        })
        .unwrap_or(16_384);
    let n = cap + extra;
    let scratch = Scratch::new("c06lag");
    let ws = scratch.path().join("ws");
    std::fs::create_dir_all(&ws).unwrap();
    let rt = tokio::runtime::Builder::new_current_thread().enable_all().build().unwrap();
    let delivered: Vec<u64> = rt.block_on(async {
        use axum::body::Body;
        use axum::http::Request;
        use http_body_util::BodyExt;
        use tower::ServiceExt;
        let app = ripd::verif_export::VerifApp::new(scratch.path().join("data"), ws.clone());
        let h = app.register_session().await;
        let req = Request::builder().method("GET").uri(format!("/sessions/{}/events", h.session_id)).body(Body::empty()).unwrap();
        let resp = app.router.clone().oneshot(req).await.unwrap();
        for k in 0..n {
            let ev = Event { id: format!("e{k}"), session_id: h.session_id.clone(), timestamp_ms: 0, seq: k as u64, kind: EventKind::OutputTextDelta { delta: "x".into() } };
            app.session_emit(&h, ev).await;
        }
        let mut body = resp.into_body();
        let mut buf = String::new();
        let mut out = Vec::new();
        loop {
            match tokio::time::timeout(std::time::Duration::from_millis(300), body.frame()).await {
                Ok(Some(Ok(f))) => {
                    if let Some(d) = f.data_ref() {
                        buf.push_str(&String::from_utf8_lossy(d));
                    }
                }
                _ => break,
            }
            while let Some(pos) = buf.find("\n\n") {
                let block: String = buf.drain(..pos + 2).collect();
                for line in block.lines() {
                    if let Some(rest) = line.strip_prefix("data:") {
                        if let Ok(v) = serde_json::from_str::<Value>(rest.trim_start()) {
                            if let Some(seq) = v["seq"].as_u64() {
                                out.push(seq);
                            }
                        }
                    }
                }
            }
            if out.len() >= n {
                break;
            }
        }
        out
    });
    rep.evaluations += 1;
    rep.count("lag_case");
    let want: Vec<u64> = (0..n as u64).collect();
    if delivered != want {
        rep.oracle_failure(
            "C06|lag>capacity",
            &format!("a subscriber that fell {n} frames behind (channel capacity {cap}) received {} frames, first seq {:?}: {} frames silently lost", delivered.len(), delivered.first(), n - delivered.len().min(n)),
            json!({"kind": "Session", "frames": n, "channel_capacity": cap, "subscriber": "attached before the stream, not reading until the end"}),
        );
    }
}

pub fn run(opts: &Opts) -> Report {
    let mut rep = Report::new(
        "C06",
        "controlled schedules: a producer emitting n=1..4 frames through the real session emitter / task emitter / continuity append, single-stepped between its effects (yield points), interleaved with a subscriber whose GET …/events handler is single-stepped between subscribe and snapshot; every (subscribe, snapshot) position for short streams, random schedules for longer ones; all three stream kinds; non-trivial = the subscriber attaches strictly inside the emission sequence, distinct by (kind, n, schedule)",
    );
    let mut model = Model::spawn();
    let mut rng = Rng::new(opts.seed);
    // (kind, frames, schedule, which append kind the thread producer starts with)
    let mut cases: Vec<(Kind, usize, Vec<char>, usize)> = Vec::new();
    // corpus: the lost-frame schedule of Rip.Cex.C06.lost_frame
    for k in [Kind::Session, Kind::Task, Kind::Thread] {
        cases.push((k, 1, "pss".chars().collect(), 0));
        cases.push((k, 2, "pppspsp".chars().collect(), 0));
    }
    // exhaustive attach positions for n <= 2: subscribe after i producer steps, snapshot after j >= i
    for k in [Kind::Session, Kind::Task, Kind::Thread] {
        let per = if k == Kind::Thread { 5 } else { 3 };
        for n in 1..=2usize {
            let total = n * per;
            for i in 0..=total {
                for j in i..=total {
                    if !opts.thorough && (i + j) % 2 == 1 && n == 2 {
                        continue;
                    }
                    let mut acts = vec!['p'; i];
                    acts.push('s');
                    acts.extend(vec!['p'; j - i]);
                    acts.push('s');
                    // thread streams: every append kind at every attach position (one frame), and a
                    // rotating start for two frames
                    let rots: Vec<usize> = if k != Kind::Thread { vec![0] } else if n == 1 { vec![0, 1, 2, 3] } else { vec![(i + j) % 4] };
                    for rot in rots {
                        cases.push((k, n, acts.clone(), rot));
                    }
                }
            }
        }
    }
    let extra = if opts.thorough { 300 } else { 30 } * opts.scale;
    for _ in 0..extra {
        let k = *rng.pick(&[Kind::Session, Kind::Task, Kind::Thread]);
        let n = rng.range(2, 4) as usize;
        let len = rng.range(2, 20);
        let acts: Vec<char> = (0..len).map(|_| if rng.chance(1, 3) { 's' } else { 'p' }).collect();
        cases.push((k, n, acts, rng.below(4) as usize));
    }
    let n_two = if opts.thorough { 300 } else { 30 } * opts.scale;
    for _ in 0..n_two {
        two_emitter_case(&mut rep, &mut rng);
    }
    let n_rr = if opts.thorough { 200 } else { 20 } * opts.scale;
    for _ in 0..n_rr {
        reader_rebuild_race_case(&mut rep, &mut rng);
    }
    let n_cl = if opts.thorough { 100 } else { 12 } * opts.scale;
    for _ in 0..n_cl {
        cache_loss_then_append_case(&mut rep, &mut rng);
        neighbour_thread_case(&mut rep, &mut rng);
    }
    lag_case(&mut rep, 50);
    for (kind, n, acts, rot) in cases {
        rep.evaluations += 1;
        let out = run_schedule(kind, n, &acts, rot);
        rep.traces_validated += 1;
        let (gid, via_log) = gen_id(kind);
        let sched_text: String = acts.iter().collect();
        let case = json!({"kind": format!("{kind:?}"), "frames": n, "schedule": sched_text, "first_append_kind": if kind == Kind::Thread { ["message", "run_spawned", "tool_side_effects", "run_ended"][rot % 4] } else { "-" }, "effective_schedule": out.model_acts});
        let m = model.ask(&format!("c06 {} {} {} {} {}", gid, via_log as u8, n, out.model_acts.len(), out.model_acts.join(" ")));
        let impl_line = format!("out=[{}]", out.delivered.iter().map(|x| x.to_string()).collect::<Vec<_>>().join(","));
        if !m.contains(&format!(" {impl_line} ")) || !m.contains("trace_matches_generated_order=1") || !m.starts_with("complete=1") {
            rep.disagreement("delivered frames / point trace vs generated order", case.clone(), &impl_line, &m);
        }
        let want: Vec<u64> = (0..n as u64).collect();
        if out.delivered != want {
            let what = if out.delivered.len() < n { "frame(s) missing at the join" } else { "frame(s) duplicated or out of order" };
            rep.oracle_failure(
                &format!("C06|join|{:?}|{}", kind, if out.delivered.len() < n { "lost" } else { "dup-or-order" }),
                &format!("{kind:?} stream of {n} frames, schedule {sched_text}: delivered {:?} — {what}", out.delivered),
                case.clone(),
            );
        }
        rep.count(&format!("kind_{kind:?}"));
        let first_s = acts.iter().position(|c| *c == 's').unwrap_or(0);
        if first_s > 0 && acts[first_s..].iter().any(|c| *c == 'p') {
            rep.nontrivial_case(&format!("{kind:?}|{n}|{sched_text}"));
        }
        rep.sample(case);
    }
    rep
}
