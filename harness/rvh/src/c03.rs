//! C03: wire round trip of every frame type (vs the Lean schema interpreter `Rip.Wire` instantiated
//! with the regenerated schema) and agreement of the four views of a history.
use crate::common::*;
use crate::store::*;
use rip_kernel::Event;
use serde_json::{json, Map, Value};
use std::collections::BTreeMap;

fn schema() -> Value {
    let text = std::fs::read_to_string("/verif/.build/gen.json").expect("gen.json (run ripx)");
    serde_json::from_str::<Value>(&text).unwrap()["schema"].clone()
}

const STRS: &[&str] = &["", "a", "héllo", "日本語", "🙂", "line\nbreak", "quote\"q", "tab\t", "\u{0}", "back\\slash"];

fn gen_string(rng: &mut Rng) -> String {
    match rng.below(12) {
        0 => "x".repeat(rng.range(1000, 60_000) as usize),
        _ => {
            let n = rng.below(4);
            (0..n).map(|_| *rng.pick(STRS)).collect()
        }
    }
}

fn gen_json(rng: &mut Rng, depth: u32, floats: bool) -> Value {
    if depth == 0 {
        return match rng.below(7) {
            0 => Value::Null,
            1 => json!(rng.chance(1, 2)),
            2 => json!(rng.next()),
            3 => json!(-(rng.below(1 << 40) as i64)),
            4 if floats => json!(f64::from_bits(rng.next() & 0x7FEF_FFFF_FFFF_FFFF)),
            _ => json!(gen_string(rng)),
        };
    }
    match rng.below(5) {
        0 => Value::Array((0..rng.below(4)).map(|_| gen_json(rng, depth - 1, floats)).collect()),
        1 | 2 => {
            let mut m = Map::new();
            for _ in 0..rng.below(4) {
                m.insert(gen_string(rng), gen_json(rng, depth - 1, floats));
            }
            Value::Object(m)
        }
        _ => gen_json(rng, 0, floats),
    }
}

fn nested(depth: usize) -> Value {
    let mut v = json!(1);
    for _ in 0..depth {
        v = json!([v]);
    }
    v
}

/// a type-correct value for a Rust field type (as printed by ripx)
fn gen_typed(rng: &mut Rng, ty: &str, floats: bool) -> Value {
    let inner = |ty: &str, pre: &str| ty.strip_prefix(pre).and_then(|r| r.strip_suffix('>')).map(|s| s.to_string());
    if let Some(t) = inner(ty, "Option<") {
        return if rng.chance(1, 3) { Value::Null } else { gen_typed(rng, &t, floats) };
    }
    if let Some(t) = inner(ty, "Vec<") {
        return Value::Array((0..rng.below(3)).map(|_| gen_typed(rng, &t, floats)).collect());
    }
    match ty {
        "String" => json!(gen_string(rng)),
        "u64" => json!(*rng.pick(&[0u64, 1, 42, u32::MAX as u64, u64::MAX, 1 << 53])),
        "u32" => json!(*rng.pick(&[0u32, 1, 7, u32::MAX])),
        "u16" => json!(*rng.pick(&[0u16, 200, 404, u16::MAX])),
        "i32" => json!(*rng.pick(&[0i32, -1, 1, i32::MIN, i32::MAX])),
        "bool" => json!(rng.chance(1, 2)),
        "Value" => {
            let d = rng.below(4) as u32;
            gen_json(rng, d, floats)
        }
        "ProviderEventStatus" => json!(*rng.pick(&["event", "done", "invalid_json"])),
        "ToolTaskExecutionMode" => json!(*rng.pick(&["pipes", "pty"])),
        "ToolTaskStatus" => json!(*rng.pick(&["queued", "running", "exited", "cancelled", "failed"])),
        "ToolTaskStream" => json!(*rng.pick(&["stdout", "stderr", "pty"])),
        "CheckpointAction" => json!(*rng.pick(&["create", "rewind"])),
        "CompactionPlannedCutPoint" => json!({"target_message_ordinal": rng.below(100), "to_seq": rng.below(1000), "to_message_id": gen_string(rng)}),
        "ContextSelectionCompactionCheckpointV1" => json!({"checkpoint_id": gen_string(rng), "summary_kind": "cumulative_v1", "summary_artifact_id": "ab".repeat(32), "to_seq": rng.below(1000)}),
        "ContextSelectionResetV1" => {
            let mut v = json!({"input": gen_string(rng), "action": "reset", "reason": gen_string(rng)});
            if rng.chance(1, 2) {
                // nested structs are opaque values in the model: generate their normalised wire form
                // (an absent `ref`, never `ref: null`, which the nested skip_serializing_if would drop)
                let r = gen_json(rng, 1, floats);
                if !r.is_null() {
                    v["ref"] = r;
                }
            }
            v
        }
        other => panic!("c03: field type {other} not known to the generator (extend gen_typed)"),
    }
}

fn wire_log_dir() -> std::path::PathBuf {
    std::path::PathBuf::from("/verif/.build/run").join(format!("c03-wirelog-{}", std::process::id()))
}

struct Names {
    table: Vec<String>,
}
impl Names {
    fn id(&self, k: &str) -> usize {
        self.table.iter().position(|n| n == k).unwrap_or(900_000 + (fnv(k.as_bytes()) % 1000) as usize)
    }
}

fn pairs_line(obj: &Map<String, Value>, names: &Names) -> Vec<(usize, String)> {
    let mut v: Vec<(usize, String)> = obj
        .iter()
        .map(|(k, val)| {
            let text = if k == "type" {
                format!("#tag:{}", val.as_str().map(|t| names.id(t).to_string()).unwrap_or("?".into()))
            } else {
                serde_json::to_string(val).unwrap()
            };
            (names.id(k), text)
        })
        .collect();
    v.sort();
    v
}

fn wire_cases(rep: &mut Report, model: &mut Model, rng: &mut Rng, n: u64) {
    let schema = schema();
    let names = Names { table: schema["names"].as_array().unwrap().iter().map(|x| x.as_str().unwrap().to_string()).collect() };
    let variants = schema["variants"].as_array().unwrap().clone();
    for case_no in 0..n {
        // every variant in turn, then random
        let v = if (case_no as usize) < variants.len() * 3 { &variants[case_no as usize % variants.len()] } else { rng.pick(&variants) };
        let floats = rng.chance(1, 3);
        let mut obj = Map::new();
        obj.insert("id".into(), json!(gen_string(rng)));
        obj.insert("session_id".into(), json!(gen_string(rng)));
        obj.insert("timestamp_ms".into(), json!(rng.below(1 << 45)));
        obj.insert("seq".into(), json!(rng.below(1 << 20)));
        if rng.chance(1, 2) {
            // whatever a writer (or a foreign tool) put there is ignored on read and recomputed on write
            obj.insert("stream_kind".into(), json!(*rng.pick(&["session", "task", "continuity", "artifact"])));
            obj.insert("stream_id".into(), json!("other"));
        }
        let tags: Vec<String> = std::iter::once(v["tag"].as_str().unwrap().to_string()).chain(v["aliases"].as_array().unwrap().iter().map(|a| a.as_str().unwrap().to_string())).collect();
        obj.insert("type".into(), json!(rng.pick(&tags)));
        for f in v["fields"].as_array().unwrap() {
            let keys: Vec<String> = std::iter::once(f["name"].as_str().unwrap().to_string()).chain(f["aliases"].as_array().unwrap().iter().map(|a| a.as_str().unwrap().to_string())).collect();
            let optional = f["option"].as_bool().unwrap() || f["default"].as_bool().unwrap();
            let present = if optional { rng.chance(2, 3) } else { !rng.chance(1, 40) };
            if present {
                obj.insert(rng.pick(&keys).clone(), gen_typed(rng, f["ty"].as_str().unwrap(), floats));
            }
        }
        if rng.chance(1, 4) {
            obj.insert("unknown_extra".into(), gen_json(rng, 1, false));
        }
        rep.evaluations += 1;
        let case = json!({"variant": v["ident"], "object_keys": obj.keys().collect::<Vec<_>>()});
        // --- real serde: read, write, and the full write/read cycle through text
        let real = serde_json::from_value::<Event>(Value::Object(obj.clone()));
        let impl_line = match &real {
            Err(_) => "reject".to_string(),
            Ok(ev) => {
                let text = serde_json::to_string(ev).unwrap();
                let back: Value = serde_json::from_str(&text).unwrap_or(Value::Null);
                let p = pairs_line(back.as_object().unwrap_or(&Map::new()), &names);
                // oracle: survives a write/read round trip without losing or altering a field
                match serde_json::from_str::<Event>(&text) {
                    Err(e) => rep.oracle_failure("C03|written-frame-unreadable", &format!("{}: a frame that was written cannot be read back: {e}", v["ident"]), case.clone()),
                    Ok(ev2) => {
                        let text2 = serde_json::to_string(&ev2).unwrap();
                        if text2 != text {
                            let sig = if floats { "C03|roundtrip-alters-field|float" } else { "C03|roundtrip-alters-field" };
                            rep.oracle_failure(sig, &format!("{}: write/read/write changes the frame", v["ident"]), json!({"variant": v["ident"], "first": text.chars().take(400).collect::<String>(), "second": text2.chars().take(400).collect::<String>()}));
                        }
                        if ev2.stream_kind() != ev.stream_kind() || ev2.stream_id() != ev.stream_id() {
                            rep.oracle_failure("C03|stream-changed", "a frame is assigned to a different stream when read back", case.clone());
                        }
                    }
                }
                // oracle: a frame whose append has returned is on disk - a replay by anybody else (a second
                // handle, the next authority) reproduces it; whatever its kind, it does not wait in the
                // writer's buffer for some later frame
                {
                    static WIRE_LOG: std::sync::OnceLock<(rip_log::EventLog, std::path::PathBuf)> = std::sync::OnceLock::new();
                    let (log, path) = WIRE_LOG.get_or_init(|| {
                        let dir = wire_log_dir();
                        let _ = std::fs::remove_dir_all(&dir);
                        std::fs::create_dir_all(&dir).unwrap();
                        let path = dir.join("events.jsonl");
                        (rip_log::EventLog::new(&path).expect("wire log"), path)
                    });
                    let before = std::fs::metadata(path).map(|m| m.len()).unwrap_or(0);
                    if log.append(ev).is_ok() {
                        let after = std::fs::metadata(path).map(|m| m.len()).unwrap_or(0);
                        rep.count("appended_then_looked_for_on_disk");
                        if after != before + text.len() as u64 + 1 {
                            rep.oracle_failure("C03|appended-frame-not-on-disk", &format!("{}: append returned, the frame has {} bytes, the log file grew by {}", v["ident"], text.len() + 1, after - before), case.clone());
                        }
                        if after > 64 * 1024 * 1024 {
                            let _ = std::fs::write(path, b"");
                        }
                    }
                }
                format!("ok {} {}", p.len(), p.iter().map(|(k, t)| format!("{k} {}", hex(t.as_bytes()))).collect::<Vec<_>>().join(" "))
            }
        };
        // --- model
        let input = pairs_line(&obj, &names);
        let m = model.ask(&format!("c03 {} {}", input.len(), input.iter().map(|(k, t)| format!("{k} {}", hex(t.as_bytes()))).collect::<Vec<_>>().join(" ")));
        let m_canon = if m == "reject" {
            m.clone()
        } else {
            // "ok variant=.. stream=.. n pairs" → sort pairs
            let toks: Vec<&str> = m.split(' ').collect();
            let mut p: Vec<(usize, String)> = toks[4..].chunks(2).filter(|c| c.len() == 2).map(|c| (c[0].parse().unwrap_or(0), c[1].to_string())).collect();
            p.sort();
            format!("ok {} {}", p.len(), p.iter().map(|(k, t)| format!("{k} {t}")).collect::<Vec<_>>().join(" "))
        };
        // floats may legitimately differ in text on the real side; compare modulo float payloads by skipping float cases
        if !floats && m_canon != impl_line {
            let (a, b): (Vec<&str>, Vec<&str>) = (impl_line.split(' ').collect(), m_canon.split(' ').collect());
            let k = a.iter().zip(b.iter()).position(|(x, y)| x != y).unwrap_or(a.len().min(b.len()));
            rep.notes.push(format!("first difference at token {k}: impl={:?} model={:?} (lens {} {})", a.get(k).map(|x| &x[..x.len().min(120)]), b.get(k).map(|x| &x[..x.len().min(120)]), a.len(), b.len()));
            rep.disagreement("decode then encode", json!({"variant": v["ident"], "object": Value::Object(obj.clone()).to_string().chars().take(600).collect::<String>()}), &impl_line.chars().take(500).collect::<String>(), &m_canon.chars().take(500).collect::<String>());
        }
        rep.count(if real.is_ok() { "accepted" } else { "rejected" });
        if real.is_ok() {
            rep.nontrivial_case(&format!("{}|{}", v["ident"], fnv(impl_line.as_bytes())));
        }
        if case_no < 2 {
            rep.sample(json!({"variant": v["ident"], "object": Value::Object(obj)}));
        }
    }
    // depth: the deepest payload the system can ingest from a provider event or a tool call
    for depth in [100usize, 120, 125, 126, 127] {
        let payload = nested(depth);
        // ingestion limit of serde_json (what a provider / tool-call argument parse accepts)
        let ingest_ok = serde_json::from_str::<Value>(&serde_json::to_string(&payload).unwrap()).is_ok();
        if !ingest_ok {
            continue;
        }
        let ev = Event { id: "e".into(), session_id: "s".into(), timestamp_ms: 0, seq: 0, kind: rip_kernel::EventKind::ToolStarted { tool_id: "t".into(), name: "n".into(), args: payload, timeout_ms: None } };
        let text = serde_json::to_string(&ev).unwrap();
        rep.evaluations += 1;
        if let Err(e) = serde_json::from_str::<Event>(&text) {
            rep.oracle_failure("C03|written-frame-unreadable|depth", &format!("a tool_started frame whose args nest {depth} deep (accepted at ingestion) is written but cannot be read back: {e}"), json!({"depth": depth}));
        }
        rep.count("depth_cases");
    }
}

/// live frames, log replay, sidecar and (for sessions) snapshot hold the same frames
fn view_cases(rep: &mut Report, rng: &mut Rng, n: u64) {
    for case_no in 0..n {
        let ts = TestStore::new("c03v");
        let mut rx = ts.store.subscribe();
        let t = ts.store.ensure_default().unwrap();
        let mut msgs = Vec::new();
        let k = rng.range(3, 30) as usize;
        // one case in three loses the rebuildable caches while the store is running, between two
        // appends (the next seq is in memory): the views must still be the log's frames
        let lose = rng.chance(1, 3);
        if lose {
            let k1 = rng.range(1, k as u64 - 1) as usize;
            random_history(&ts.store, &t, rng, k1, &mut msgs);
            if rng.chance(1, 2) {
                let _ = std::fs::remove_dir_all(ts.data_dir.join("continuity_streams"));
            } else {
                let _ = std::fs::remove_file(ts.data_dir.join("continuity_streams").join(format!("{t}.jsonl")));
            }
            rep.count("view_cases_with_caches_lost_mid_history");
            // at least one append right after the loss, before anything reads
            let _ = ts.store.append_message(&t, "u".into(), "cli".into(), "first append after the loss".into());
            random_history(&ts.store, &t, rng, k - k1, &mut msgs);
        } else {
            random_history(&ts.store, &t, rng, k, &mut msgs);
        }
        if rng.chance(1, 2) {
            let _ = ts.store.compaction_auto_v1(&t, ripd::CompactionAutoV1Request { stride_messages: Some(2), max_new_checkpoints: Some(2), dry_run: Some(false), actor_id: "u".into(), origin: "cli".into() });
        }
        let mut live: Vec<Value> = Vec::new();
        while let Ok(ev) = rx.try_recv() {
            if ev.session_id == t {
                live.push(serde_json::to_value(&ev).unwrap());
            }
        }
        let from_log: Vec<Value> = ts.frames().into_iter().filter(|f| f["session_id"].as_str() == Some(t.as_str())).collect();
        let replayed: Vec<Value> = ts.store.replay_events(&t).unwrap_or_default().iter().map(|e| serde_json::to_value(e).unwrap()).collect();
        let sidecar: Vec<Value> = read_frames(&ts.data_dir.join("continuity_streams").join(format!("{t}.jsonl")));
        rep.evaluations += 1;
        rep.traces_validated += 1;
        let case = json!({"case": case_no, "frames": from_log.len(), "caches_lost_mid_history": lose});
        if live != from_log {
            rep.oracle_failure("C03|live-vs-log", &format!("live subscriber saw {} frames, the log holds {}", live.len(), from_log.len()), case.clone());
        }
        if replayed != from_log {
            rep.oracle_failure("C03|replay-vs-log", "replay_events differs from the log", case.clone());
        }
        if sidecar != from_log {
            rep.oracle_failure("C03|sidecar-vs-log", "the per-continuity sidecar differs from the log", case.clone());
        }
        rep.count("view_cases");
        rep.nontrivial_case(&format!("views|{case_no}|{}", from_log.len()));
    }
    let _ = BTreeMap::<u8, u8>::new();
}


/// sessions and tasks: the frames a live subscriber received, the log, the snapshot written at the
/// end of the run, and the history the SSE endpoint replays afterwards are the same frames
fn session_task_view_cases(rep: &mut Report, rng: &mut Rng, n: u64) {
    use crate::http::*;
    for case_no in 0..n {
        let scratch = Scratch::new("c03s");
        let data_dir = scratch.path().join("data");
        let ws = scratch.path().join("ws");
        std::fs::create_dir_all(&ws).unwrap();
        std::fs::write(ws.join("seed.txt"), "seed é 日本\n").unwrap();
        let rt = tokio::runtime::Builder::new_multi_thread().worker_threads(2).enable_all().build().unwrap();
        let app = ripd::verif_export::VerifApp::new(data_dir.clone(), ws.clone());
        let engine = app.engine();
        let is_task = rng.chance(1, 3);
        let input = match rng.below(5) {
            0 => json!({"tool": "bash", "args": {"command": "printf 'out é'; printf 'err 1.5e300 \\n' >&2; exit 3", "cwd": "."}}).to_string(),
            1 => json!({"tool": "write", "args": {"path": "w.txt", "content": "x\u{0}y"}}).to_string(),
            2 => json!({"tool": "grep", "args": {"pattern": "seed"}}).to_string(),
            3 => json!({"checkpoint": {"action": "create", "label": "l é", "files": ["seed.txt"]}}).to_string(),
            _ => "plain prompt with unicode 🙂 and a float 0.1".to_string(),
        };
        let (stream_id, live): (String, Vec<Value>) = rt.block_on(async {
            if is_task {
                let (_, v) = call_json(&app.router, "POST", "/tasks", Some(json!({"tool": "bash", "args": {"command": "printf 'a é'; printf b >&2; sleep 0.05; printf '\\377c'", "cwd": "."}}))).await;
                let id = v["task_id"].as_str().unwrap_or("").to_string();
                let live = sse_collect(&app.router, &format!("/tasks/{id}/events"), 4000, |v| v["type"] == "tool_task_status" && matches!(v["status"].as_str(), Some("exited") | Some("failed") | Some("cancelled"))).await;
                (id, live)
            } else {
                let h = engine.create_session();
                let id = h.session_id.clone();
                let mut rx = h.subscribe();
                engine.spawn_session(h, input.clone(), None, None);
                let mut live = Vec::new();
                let deadline = tokio::time::Instant::now() + std::time::Duration::from_secs(10);
                loop {
                    match tokio::time::timeout_at(deadline, rx.recv()).await {
                        Ok(Ok(ev)) => {
                            let v = serde_json::to_value(&ev).unwrap();
                            let end = v["type"] == "session_ended";
                            live.push(v);
                            if end {
                                break;
                            }
                        }
                        _ => break,
                    }
                }
                (id, live)
            }
        });
        // let the snapshot writer finish
        std::thread::sleep(std::time::Duration::from_millis(60));
        let from_log: Vec<Value> = read_frames(&data_dir.join("events.jsonl")).into_iter().filter(|f| f["session_id"].as_str() == Some(stream_id.as_str())).collect();
        rep.evaluations += 1;
        rep.traces_validated += 1;
        rep.count(if is_task { "task_view_cases" } else { "session_view_cases" });
        rep.nontrivial_case(&format!("sviews|{case_no}|{}|{}", is_task, from_log.len()));
        let case = json!({"case": case_no, "task": is_task, "input": if is_task { Value::Null } else { json!(input) }, "frames": from_log.len()});
        if live != from_log {
            rep.oracle_failure(if is_task { "C03|task|live-vs-log" } else { "C03|session|live-vs-log" }, &format!("the live subscriber received {} frames, the log holds {} (or they differ in content)", live.len(), from_log.len()), case.clone());
        }
        if !is_task {
            let snap_path = data_dir.join("snapshots").join(format!("{stream_id}.json"));
            let snap: Vec<Value> = std::fs::read(&snap_path).ok().and_then(|b| serde_json::from_slice::<Vec<Value>>(&b).ok()).unwrap_or_default();
            if snap != from_log {
                rep.oracle_failure("C03|session|snapshot-vs-log", &format!("the snapshot holds {} frames, the log {} (or they differ in content)", snap.len(), from_log.len()), case.clone());
            }
        }
        // a subscriber that attaches after the end gets the whole history again
        let uri = if is_task { format!("/tasks/{stream_id}/events") } else { format!("/sessions/{stream_id}/events") };
        if is_task || rt.block_on(async { call(&app.router, "GET", &format!("/sessions/{stream_id}/events"), None).await.0 }) != axum::http::StatusCode::NOT_FOUND {
            let late = rt.block_on(async { sse_collect(&app.router, &uri, 400, |v| v["type"] == "session_ended").await });
            if is_task && late != from_log {
                rep.oracle_failure("C03|task|late-subscriber-vs-log", &format!("a late subscriber received {} frames, the log holds {}", late.len(), from_log.len()), case.clone());
            }
        }
        drop(app);
        drop(rt);
    }
}

pub fn run(opts: &Opts) -> Report {
    let mut rep = Report::new(
        "C03",
        "wire: for every frame type of the regenerated schema, input objects with type-correct random values (unicode, 60 KB strings, nested JSON, u64::MAX, floats, legacy aliases on tags and fields, optional fields absent / null / present, defaulted fields absent, unknown extra keys, missing required fields) through real serde (read, write, write/read/write cycle through text) and through the Lean schema interpreter; payload depth 100-127; history: continuity histories with a live subscriber, comparing live frames, the log, replay_events and the sidecar frame for frame at wire level; session runs (tool envelopes, checkpoint envelopes, prompts) and background tasks: live subscriber vs log vs end-of-run snapshot vs late SSE subscriber; non-trivial = accepted object, distinct by (variant, canonical output)",
    );
    let mut model = Model::spawn();
    let mut rng = Rng::new(opts.seed);
    wire_cases(&mut rep, &mut model, &mut rng, if opts.thorough { 40_000 } else { 4_000 } * opts.scale);
    view_cases(&mut rep, &mut rng, if opts.thorough { 300 } else { 40 } * opts.scale);
    session_task_view_cases(&mut rep, &mut rng, if opts.thorough { 200 } else { 24 } * opts.scale);
    let _ = std::fs::remove_dir_all(wire_log_dir());
    rep
}
