//! Shared pieces of the correspondence harness: PRNG, hex, model driver pipe, report.
use serde_json::{json, Value};
use std::collections::{BTreeMap, BTreeSet};
use std::io::{BufRead, BufReader, Write};
use std::process::{Child, ChildStdin, ChildStdout, Command, Stdio};

/// SplitMix64: every random choice of a run derives from one state.
#[derive(Clone)]
pub struct Rng(pub u64);

impl Rng {
    pub fn new(seed: u64) -> Self {
        Rng(seed ^ 0x9E37_79B9_7F4A_7C15)
    }
    pub fn next(&mut self) -> u64 {
        self.0 = self.0.wrapping_add(0x9E37_79B9_7F4A_7C15);
        let mut z = self.0;
        z = (z ^ (z >> 30)).wrapping_mul(0xBF58_476D_1CE4_E5B9);
        z = (z ^ (z >> 27)).wrapping_mul(0x94D0_49BB_1331_11EB);
        z ^ (z >> 31)
    }
    pub fn below(&mut self, n: u64) -> u64 {
        if n == 0 {
            0
        } else {
            self.next() % n
        }
    }
    pub fn range(&mut self, lo: u64, hi: u64) -> u64 {
        lo + self.below(hi - lo + 1)
    }
    pub fn chance(&mut self, num: u64, den: u64) -> bool {
        self.below(den) < num
    }
    pub fn pick<'a, T>(&mut self, xs: &'a [T]) -> &'a T {
        &xs[self.below(xs.len() as u64) as usize]
    }
    pub fn fork(&mut self) -> Rng {
        Rng(self.next())
    }
}

pub fn hex(b: &[u8]) -> String {
    if b.is_empty() {
        "-".to_string()
    } else {
        hex::encode(b)
    }
}

pub fn opt_u64(v: Option<u64>) -> String {
    match v {
        Some(x) => x.to_string(),
        None => "_".to_string(),
    }
}

pub fn opt_hex(v: Option<&[u8]>) -> String {
    match v {
        Some(x) => hex(x),
        None => "_".to_string(),
    }
}

/// The Lean model driver (`ripmodel`), one case line in, one observation line out.
pub struct Model {
    child: Child,
    stdin: ChildStdin,
    stdout: BufReader<ChildStdout>,
}

impl Model {
    pub fn spawn() -> Self {
        let path = std::env::var("RIPMODEL")
            .unwrap_or_else(|_| "/verif/lean/.lake/build/bin/ripmodel".to_string());
        let mut child = Command::new(&path)
            .stdin(Stdio::piped())
            .stdout(Stdio::piped())
            .spawn()
            .unwrap_or_else(|e| panic!("cannot start model driver {path}: {e}"));
        let stdin = child.stdin.take().unwrap();
        let stdout = BufReader::new(child.stdout.take().unwrap());
        Model {
            child,
            stdin,
            stdout,
        }
    }
    pub fn ask(&mut self, line: &str) -> String {
        debug_assert!(!line.contains('\n'));
        self.stdin.write_all(line.as_bytes()).unwrap();
        self.stdin.write_all(b"\n").unwrap();
        self.stdin.flush().unwrap();
        let mut out = String::new();
        self.stdout.read_line(&mut out).unwrap();
        while out.ends_with('\n') || out.ends_with('\r') {
            out.pop();
        }
        out
    }
}

impl Drop for Model {
    fn drop(&mut self) {
        let _ = self.child.kill();
        let _ = self.child.wait();
    }
}

/// What a harness run reports to the `check` driver.
#[derive(Default)]
pub struct Report {
    pub property: String,
    pub evaluations: u64,
    pub nontrivial: BTreeSet<u64>,
    pub rule: String,
    pub samples: Vec<Value>,
    pub distribution: BTreeMap<String, u64>,
    /// model vs implementation disagreements
    pub disagreements: Vec<Value>,
    /// implementation violates the property's oracle (independent of the model)
    pub oracle_failures: Vec<Value>,
    pub traces_validated: u64,
    pub notes: Vec<String>,
}

impl Report {
    pub fn new(property: &str, rule: &str) -> Self {
        Report {
            property: property.to_string(),
            rule: rule.to_string(),
            ..Default::default()
        }
    }
    pub fn count(&mut self, key: &str) {
        *self.distribution.entry(key.to_string()).or_insert(0) += 1;
    }
    pub fn count_n(&mut self, key: &str, n: u64) {
        *self.distribution.entry(key.to_string()).or_insert(0) += n;
    }
    pub fn sample(&mut self, v: Value) {
        if self.samples.len() < 3 {
            self.samples.push(v);
        }
    }
    pub fn nontrivial_case(&mut self, canonical: &str) {
        self.nontrivial.insert(fnv(canonical.as_bytes()));
    }
    /// `signature` is the class used to match known findings.
    pub fn oracle_failure(&mut self, signature: &str, what: &str, case: Value) {
        // keep a few examples of every signature (a flood of one — e.g. a known finding — must not
        // crowd out another)
        let same = self.oracle_failures.iter().filter(|f| f["signature"] == signature).count();
        *self.distribution.entry(format!("oracle_failures_total")).or_insert(0) += 1;
        if same < 4 && self.oracle_failures.len() < 4000 {
            self.oracle_failures
                .push(json!({"signature": signature, "what": what, "case": case}));
        }
    }
    pub fn disagreement(&mut self, what: &str, case: Value, imp: &str, model: &str) {
        if self.disagreements.len() < 50 {
            self.disagreements
                .push(json!({"what": what, "case": case, "impl": imp, "model": model}));
        }
    }
    pub fn to_json(&self) -> Value {
        json!({
            "property": self.property,
            "evaluations": self.evaluations,
            "distinct_nontrivial": self.nontrivial.len(),
            "rule": self.rule,
            "samples": self.samples,
            "distribution": self.distribution,
            "disagreements": self.disagreements,
            "oracle_failures": self.oracle_failures,
            "traces_validated_against_impl": self.traces_validated,
            "notes": self.notes,
        })
    }
}

pub fn fnv(b: &[u8]) -> u64 {
    let mut h: u64 = 0xcbf29ce484222325;
    for x in b {
        h ^= *x as u64;
        h = h.wrapping_mul(0x100000001b3);
    }
    h
}

pub struct Opts {
    pub seed: u64,
    pub thorough: bool,
    pub out: Option<String>,
    pub replay: Option<String>,
    pub scale: u64,
}

/// Per-run scratch directory under /verif/.build (never /tmp), removed on drop.
pub struct Scratch(pub std::path::PathBuf);

impl Scratch {
    pub fn new(tag: &str) -> Self {
        static N: std::sync::atomic::AtomicU64 = std::sync::atomic::AtomicU64::new(0);
        let n = N.fetch_add(1, std::sync::atomic::Ordering::SeqCst);
        let base = std::env::var("VERIF_SCRATCH").unwrap_or_else(|_| "/verif/.build/run".to_string());
        let p = std::path::PathBuf::from(base).join(format!("{}-{}-{}", tag, std::process::id(), n));
        let _ = std::fs::remove_dir_all(&p);
        std::fs::create_dir_all(&p).unwrap();
        Scratch(p)
    }
    pub fn path(&self) -> &std::path::Path {
        &self.0
    }
}

impl Drop for Scratch {
    fn drop(&mut self) {
        let _ = std::fs::remove_dir_all(&self.0);
    }
}
