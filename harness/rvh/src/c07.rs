//! C07: run lifecycle frames are complete, unique and causally ordered.
//! Real runs through the HTTP router (thread API and session API) against a scripted loopback
//! provider that misbehaves in every way the property lists; the log is then read back and
//!  (1) checked by implementation oracles written independently of the model (grammar of the
//!      thread's view of each run, session stream shape, run_ended after the terminal frame, ...);
//!  (2) compared with the Lean model `Rip.RunLife.trace`: the run is abstracted from its session
//!      frames, the model predicts where every thread frame must sit among them.
use crate::c16::{build_sse, gen_response, Ev};
use crate::common::*;
use crate::http::*;
use crate::provider::*;
use crate::store::read_frames;
use serde_json::{json, Value};
use std::collections::BTreeMap;

fn exempt_tools() -> Vec<String> {
    let text = std::fs::read_to_string("/verif/.build/gen.json").expect("gen.json (run ripx)");
    let v: Value = serde_json::from_str(&text).unwrap();
    v["lock_table"]["exempt"].as_array().map(|a| a.iter().filter_map(|x| x.as_str().map(|s| s.to_string())).collect()).unwrap_or_else(|| vec!["read".into(), "ls".into(), "grep".into(), "artifact_fetch".into()])
}

fn wild_response(rng: &mut Rng, serial: &mut u64, last: bool) -> (Resp, &'static str) {
    let ncalls = if last && rng.chance(2, 3) { 0 } else { rng.below(3) as usize };
    let wild = rng.chance(1, 4);
    let events: Vec<Ev> = gen_response(rng, serial, ncalls, wild, &["ls", "grep", "read", "write", "nope", "write!", "read?", "bash", "apply_patch", "apply_patch"]);
    let rid = format!("resp_{serial}");
    let has_id = rng.chance(5, 6);
    let mut body = build_sse(rng, &events, if has_id { Some(&rid) } else { None }, true, &[]);
    let chunk = *rng.pick(&[0usize, 0, 5, 33]);
    match rng.below(16) {
        0 => (Resp::Http { status: *rng.pick(&[400u16, 401, 429, 500, 503]), body: "{\"error\":{\"message\":\"boom\"}}".into() }, "http-error"),
        1 => (Resp::Drop, "drop"),
        2 => {
            let cut = rng.below(body.len() as u64 + 1) as usize;
            (Resp::Sse { body, chunk, cut_at: Some(cut) }, "cut-at-byte")
        }
        3 => (Resp::Sse { body: Vec::new(), chunk: 0, cut_at: None }, "empty-body"),
        4 => {
            // missing [DONE]
            let text = String::from_utf8(body).unwrap().replace("data: [DONE]\n\n", "");
            (Resp::Sse { body: text.into_bytes(), chunk, cut_at: None }, "no-done")
        }
        5 => {
            // malformed JSON in the middle
            let text = String::from_utf8(body).unwrap();
            let junk = "event: response.output_text.delta\ndata: {not json at all\n\n";
            let pos = text.find("\n\n").map(|p| p + 2).unwrap_or(0);
            let text = format!("{}{}{}", &text[..pos], junk, &text[pos..]);
            (Resp::Sse { body: text.into_bytes(), chunk, cut_at: None }, "malformed-json")
        }
        6 => {
            // schema-invalid events
            let junk = format!("{}{}", sse(&json!({"type": "response.output_text.delta"})), sse(&json!({"type": "response.unknown_event", "x": 1})));
            let mut b = junk.into_bytes();
            b.append(&mut body);
            (Resp::Sse { body: b, chunk, cut_at: None }, "schema-invalid")
        }
        7 => {
            // invalid UTF-8 and a very long line
            let mut b = b"data: \xff\xfe\n\n".to_vec();
            b.extend_from_slice(format!(": {}\n\n", "x".repeat(20_000)).as_bytes());
            b.append(&mut body);
            (Resp::Sse { body: b, chunk, cut_at: None }, "bad-utf8")
        }
        _ => (Resp::Sse { body, chunk, cut_at: None }, "ok"),
    }
}

#[derive(Clone, Debug)]
enum Posted {
    Prompt,
    Tool(Value),
    Checkpoint(Value),
}

fn gen_input(rng: &mut Rng, k: u64) -> (Posted, String) {
    match rng.below(10) {
        0 => {
            let v = json!({"tool": "write", "args": {"path": format!("t{k}.txt"), "content": "x"}});
            (Posted::Tool(v.clone()), v.to_string())
        }
        1 => {
            let v = json!({"tool": "bash", "args": {"command": "sleep 1", "cwd": "."}, "timeout_ms": 80});
            (Posted::Tool(v.clone()), v.to_string())
        }
        2 => {
            let v = json!({"tool": *rng.pick(&["nope", "ls", "read"]), "args": {"path": *rng.pick(&[".", "seed.txt", "missing.txt"])}});
            (Posted::Tool(v.clone()), v.to_string())
        }
        3 => {
            let v = json!({"tool": "write", "args": {"bogus": true}});
            (Posted::Tool(v.clone()), v.to_string())
        }
        6 | 7 => {
            // apply_patch with patches as models write them (well formed, failing, malformed)
            let patch = rng.pick(crate::c16::PATCHES).replace("{k}", &k.to_string());
            let v = json!({"tool": "apply_patch", "args": {"patch": patch}});
            (Posted::Tool(v.clone()), v.to_string())
        }
        4 => {
            let v = json!({"checkpoint": {"action": "create", "label": "l", "files": ["seed.txt"]}});
            (Posted::Checkpoint(v.clone()), v.to_string())
        }
        5 => {
            let v = json!({"checkpoint": {"action": "rewind", "id": "no-such-checkpoint"}});
            (Posted::Checkpoint(v.clone()), v.to_string())
        }
        _ => (Posted::Prompt, format!("please do thing {k}")),
    }
}

fn thread_letter(f: &Value) -> Option<char> {
    Some(match f["type"].as_str()? {
        "continuity_message_appended" => 'M',
        "continuity_run_spawned" => 'R',
        "continuity_context_selection_decided" => 'S',
        "continuity_context_compiled" => 'C',
        "continuity_tool_side_effects" => 'X',
        "continuity_provider_cursor_updated" => 'U',
        "continuity_run_ended" => 'E',
        _ => return None,
    })
}

fn session_letter(f: &Value) -> char {
    match f["type"].as_str().unwrap_or("") {
        "session_started" => 's',
        "session_ended" => 'e',
        // the kernel's own "ack" output; text streamed by a provider is a provider frame
        "output_text_delta" if f["delta"].as_str().map(|d| d.starts_with("ack: ")).unwrap_or(false) => 'o',
        "tool_started" | "tool_stdout" | "tool_stderr" | "tool_ended" | "tool_failed" | "checkpoint_created" | "checkpoint_rewound" | "checkpoint_failed" => 't',
        _ => 'p',
    }
}

/// independent acceptor of the thread's view of one run
fn grammar_ok(s: &str) -> bool {
    let b: Vec<char> = s.chars().collect();
    let mut i = 0;
    let mut eat = |c: char, i: &mut usize| -> bool {
        if b.get(*i) == Some(&c) {
            *i += 1;
            true
        } else {
            false
        }
    };
    if !eat('M', &mut i) || !eat('R', &mut i) {
        return false;
    }
    if eat('S', &mut i) && !eat('C', &mut i) {
        return false;
    }
    while eat('X', &mut i) {}
    eat('U', &mut i);
    eat('E', &mut i) && i == b.len()
}

struct RunView {
    posted: Posted,
    linked: bool,
    provider: bool,
    session_id: String,
    message_id: Option<String>,
}

fn abstract_run(rv: &RunView, session_frames: &[&Value], exempt: &[String]) -> String {
    let reason = session_frames.iter().rev().find(|f| f["type"] == "session_ended").and_then(|f| f["reason"].as_str()).unwrap_or("");
    let needs_lock = |name: &str| !exempt.iter().any(|e| e == name);
    // tool groups: tool_started .. (until next tool_started or a non-tool frame)
    let group = |frames: &[&Value]| -> Vec<(bool, bool, usize)> {
        // a tool's frames: everything from the end of the previous tool (tool_ended / tool_failed) up to
        // its own end frame — an automatic checkpoint frame precedes tool_started
        let mut out: Vec<(bool, bool, usize)> = Vec::new();
        let mut pending = 0usize;
        let mut open = false;
        for f in frames {
            if session_letter(f) != 't' {
                continue;
            }
            if f["type"] == "tool_started" {
                let name = f["name"].as_str().unwrap_or("");
                let barred = f["tool_id"].as_str().unwrap_or("").starts_with("tool_denied_");
                out.push((needs_lock(name), barred, pending));
                pending = 0;
                open = true;
            } else if open {
                if let Some(l) = out.last_mut() {
                    l.2 += 1;
                }
                if f["type"] == "tool_ended" || f["type"] == "tool_failed" {
                    open = false;
                }
            } else {
                pending += 1;
            }
        }
        out
    };
    let input = match &rv.posted {
        Posted::Prompt => "p".to_string(),
        Posted::Tool(_) => {
            let g = group(session_frames);
            let (l, _b, n) = g.first().cloned().unwrap_or((false, false, 0));
            format!("t {} 0 {}", l as u8, n)
        }
        Posted::Checkpoint(_) => format!("c {}", session_frames.iter().filter(|f| session_letter(f) == 't').count()),
    };
    let mut turns: Vec<String> = Vec::new();
    if matches!(rv.posted, Posted::Prompt) && rv.provider {
        // a turn starts at the first provider-side frame after tool frames (or at the beginning)
        let mut cur: Vec<&Value> = Vec::new();
        let mut seen_tool = false;
        let mut flush = |cur: &mut Vec<&Value>, turns: &mut Vec<String>| {
            if cur.is_empty() {
                return;
            }
            let pf = cur.iter().filter(|f| session_letter(f) == 'p').count();
            let g = group(cur);
            let mut s = format!("{} {}", pf, g.len());
            for (l, b, n) in g {
                s.push_str(&format!(" {} {} {}", l as u8, b as u8, if b { 0 } else { n }));
            }
            turns.push(s);
            cur.clear();
        };
        for f in session_frames {
            let c = session_letter(f);
            if c == 's' || c == 'e' || c == 'o' {
                continue;
            }
            if c == 'p' && seen_tool {
                flush(&mut cur, &mut turns);
                seen_tool = false;
            }
            if c == 't' {
                seen_tool = true;
            }
            cur.push(f);
        }
        flush(&mut cur, &mut turns);
    }
    let has_cursor = session_frames.iter().any(|f| f["type"] == "provider_event" && f["data"]["response"]["id"].as_str().map(|s| !s.is_empty()).unwrap_or(false));
    format!(
        "c07 {} {} {} {} {} {} {}{}{}",
        input,
        rv.linked as u8,
        rv.provider as u8,
        (reason != "context_compile_failed") as u8,
        (reason == "completed") as u8,
        has_cursor as u8,
        turns.len(),
        if turns.is_empty() { "" } else { " " },
        turns.join(" ")
    )
}

fn lifecycle_cases(rep: &mut Report, model: &mut Model, rng: &mut Rng, n: u64) {
    let exempt = exempt_tools();
    for case_no in 0..n {
        let scratch = Scratch::new("c07");
        let data_dir = scratch.path().join("data");
        let ws = scratch.path().join("ws");
        std::fs::create_dir_all(&ws).unwrap();
        std::fs::write(ws.join("seed.txt"), "seed\n").unwrap();
        let nruns = rng.range(1, 3) as usize;
        let parallel = nruns > 1 && rng.chance(1, 2);
        let mut serial = 0u64;
        let nresp = rng.range(2, 7);
        let mut kinds: Vec<&'static str> = Vec::new();
        let script: Vec<Resp> = (0..nresp)
            .map(|i| {
                let (r, k) = wild_response(rng, &mut serial, i + 1 == nresp);
                kinds.push(k);
                r
            })
            .collect();
        let provider = ScriptedProvider::start(script);
        let rt = tokio::runtime::Builder::new_multi_thread().worker_threads(4).enable_all().build().unwrap();
        let mut runs: Vec<RunView> = Vec::new();
        let thread_id;
        let inputs: Vec<(Posted, String, bool, bool)> = (0..nruns)
            .map(|k| {
                let (p, s) = gen_input(rng, k as u64);
                // linked = through the thread API; provider only reachable through the thread API override
                let linked = rng.chance(5, 6);
                let with_provider = linked && rng.chance(9, 10);
                (p, s, linked, with_provider)
            })
            .collect();
        let stateless = rng.chance(1, 3);
        let break_artifacts = rng.chance(1, 8);
        {
            let app = ripd::verif_export::VerifApp::new(data_dir.clone(), ws.clone());
            if break_artifacts {
                // the context bundle cannot be written: compilation fails for attached provider runs
                std::fs::create_dir_all(ws.join(".rip")).unwrap();
                let _ = std::fs::remove_dir_all(ws.join(".rip/artifacts"));
                std::fs::write(ws.join(".rip/artifacts"), b"not a directory").unwrap();
                rep.count("rounds_with_unwritable_artifact_store");
            }
            thread_id = rt.block_on(async {
                let (_, v) = call_json(&app.router, "POST", "/threads/ensure", None).await;
                v["thread_id"].as_str().unwrap_or("").to_string()
            });
            rt.block_on(async {
                let mut posts = Vec::new();
                for (posted, content, linked, with_provider) in inputs.iter().cloned() {
                    let router = app.router.clone();
                    let tid = thread_id.clone();
                    let endpoint = provider.endpoint.clone();
                    let fut = async move {
                        if linked {
                            let mut body = json!({"content": content});
                            if with_provider {
                                body["openresponses"] = json!({"endpoint": endpoint, "model": "m", "stateless_history": stateless});
                            }
                            let (_, v) = call_json(&router, "POST", &format!("/threads/{tid}/messages"), Some(body)).await;
                            RunView { posted, linked, provider: with_provider, session_id: v["session_id"].as_str().unwrap_or("").to_string(), message_id: v["message_id"].as_str().map(|s| s.to_string()) }
                        } else {
                            let (_, v) = call_json(&router, "POST", "/sessions", None).await;
                            let sid = v["session_id"].as_str().unwrap_or("").to_string();
                            let _ = call_json(&router, "POST", &format!("/sessions/{sid}/input"), Some(json!({"input": content}))).await;
                            RunView { posted, linked, provider: false, session_id: sid, message_id: None }
                        }
                    };
                    if parallel {
                        posts.push(tokio::spawn(fut));
                    } else {
                        let rv = fut.await;
                        wait_ended(&data_dir, &rv.session_id, rv.linked).await;
                        runs.push(rv);
                    }
                }
                for p in posts {
                    if let Ok(rv) = p.await {
                        runs.push(rv);
                    }
                }
                for rv in &runs {
                    wait_ended(&data_dir, &rv.session_id, rv.linked).await;
                }
            });
        }
        drop(rt);
        let frames = read_frames(&data_dir.join("events.jsonl"));
        rep.evaluations += 1;
        rep.count("lifecycle_cases");
        for k in &kinds {
            rep.count(&format!("provider_{k}"));
        }
        if parallel {
            rep.count("parallel_rounds");
        }
        for rv in &runs {
            let case = json!({"case": case_no, "input": format!("{:?}", rv.posted), "linked": rv.linked, "provider": rv.provider, "provider_script": kinds, "parallel": parallel, "session_id": rv.session_id});
            // this run's frames in log order
            let mine: Vec<(usize, &Value, bool)> = frames
                .iter()
                .enumerate()
                .filter_map(|(i, f)| {
                    if f["session_id"].as_str() == Some(rv.session_id.as_str()) {
                        return Some((i, f, false));
                    }
                    if f["session_id"].as_str() == Some(thread_id.as_str()) && thread_letter(f).is_some() {
                        let by_run = f["run_session_id"].as_str() == Some(rv.session_id.as_str());
                        let by_msg = f["type"] == "continuity_message_appended" && rv.message_id.is_some() && f["id"].as_str() == rv.message_id.as_deref();
                        if by_run || by_msg {
                            return Some((i, f, true));
                        }
                    }
                    None
                })
                .collect();
            let thread_view: String = mine.iter().filter(|m| m.2).filter_map(|m| thread_letter(m.1)).collect();
            let session_frames: Vec<&Value> = mine.iter().filter(|m| !m.2).map(|m| m.1).collect();
            let merged: Vec<String> = mine.iter().map(|m| if m.2 { thread_letter(m.1).unwrap().to_string() } else { session_letter(m.1).to_string() }).collect();
            rep.count(match rv.posted {
                Posted::Prompt => "input_prompt",
                Posted::Tool(_) => "input_tool_envelope",
                Posted::Checkpoint(_) => "input_checkpoint_envelope",
            });
            let reason = session_frames.iter().rev().find(|f| f["type"] == "session_ended").and_then(|f| f["reason"].as_str()).unwrap_or("<none>").to_string();
            rep.count(&format!("end_reason_{reason}"));
            // ---- oracles ----
            if rv.linked {
                if !grammar_ok(&thread_view) {
                    rep.oracle_failure("C07|thread-grammar", &format!("the thread's view of the run is {thread_view:?}, not message, run_spawned, [selection, compiled], side-effects*, [cursor], run_ended"), case.clone());
                }
            } else if !thread_view.is_empty() {
                rep.oracle_failure("C07|unattached-run-writes-thread", &format!("a session not attached to a thread wrote {thread_view:?} on it"), case.clone());
            }
            let seqs: Vec<u64> = session_frames.iter().map(|f| f["seq"].as_u64().unwrap_or(u64::MAX)).collect();
            if seqs.iter().enumerate().any(|(i, s)| *s != i as u64) {
                rep.oracle_failure("C07|session-seq", &format!("session frames carry seq {:?}", &seqs[..seqs.len().min(12)]), case.clone());
            }
            let started = session_frames.iter().filter(|f| f["type"] == "session_started").count();
            let ended = session_frames.iter().filter(|f| f["type"] == "session_ended").count();
            let first_ok = session_frames.first().map(|f| f["type"] == "session_started").unwrap_or(false);
            let last_ok = session_frames.last().map(|f| f["type"] == "session_ended").unwrap_or(false);
            if started != 1 || ended != 1 || !first_ok || !last_ok {
                rep.oracle_failure("C07|session-shape", &format!("session stream has {started} start frames, {ended} end frames, starts-with-start={first_ok}, ends-with-end={last_ok}"), case.clone());
            }
            if rv.linked {
                let pos_end = mine.iter().position(|m| !m.2 && m.1["type"] == "session_ended");
                let pos_run_ended = mine.iter().position(|m| m.2 && m.1["type"] == "continuity_run_ended");
                match (pos_end, pos_run_ended) {
                    (Some(a), Some(b)) if a < b => {}
                    _ => rep.oracle_failure("C07|run-ended-before-session-ended", "run_ended does not follow the run's terminal session frame", case.clone()),
                }
                // the reason recorded on the thread is the session's
                if let Some(re) = mine.iter().find(|m| m.2 && m.1["type"] == "continuity_run_ended") {
                    if re.1["reason"].as_str() != Some(reason.as_str()) {
                        rep.oracle_failure("C07|run-ended-reason", &format!("run_ended says {:?}, the session ended with {reason:?}", re.1["reason"]), case.clone());
                    }
                }
            }
            // ---- model ----
            let line = abstract_run(rv, &session_frames, &exempt);
            let m = model.ask(&line);
            let imp = format!("{}{}", merged.join(" "), if rv.linked { " ok=true" } else { "" });
            rep.traces_validated += 1;
            if merged.len() >= 6 && rv.linked {
                rep.nontrivial_case(&imp);
            }
            if imp != m {
                rep.disagreement("run trace", json!({"case": case, "line": line}), &imp, &m);
            }
            rep.sample(json!({"line": line, "impl": imp}));
        }
        // one run_spawned per message on the whole thread
        let msgs = frames.iter().filter(|f| f["type"] == "continuity_message_appended").count();
        let spawned = frames.iter().filter(|f| f["type"] == "continuity_run_spawned").count();
        let ended = frames.iter().filter(|f| f["type"] == "continuity_run_ended").count();
        if msgs != spawned || spawned != ended {
            rep.oracle_failure("C07|thread-counts", &format!("{msgs} messages, {spawned} run_spawned, {ended} run_ended"), json!({"case": case_no, "provider_script": kinds}));
        }
    }
}

async fn wait_ended(data_dir: &std::path::Path, session_id: &str, linked: bool) {
    let want = if linked { "continuity_run_ended" } else { "session_ended" };
    for _ in 0..2000 {
        let text = std::fs::read_to_string(data_dir.join("events.jsonl")).unwrap_or_default();
        if text.lines().any(|l| l.contains(want) && l.contains(session_id)) {
            return;
        }
        tokio::time::sleep(std::time::Duration::from_millis(10)).await;
    }
}

/// a background job is ended at most once (and exactly once after quiescence)
fn job_cases(rep: &mut Report, rng: &mut Rng, n: u64) {
    for _ in 0..n {
        let ts = crate::store::TestStore::new("c07j");
        let store = ts.store.clone();
        let thread = store.ensure_default().unwrap();
        for i in 0..rng.range(6, 14) {
            let _ = store.append_message(&thread, "u".into(), "cli".into(), format!("m{i}"));
        }
        let mut hs = Vec::new();
        for w in 0..4 {
            let store = store.clone();
            let thread = thread.clone();
            let sched = (rng.next() >> 7) % 2 == 0;
            hs.push(std::thread::spawn(move || {
                for _ in 0..2 {
                    if sched {
                        let _ = store.compaction_auto_schedule_v1(&thread, ripd::CompactionAutoScheduleV1Request { stride_messages: Some(2), max_new_checkpoints: Some(2), block_on_inflight: Some(w % 2 == 0), execute: Some(true), dry_run: Some(false), actor_id: "u".into(), origin: "cli".into() });
                    } else {
                        let _ = store.compaction_auto_v1(&thread, ripd::CompactionAutoV1Request { stride_messages: Some(2), max_new_checkpoints: Some(2), dry_run: Some(false), actor_id: "u".into(), origin: "cli".into() });
                    }
                }
            }));
        }
        for h in hs {
            let _ = h.join();
        }
        let frames = ts.frames();
        let mut spawned: BTreeMap<String, usize> = BTreeMap::new();
        let mut ended: BTreeMap<String, usize> = BTreeMap::new();
        for f in &frames {
            if let Some(j) = f["job_id"].as_str() {
                match f["type"].as_str() {
                    Some("continuity_job_spawned") => *spawned.entry(j.to_string()).or_insert(0) += 1,
                    Some("continuity_job_ended") => *ended.entry(j.to_string()).or_insert(0) += 1,
                    _ => {}
                }
            }
        }
        rep.evaluations += 1;
        rep.count("job_rounds");
        rep.count_n("jobs_spawned", spawned.len() as u64);
        for (j, n) in &spawned {
            let e = ended.get(j).copied().unwrap_or(0);
            if *n != 1 || e != 1 {
                rep.oracle_failure("C07|job-ended-count", &format!("job {j}: spawned {n} times, ended {e} times"), json!({"job": j}));
            }
        }
        for j in ended.keys() {
            if !spawned.contains_key(j) {
                rep.oracle_failure("C07|job-ended-without-spawn", &format!("job {j} ended but never spawned"), json!({"job": j}));
            }
        }
    }
}

/// "Whatever the provider does": a provider that never stops asking. Every request — the follow-ups
/// carrying the answers included — is answered with one more function call, to an allowed tool or to
/// one the configured tool choice bars. The run must end by itself, with exactly one end frame, well
/// before the script (four times the bound) runs out.
fn relentless_provider_cases(rep: &mut Report, rng: &mut Rng, n: u64) {
    use crate::c16::{build_sse, gen_response, run_e2e, E2eConfig};
    let bound: usize = std::fs::read_to_string("/verif/.build/gen.json").ok().and_then(|t| serde_json::from_str::<Value>(&t).ok()).and_then(|v| v["consts"].as_array().and_then(|a| a.iter().find(|c| c["name"] == "provider_openresponses_DEFAULT_MAX_TOOL_CALLS").and_then(|c| c["value"].as_str().and_then(|s| s.parse().ok())))).unwrap_or(32);
    for case_no in 0..n {
        let barred = case_no % 2 == 0;
        let tool_choice = if barred { json!("none") } else { json!("auto") };
        let mut serial = 0u64;
        let total = bound * 4;
        let script: Vec<Resp> = (0..total)
            .map(|r| {
                let events = gen_response(rng, &mut serial, 1, false, &["ls"]);
                Resp::Sse { body: build_sse(rng, &events, Some(&format!("resp_{r}")), true, &[]), chunk: 0, cut_at: None }
            })
            .collect();
        let cfg = E2eConfig { stateless: rng.chance(1, 2), followup: None, tool_choice: tool_choice.clone(), parallel: false };
        let res = run_e2e(&cfg, script, "hello");
        rep.evaluations += 1;
        rep.traces_validated += 1;
        rep.count("relentless_provider_cases");
        let ended = res.frames.iter().filter(|f| f["type"] == "session_ended").count();
        let case = json!({"case": case_no, "tool_choice": tool_choice, "every_response_calls": if barred { "a barred tool" } else { "an allowed tool" }, "responses_scripted": total, "requests_made": res.bodies.len(), "end_reason": res.reason, "end_frames": ended});
        if ended != 1 || res.frames.last().map(|f| f["type"] != "session_ended").unwrap_or(true) {
            rep.oracle_failure("C07|relentless-provider|end-frames", &format!("{ended} end frames (or frames after the end) in a run against a provider that never stops asking"), case.clone());
        }
        if res.bodies.len() >= total {
            rep.oracle_failure("C07|relentless-provider|run-ends-only-when-the-provider-stops", &format!("the run made {} requests and ended ('{}') only when the provider's script ran out: its end depends on the provider", res.bodies.len(), res.reason), case.clone());
        }
        rep.nontrivial_case(&format!("relentless {barred} {}", res.bodies.len()));
    }
}

pub fn run(opts: &Opts) -> Report {
    let mut rep = Report::new(
        "C07",
        "rounds of 1-2 runs on one thread (sequential or parallel), posted through POST /threads/{id}/messages (attached, with a per-request provider override pointing at a scripted loopback provider) or POST /sessions (unattached); inputs: prompts, tool envelopes (success, timeout, unknown tool, invalid arguments), checkpoint envelopes (create, failing rewind); provider scripts of 2-6 responses: tool calls, HTTP 4xx/5xx, dropped connection, cut at a random byte, empty body, missing [DONE], malformed JSON, schema-invalid events, invalid UTF-8; non-trivial = attached run with at least six frames, distinct by merged frame sequence; plus concurrent compaction jobs (at most one end per job)",
    );
    let mut rng = Rng::new(opts.seed);
    let mut model = Model::spawn();
    let k = if opts.thorough { 8 } else { 1 } * opts.scale;
    lifecycle_cases(&mut rep, &mut model, &mut rng, 150 * k);
    job_cases(&mut rep, &mut rng, 6 * k);
    relentless_provider_cases(&mut rep, &mut rng, 4 * k);
    rep
}
