//! C17: captured process output (log writer, shell capture, paging) and task lifecycle.
use crate::common::*;
use crate::http::*;
use serde_json::{json, Value};
use sha2::{Digest, Sha256};
use std::pin::Pin;
use std::task::{Context, Poll};
use tokio::io::{AsyncRead, ReadBuf};

/// AsyncRead that hands out exactly the scripted chunks, one per read call.
struct Scripted {
    chunks: std::collections::VecDeque<Vec<u8>>,
}
impl AsyncRead for Scripted {
    fn poll_read(mut self: Pin<&mut Self>, _cx: &mut Context<'_>, buf: &mut ReadBuf<'_>) -> Poll<std::io::Result<()>> {
        if let Some(c) = self.chunks.pop_front() {
            buf.put_slice(&c);
        }
        Poll::Ready(Ok(()))
    }
}

const UNITS: &[&[u8]] = &[b"a", b"line\n", "é".as_bytes(), "日本".as_bytes(), "🙂".as_bytes(), b"\r\n", &[0xff], &[0xe2, 0x82], b"0123456789"];

fn gen_chunk(rng: &mut Rng, max: usize) -> Vec<u8> {
    let mut c = Vec::new();
    let n = match rng.below(8) {
        0 => 0,
        1..=4 => rng.range(1, 4),
        5 | 6 => rng.range(5, 40),
        _ => rng.range(100, 900),
    };
    for _ in 0..n {
        c.extend_from_slice(*rng.pick(UNITS));
    }
    // never an empty read (EOF) in the middle, never above the 8 KiB read buffer
    if c.is_empty() {
        c.push(b'x');
    }
    c.truncate(max);
    c
}

/// splits on arbitrary byte positions too (so multi-byte characters straddle chunks)
fn gen_chunks(rng: &mut Rng) -> Vec<Vec<u8>> {
    let n = rng.below(7);
    let mut all: Vec<Vec<u8>> = (0..n).map(|_| gen_chunk(rng, 8192)).collect();
    if rng.chance(1, 2) && !all.is_empty() {
        let flat: Vec<u8> = all.concat();
        let mut cuts: Vec<usize> = (0..rng.below(5)).map(|_| rng.below(flat.len() as u64) as usize).filter(|c| *c > 0).collect();
        cuts.sort();
        cuts.dedup();
        let mut prev = 0;
        all = Vec::new();
        for c in cuts {
            all.push(flat[prev..c].to_vec());
            prev = c;
        }
        all.push(flat[prev..].to_vec());
        all.retain(|c| !c.is_empty() && c.len() <= 8192);
    }
    all
}

fn chunks_tokens(cs: &[Vec<u8>]) -> String {
    format!("{}{}", cs.len(), cs.iter().map(|c| format!(" {}", hex(c))).collect::<String>())
}

fn unit_cases(model: &mut Model, rep: &mut Report, rng: &mut Rng, n: u64, rt: &tokio::runtime::Runtime) {
    let scratch = Scratch::new("c17u");
    let root = scratch.path().to_path_buf();
    for i in 0..n {
        let chunks = gen_chunks(rng);
        let flat: Vec<u8> = chunks.concat();
        let case = json!({"chunks_hex": chunks.iter().map(|c| hex(c)).collect::<Vec<_>>()});
        // --- TaskLogWriter
        let cap = *rng.pick(&[0usize, 1, 2, 3, 5, 16, 64, 1000, 100_000]);
        let id = ripd::verif_export::tasks::new_artifact_id();
        let (ranges, summary) = rt.block_on(ripd::verif_export::tasks::log_writer_feed(&root, &id, cap, &chunks)).unwrap();
        // tokio::fs::File completes buffered writes in the background; wait until the file has them
        let blob = root.join(".rip/artifacts/blobs").join(&id);
        let want = summary["bytes_stored"].as_u64().unwrap_or(0);
        for _ in 0..200 {
            if std::fs::metadata(&blob).map(|m| m.len()).unwrap_or(0) >= want {
                break;
            }
            std::thread::sleep(std::time::Duration::from_millis(5));
        }
        let stored = std::fs::read(&blob).unwrap();
        rep.evaluations += 1;
        rep.traces_validated += 1;
        let line = format!(
            "{} {} {} | {}",
            hex(&stored),
            summary["bytes_total"],
            summary["truncated"].as_bool().unwrap() as u8,
            ranges
                .iter()
                .map(|r| format!("{} {} {} {} {}", r["offset_bytes"], r["bytes"], r["bytes_total"], r["bytes_stored"], r["truncated"].as_bool().unwrap() as u8))
                .collect::<Vec<_>>()
                .join(" ; ")
        );
        let m = model.ask(&format!("c17w {} {}", cap, chunks_tokens(&chunks)));
        if m != line {
            rep.disagreement("TaskLogWriter fold", json!({"cap": cap, "case": case}), &line, &m);
        }
        // oracles: stored is the prefix up to the cap; ranges are consecutive and tile the stored bytes
        if stored != flat[..flat.len().min(cap)] {
            rep.oracle_failure("C17|log-not-prefix", "stored log differs from the prefix of what was written", json!({"cap": cap, "case": case}));
        }
        let mut expect_off = 0u64;
        let mut rebuilt: Vec<u8> = Vec::new();
        for r in &ranges {
            let (o, b) = (r["offset_bytes"].as_u64().unwrap(), r["bytes"].as_u64().unwrap());
            if o != expect_off {
                rep.oracle_failure("C17|ranges-not-consecutive", &format!("range offset {o}, expected {expect_off}"), json!({"cap": cap, "case": case}));
            }
            rebuilt.extend_from_slice(&stored[o as usize..(o + b) as usize]);
            expect_off = o + b;
        }
        if rebuilt != stored {
            rep.oracle_failure("C17|ranges-do-not-tile", "ranges do not reassemble the stored bytes", json!({"cap": cap, "case": case}));
        }
        // --- paging over the stored file
        let max = *rng.pick(&[1usize, 2, 3, 4, 5, 7, 16, 64, 4096]);
        let mut off = 0u64;
        let mut text = String::new();
        let mut pages = 0;
        loop {
            let (content, used, total, truncated) = ripd::verif_export::tasks::read_range(&root, &id, off, max).unwrap();
            let m = model.ask(&format!("c17r {} {} {}", hex(&stored), off, max));
            let toks: Vec<&str> = m.split(' ').collect();
            let raw = if toks[0] == "-" { vec![] } else { hex::decode(toks[0]).unwrap_or_default() };
            let expect = format!("{} {} {} {}", hex(String::from_utf8_lossy(&raw).as_bytes()), raw.len(), toks.get(1).unwrap_or(&"?"), toks.get(2).unwrap_or(&"?"));
            let got = format!("{} {} {} {}", hex(content.as_bytes()), used, total, truncated as u8);
            rep.evaluations += 1;
            if got != expect {
                rep.disagreement("read_artifact_range page", json!({"file_hex": hex(&stored), "offset": off, "max_bytes": max}), &got, &expect);
            }
            text.push_str(&content);
            off += used as u64;
            pages += 1;
            if used == 0 || off >= stored.len() as u64 || pages > stored.len() + 16 {
                break;
            }
        }
        if off != stored.len() as u64 {
            rep.oracle_failure("C17|pages-do-not-cover", &format!("page walk ended at {off} of {}", stored.len()), json!({"file_hex": hex(&stored), "max_bytes": max}));
        }
        if std::str::from_utf8(&stored).is_ok() && max >= 4 && text.as_bytes() != stored {
            rep.oracle_failure("C17|pages-do-not-reproduce-text", "page-by-page text differs from the stored (valid UTF-8) output", json!({"file_hex": hex(&stored), "max_bytes": max}));
        }
        // --- capture_stream (foreground shell tool)
        let max_prev = *rng.pick(&[0usize, 1, 2, 3, 8, 64, 512, 8192, 20_000]);
        let art_max = *rng.pick(&[0usize, 1, 5, 64, 1000, 1_000_000]);
        let cfg = rip_tools::BuiltinToolConfig { workspace_root: root.clone(), artifact_max_bytes: art_max, ..rip_tools::BuiltinToolConfig::default() };
        let v = rt.block_on(rip_tools::verif_capture_stream(Scripted { chunks: chunks.clone().into() }, &cfg, max_prev));
        rep.evaluations += 1;
        let art = &v["artifact"];
        let (art_line, art_bytes) = if art.is_null() {
            ("_".to_string(), None)
        } else {
            let p = root.join(art["path"].as_str().unwrap());
            let b = std::fs::read(&p).unwrap_or_default();
            (format!("{}:{}", hex(&b), art["truncated"].as_bool().unwrap() as u8), Some(b))
        };
        // preview text: the model gives the kept bytes, lossy decoding + lines() applied here on both
        let m = model.ask(&format!("c17c {} {} {}", max_prev, art_max, chunks_tokens(&chunks)));
        let mt: Vec<&str> = m.split(' ').collect();
        let kept = if mt[0] == "-" { vec![] } else { hex::decode(mt[0]).unwrap_or_default() };
        let model_lines: Vec<String> = String::from_utf8_lossy(&kept).lines().map(|l| l.trim_end_matches('\r').to_string()).collect();
        let expect = format!("{:?} {} {} {}", model_lines, mt.get(1).unwrap_or(&"?"), mt.get(2).unwrap_or(&"?"), mt.get(3).unwrap_or(&"?"));
        let got = format!(
            "{:?} {} {} {}",
            v["preview_lines"].as_array().unwrap().iter().map(|l| l.as_str().unwrap().to_string()).collect::<Vec<_>>(),
            v["bytes_total"],
            v["truncated"].as_bool().unwrap() as u8,
            art_line
        );
        if got != expect {
            rep.disagreement("capture_stream", json!({"max_preview": max_prev, "artifact_max": art_max, "case": case}), &got, &expect);
        }
        if let Some(b) = &art_bytes {
            if *b != flat[..flat.len().min(art_max)] {
                rep.oracle_failure("C17|artifact-not-prefix", "shell artifact differs from the prefix of the output", json!({"max_preview": max_prev, "artifact_max": art_max, "case": case}));
            }
            let id = hex::encode(Sha256::digest(b));
            if art["id"].as_str() != Some(id.as_str()) {
                rep.oracle_failure("C17|artifact-id-not-hash", "artifact id is not the SHA-256 of its bytes", json!({"case": case}));
            }
            if art["bytes"].as_u64() != Some(b.len() as u64) {
                rep.oracle_failure("C17|artifact-bytes-wrong", "artifact.bytes differs from file length", json!({"case": case}));
            }
        } else if flat.len() > max_prev && art_max > 0 {
            rep.oracle_failure("C17|artifact-missing", "output exceeded the preview limit but no artifact was stored", json!({"max_preview": max_prev, "artifact_max": art_max, "case": case}));
        }
        // --- truncate_utf8
        let tmax = rng.below(flat.len() as u64 + 3) as usize;
        let (s, t, used) = ripd::verif_export::tasks::truncate_utf8(&flat, tmax);
        let m = model.ask(&format!("c17t {} {}", hex(&flat), tmax));
        let mt: Vec<&str> = m.split(' ').collect();
        let kept = if mt[0] == "-" { vec![] } else { hex::decode(mt[0]).unwrap_or_default() };
        let expect = format!("{} {} {}", hex(String::from_utf8_lossy(&kept).as_bytes()), mt.get(1).unwrap_or(&"?"), kept.len());
        let got = format!("{} {} {}", hex(s.as_bytes()), t as u8, used);
        rep.evaluations += 1;
        if got != expect {
            rep.disagreement("truncate_utf8", json!({"bytes_hex": hex(&flat), "max": tmax}), &got, &expect);
        }
        if chunks.len() >= 2 {
            rep.nontrivial_case(&format!("{i}{}", chunks_tokens(&chunks)));
        }
        if i < 2 {
            rep.sample(json!({"unit_case": case, "cap": cap, "page_max": max, "max_preview": max_prev, "artifact_max": art_max}));
        }
        let _ = std::fs::remove_dir_all(root.join(".rip"));
    }
    rep.count_n("unit_cases", n);
}

/// lifecycle grammar on the recorded frames of one task:
/// spawned running? (delta | cancel_requested)* cancelled? terminal ; nothing after terminal
fn check_lifecycle(frames: &[Value], rep: &mut Report, case: &Value) -> String {
    let labels: Vec<String> = frames
        .iter()
        .map(|f| {
            let t = f["type"].as_str().unwrap_or("?");
            match t {
                "tool_task_status" => format!("status:{}", f["status"].as_str().unwrap_or("?")),
                other => other.replace("tool_task_", ""),
            }
        })
        .collect();
    let compact = {
        let mut out: Vec<String> = Vec::new();
        for l in &labels {
            if l == "output_delta" && out.last().map(|x| x == "output_delta*").unwrap_or(false) {
                continue;
            }
            out.push(if l == "output_delta" { "output_delta*".into() } else { l.clone() });
        }
        out.join(" ")
    };
    let mut fail = |sig: &str, what: &str| rep.oracle_failure(sig, &format!("{what}: [{compact}]"), case.clone());
    for (i, f) in frames.iter().enumerate() {
        if f["seq"].as_u64() != Some(i as u64) {
            fail("C17|task-seq", "task frames are not numbered 0,1,2,...");
            break;
        }
    }
    if labels.first().map(|l| l.as_str()) != Some("spawned") {
        fail("C17|no-spawn-frame", "task stream does not open with its spawn frame");
    }
    let terminal: Vec<usize> = labels.iter().enumerate().filter(|(_, l)| matches!(l.as_str(), "status:exited" | "status:cancelled" | "status:failed")).map(|(i, _)| i).collect();
    if terminal.len() != 1 {
        fail("C17|terminal-count", &format!("{} terminal status frames", terminal.len()));
    } else if terminal[0] + 1 != labels.len() {
        fail("C17|frames-after-terminal", "frames follow the terminal status");
    }
    if labels.iter().filter(|l| *l == "status:running").count() > 1 {
        fail("C17|running-twice", "running reported more than once");
    }
    if let Some(ci) = labels.iter().position(|l| l == "cancelled") {
        match labels.iter().position(|l| l == "cancel_requested") {
            Some(ri) if ri < ci => {}
            _ => fail("C17|cancelled-before-request", "cancelled without a preceding cancel request frame"),
        }
    }
    compact
}

async fn task_case(app: &axum::Router, data_dir: &std::path::Path, ws: &std::path::Path, rng: &mut Rng, rep: &mut Report, model: &mut Model, force: Option<&'static str>) {
    let kinds = ["plain", "both", "multibyte", "binary", "big", "exit7", "cancel", "cancel_after_exit", "invalid_args", "bad_cwd", "cwd_escape", "preview0", "preview2", "cap", "unsupported_tool", "no_artifact_store", "huge"];
    let kind = force.unwrap_or_else(|| *rng.pick(&kinds));
    let mut args = match kind {
        "plain" => json!({"command": "printf 'hello\\nworld\\n'"}),
        "both" => json!({"command": "printf out1; printf err1 >&2; sleep 0.02; printf out2; printf err2 >&2"}),
        "multibyte" => json!({"command": "printf 'h\\303'; sleep 0.05; printf '\\251llo \\346\\227\\245\\346\\234\\254'"}),
        "binary" => json!({"command": "printf '\\377\\376\\000abc\\342\\202'"}),
        "big" => json!({"command": "head -c 20000 /dev/zero | tr '\\0' 'é' ; printf tail"}),
        "exit7" => json!({"command": "printf bye; exit 7"}),
        // more than the preview budget on both streams, with the DEFAULT caps (no per-task argument):
        // what is stored is judged against the configured default, not against what the frames say
        "huge" => json!({"command": "head -c 700000 /dev/zero | tr '\\0' 'x'; head -c 600000 /dev/zero | tr '\\0' 'y' >&2"}),
        "cancel" => json!({"command": "printf start; sleep 5; printf never"}),
        // the command itself exits at once; a background grandchild keeps the pipes open for a while: a
        // cancel that arrives in between comes after the process has exited and before the terminal frame
        "cancel_after_exit" => json!({"command": "printf started; sleep 0.9 &"}),
        // nobody cancels: the command exits at once and a background descendant that inherited the
        // pipes writes seconds later. Whatever it writes belongs before the terminal status (or is not
        // recorded at all); the run below keeps looking at the log for a while after the terminal frame
        "lingering_writer" => json!({"command": "printf early; (sleep 4.6; printf late; sleep 0.3; printf later >&2) &"}),
        "invalid_args" => json!({"command": 5}),
        // starts that fail before a process exists: the stream still opens with the spawn frame and
        // ends with exactly one terminal frame
        "unsupported_tool" => json!({"command": "printf x"}),
        "no_artifact_store" => json!({"command": "printf x"}),
        "bad_cwd" => json!({"command": "true", "cwd": "no/such/dir"}),
        "cwd_escape" => json!({"command": "true", "cwd": "../x"}),
        "preview0" => json!({"command": "printf 'abc'; sleep 0.02; printf 'def'", "max_bytes": 0}),
        "preview2" => json!({"command": "printf '日本語'", "max_bytes": 2}),
        _ => json!({"command": "printf '0123456789abcdef'", "artifact_max_bytes": 5}),
    };
    if kind != "invalid_args" && kind != "huge" && rng.chance(1, 4) && args.get("max_bytes").is_none() {
        args["max_bytes"] = json!(*rng.pick(&[0, 1, 3, 4, 100]));
    }
    let case = json!({"kind": kind, "args": args});
    // the artifact store made uncreatable for the duration of this one start
    let blobs = ws.join(".rip/artifacts/blobs");
    let parked = ws.join(".rip/artifacts/blobs.parked");
    let mut parked_store = false;
    if kind == "no_artifact_store" {
        let _ = std::fs::create_dir_all(ws.join(".rip/artifacts"));
        parked_store = std::fs::rename(&blobs, &parked).is_ok();
        let _ = std::fs::write(&blobs, b"not a directory");
    }
    let tool = if kind == "unsupported_tool" { "python" } else { "bash" };
    let (st, created) = call_json(app, "POST", "/tasks", Some(json!({"tool": tool, "args": args}))).await;
    rep.evaluations += 1;
    if kind == "no_artifact_store" && st != axum::http::StatusCode::CREATED {
        let _ = std::fs::remove_file(&blobs);
        if parked_store {
            let _ = std::fs::rename(&parked, &blobs);
        }
    }
    if st != axum::http::StatusCode::CREATED {
        rep.count("task_rejected_by_http");
        return;
    }
    let id = created["task_id"].as_str().unwrap().to_string();
    if kind == "cancel_after_exit" {
        tokio::time::sleep(std::time::Duration::from_millis(rng.range(150, 500))).await;
        let _ = call(app, "POST", &format!("/tasks/{id}/cancel"), Some(json!({"reason": "late"}))).await;
    }
    if kind == "cancel" {
        tokio::time::sleep(std::time::Duration::from_millis(rng.range(0, 120))).await;
        let _ = call(app, "POST", &format!("/tasks/{id}/cancel"), Some(json!({"reason": "test"}))).await;
    }
    // wait for a terminal status
    let mut terminal = false;
    for _ in 0..400 {
        let (_, s) = call_json(app, "GET", &format!("/tasks/{id}"), None).await;
        if matches!(s["status"].as_str(), Some("exited") | Some("cancelled") | Some("failed")) {
            terminal = true;
            break;
        }
        tokio::time::sleep(std::time::Duration::from_millis(20)).await;
    }
    if kind == "no_artifact_store" {
        let _ = std::fs::remove_file(&blobs);
        if parked_store {
            let _ = std::fs::rename(&parked, &blobs);
        }
    }
    if !terminal {
        rep.oracle_failure("C17|no-terminal-status", "task did not reach a terminal status within 8 s", case.clone());
        return;
    }
    tokio::time::sleep(std::time::Duration::from_millis(if kind == "lingering_writer" { 3_500 } else { 30 })).await;
    // recorded frames of the task, from the truth log
    let log = std::fs::read_to_string(data_dir.join("events.jsonl")).unwrap_or_default();
    let frames: Vec<Value> = log.lines().filter_map(|l| serde_json::from_str::<Value>(l).ok()).filter(|v| v["session_id"].as_str() == Some(id.as_str())).collect();
    rep.traces_validated += 1;
    if kind == "lingering_writer" && std::env::var("RVH_DEBUG").is_ok() {
        for f in &frames {
            eprintln!("DEBUG lingering: {} {} {:?} {:?}", f["seq"], f["type"], f["status"], f["chunk"]);
        }
    }
    let compact = check_lifecycle(&frames, rep, &case);
    // the Lean lifecycle automaton (the object of theorem lifecycle_complete) must accept the real trace
    let labels: Vec<String> = frames
        .iter()
        .map(|f| match f["type"].as_str().unwrap_or("?") {
            "tool_task_status" => format!("status:{}", f["status"].as_str().unwrap_or("?")),
            "tool_task_output_delta" => "delta".to_string(),
            other => other.replace("tool_task_", ""),
        })
        .collect();
    let verdict = model.ask(&format!("c17l {} {}", labels.len(), labels.join(" ")));
    if verdict != "accept" {
        rep.disagreement("task lifecycle automaton", case.clone(), &labels.join(" "), &verdict);
    }
    rep.count(&format!("task_{kind}"));
    rep.nontrivial_case(&format!("{kind}|{compact}|{}", args));
    // output: ranges named by the frames tile the stored bytes; page walk reproduces; preview is a prefix
    for stream in ["stdout", "stderr"] {
        let Some(spawn) = frames.iter().find(|f| f["type"] == "tool_task_spawned") else { continue };
        let Some(path) = spawn["artifacts"]["logs"][stream]["path"].as_str() else { continue };
        let stored = std::fs::read(ws.join(path)).unwrap_or_default();
        let cap = spawn["artifacts"]["artifact_max_bytes"].as_u64().unwrap_or(u64::MAX);
        let max_prev = spawn["artifacts"]["max_bytes"].as_u64().unwrap_or(0) as usize;
        let mut off = 0u64;
        let mut chunks: Vec<Vec<u8>> = Vec::new();
        let mut ok = true;
        for f in frames.iter().filter(|f| f["type"] == "tool_task_output_delta" && f["stream"] == stream) {
            let log = &f["artifacts"]["log"];
            let (o, b) = (log["offset_bytes"].as_u64().unwrap_or(u64::MAX), log["bytes"].as_u64().unwrap_or(0));
            if o != off {
                ok = false;
            }
            let end = ((o + b) as usize).min(stored.len());
            let piece = stored.get(o as usize..end).unwrap_or(&[]).to_vec();
            // inline preview is a prefix of the chunk's text within its limit
            let limit = max_prev.min(8192);
            let (pv, _, _) = ripd::verif_export::tasks::truncate_utf8(&piece, limit);
            let chunk_text = f["chunk"].as_str().unwrap_or("");
            if (b as usize) == piece.len() && log["truncated"] == json!(false) && chunk_text != pv {
                rep.oracle_failure("C17|preview-not-prefix", &format!("{stream} frame preview {chunk_text:?} is not the bounded prefix {pv:?} of its range"), case.clone());
            }
            chunks.push(piece);
            off = o + b;
        }
        if !ok || off != stored.len() as u64 {
            rep.oracle_failure(
                "C17|frame-ranges-do-not-cover",
                &format!("{stream}: ranges named by output frames cover {off} of {} stored bytes (consecutive={ok})", stored.len()),
                case.clone(),
            );
        }
        if (stored.len() as u64) > cap {
            rep.oracle_failure("C17|cap-exceeded", "stored more than the cap", case.clone());
        }
        if kind == "huge" {
            // what the process wrote is known; the cap is the configured default
            let configured = rip_tools::BuiltinToolConfig::default().artifact_max_bytes;
            let (wrote, byte) = if stream == "stdout" { (700_000usize, b'x') } else { (600_000usize, b'y') };
            let want = wrote.min(configured);
            if stored.len() != want || stored.iter().any(|b| *b != byte) {
                rep.oracle_failure("C17|stored-is-not-the-prefix-up-to-the-configured-cap", &format!("{stream}: the process wrote {wrote} bytes, the configured default cap is {configured}; {} bytes are stored (the spawn frame reports a cap of {cap})", stored.len()), case.clone());
            }
            rep.count("task_huge_streams_checked");
        }
        // model: the same chunks through the log-writer model reproduce stored + ranges
        if ok && !chunks.is_empty() && cap >= stored.len() as u64 {
            let m = model.ask(&format!("c17w {} {}", cap.min(1 << 40), chunks_tokens(&chunks)));
            if !m.starts_with(&format!("{} ", hex(&stored))) {
                rep.disagreement("task log vs model", case.clone(), &hex(&stored), &m);
            }
        }
        // page walk through the HTTP endpoint
        let mut off = 0u64;
        let mut text = String::new();
        let page = if kind == "huge" { 65_536 } else { *rng.pick(&[3usize, 4, 5, 7, 64, 10_000]) };
        for _ in 0..20_000 {
            let (st, v) = call_json(app, "GET", &format!("/tasks/{id}/output?stream={stream}&offset_bytes={off}&max_bytes={page}"), None).await;
            if st != axum::http::StatusCode::OK {
                break;
            }
            let used = v["bytes"].as_u64().unwrap_or(0);
            text.push_str(v["content"].as_str().unwrap_or(""));
            off += used;
            if used == 0 || off >= stored.len() as u64 {
                break;
            }
        }
        if off != stored.len() as u64 {
            rep.oracle_failure("C17|pages-do-not-cover", &format!("{stream}: page walk ended at {off} of {}", stored.len()), case.clone());
        } else if std::str::from_utf8(&stored).is_ok() && page >= 4 && text.as_bytes() != stored {
            rep.oracle_failure("C17|pages-do-not-reproduce-text", &format!("{stream}: page-by-page text differs from stored output (page={page})"), case.clone());
        }
    }
}

pub fn run(opts: &Opts) -> Report {
    let mut rep = Report::new(
        "C17",
        "unit: scripted chunk sequences (ASCII, multi-byte split across chunks, invalid UTF-8, up to 8 KiB) x caps {0..100000} through the real TaskLogWriter, read_artifact_range page walks, capture_stream (preview limits incl. 0, artifact caps incl. 0) and truncate_utf8; tasks: real background tasks through the HTTP router (plain, interleaved stdout/stderr, split multi-byte, binary, 40 KB, exit code, cancel at a random moment, cancel after the command exited while a grandchild still holds its pipes, invalid args, bad cwd, cwd escape, preview 0/2, cap 5); non-trivial = >=2 chunks (unit) or any task run, distinct by case",
    );
    let mut model = Model::spawn();
    let rt = tokio::runtime::Builder::new_multi_thread().worker_threads(4).enable_all().build().unwrap();
    let mut rng = Rng::new(opts.seed);
    unit_cases(&mut model, &mut rep, &mut rng, if opts.thorough { 4000 } else { 400 } * opts.scale, &rt);
    let scratch = Scratch::new("c17t");
    let data_dir = scratch.path().join("data");
    let ws = scratch.path().join("ws");
    std::fs::create_dir_all(&ws).unwrap();
    let n = if opts.thorough { 300 } else { 45 } * opts.scale;
    rt.block_on(async {
        let app = ripd::verif_export::build_app(data_dir.clone(), ws.clone(), false);
        task_case(&app, &data_dir, &ws, &mut rng, &mut rep, &mut model, Some("lingering_writer")).await;
        for _ in 0..n {
            task_case(&app, &data_dir, &ws, &mut rng, &mut rep, &mut model, None).await;
        }
    });
    rep
}
