//! C11: workspace mutations never overlap and are logged in the order they happened.
use crate::common::*;
use crate::http::*;
use crate::store::read_frames;
use ripd::{ContinuityRunLink, SessionEngine};
use serde_json::{json, Value};
use std::collections::BTreeMap;
use std::sync::Arc;

#[derive(Clone, Debug)]
struct Actor {
    id: usize,
    kind: &'static str, // session-bash | session-write | session-patch | session-ckpt | session-readonly | task | session-timeout
    mutating: bool,
}

fn stamp_cmd(id: usize, sleep: &str) -> String {
    format!("echo B{id} $(date +%s%N) >> stamps.log; sleep {sleep}; echo E{id} $(date +%s%N) >> stamps.log")
}

struct Outcome {
    intervals: BTreeMap<usize, (u128, u128)>,
    thread_side_effects: Vec<usize>, // actor ids in the order of their side-effects frames on the thread
    frames_per_actor: BTreeMap<usize, usize>,
}

fn run_round(actors: &[Actor], rep: &mut Report) -> Outcome {
    let scratch = Scratch::new("c11");
    let data_dir = scratch.path().join("data");
    let ws = scratch.path().join("ws");
    std::fs::create_dir_all(&ws).unwrap();
    std::fs::write(ws.join("seed.txt"), "seed\n").unwrap();
    let rt = tokio::runtime::Builder::new_multi_thread().worker_threads(6).enable_all().build().unwrap();
    let mut session_of: BTreeMap<String, usize> = BTreeMap::new();
    let thread_id;
    {
        let app = ripd::verif_export::VerifApp::new(data_dir.clone(), ws.clone());
        let store = app.continuities();
        thread_id = store.ensure_default().unwrap();
        // sessions go through a second engine sharing nothing but the directories? No: one engine owns the
        // workspace lock; use the engine behind the router for everything.
        let engine: Arc<SessionEngine> = app.engine();
        rt.block_on(async {
            let mut joins = Vec::new();
            for a in actors {
                let a = a.clone();
                // every registered name of the shell tool: odd actors call it by its alias
                let sh = if a.id % 2 == 1 { "shell" } else { "bash" };
                let input = match a.kind {
                    "session-bash" => json!({"tool": sh, "args": {"command": stamp_cmd(a.id, "0.08"), "cwd": "."}}).to_string(),
                    "session-timeout" => json!({"tool": "bash", "args": {"command": stamp_cmd(a.id, "0.7"), "cwd": "."}, "timeout_ms": 120}).to_string(),
                    // the same, with a CHILD of the tool's shell doing the writing (a subshell the
                    // shell waits for): killing the shell alone would leave it running
                    "session-timeout-child" => json!({"tool": "bash", "args": {"command": format!("( {} ); true", stamp_cmd(a.id, "0.7")), "cwd": "."}, "timeout_ms": 120}).to_string(),
                    // a tool that prints a lot: flushing its frames takes longer than the next actor's whole run
                    "session-bash-noisy" => json!({"tool": "bash", "args": {"command": format!("echo B{0} $(date +%s%N) >> stamps.log; sleep 0.15; seq 1 50000; echo E{0} $(date +%s%N) >> stamps.log", a.id), "cwd": "."}}).to_string(),
                    "session-write" => json!({"tool": "write", "args": {"path": format!("w{}.txt", a.id), "content": "x"}}).to_string(),
                    "session-patch" => json!({"tool": "apply_patch", "args": {"patch": format!("*** Begin Patch\n*** Add File: p{}.txt\n+x\n*** End Patch", a.id)}}).to_string(),
                    "session-ckpt" => json!({"checkpoint": {"action": "create", "label": "l", "files": ["seed.txt"]}}).to_string(),
                    "session-readonly" => json!({"tool": "grep", "args": {"pattern": "seed"}}).to_string(),
                    _ => String::new(),
                };
                if a.kind == "agent-bash" {
                    // a provider-driven run: the agent loop executes a bash function call
                    let call = json!({"type": "response.output_item.done", "output_index": 0, "item": {"type": "function_call", "id": format!("fc_{}", a.id), "call_id": format!("call_{}", a.id), "name": sh, "arguments": json!({"command": stamp_cmd(a.id, "0.08"), "cwd": "."}).to_string()}});
                    let first = format!("{}{}data: [DONE]\n\n", crate::provider::sse(&json!({"type": "response.created", "response": {"id": format!("resp_{}", a.id)}})), crate::provider::sse(&call));
                    let provider = crate::provider::ScriptedProvider::start(vec![crate::provider::Resp::Sse { body: first.into_bytes(), chunk: 0, cut_at: None }]);
                    let (_, v) = call_json(&app.router, "POST", &format!("/threads/{thread_id}/messages"), Some(json!({"content": format!("agent run {}", a.id), "openresponses": {"endpoint": provider.endpoint, "model": "m"}}))).await;
                    let sid = v["session_id"].as_str().unwrap_or("").to_string();
                    session_of.insert(sid.clone(), a.id);
                    let dd = data_dir.clone();
                    joins.push(tokio::spawn(async move {
                        let _keep = provider;
                        for _ in 0..600 {
                            let text = std::fs::read_to_string(dd.join("events.jsonl")).unwrap_or_default();
                            if text.lines().any(|l| l.contains("continuity_run_ended") && l.contains(&sid)) {
                                break;
                            }
                            tokio::time::sleep(std::time::Duration::from_millis(15)).await;
                        }
                    }));
                } else if a.kind == "task" {
                    let (_, v) = call_json(&app.router, "POST", "/tasks", Some(json!({"tool": "bash", "args": {"command": stamp_cmd(a.id, "0.08"), "cwd": "."}}))).await;
                    let id = v["task_id"].as_str().unwrap_or("").to_string();
                    let router = app.router.clone();
                    joins.push(tokio::spawn(async move {
                        for _ in 0..300 {
                            let (_, s) = call_json(&router, "GET", &format!("/tasks/{id}"), None).await;
                            if matches!(s["status"].as_str(), Some("exited") | Some("cancelled") | Some("failed")) {
                                break;
                            }
                            tokio::time::sleep(std::time::Duration::from_millis(15)).await;
                        }
                    }));
                } else {
                    let link = store.append_message(&thread_id, "u".into(), "cli".into(), format!("run {}", a.id)).ok().map(|m| ContinuityRunLink { continuity_id: thread_id.clone(), message_id: m, actor_id: "u".into(), origin: "cli".into() });
                    let h = engine.create_session();
                    session_of.insert(h.session_id.clone(), a.id);
                    let mut rx = h.subscribe();
                    engine.spawn_session(h, input, link, None);
                    joins.push(tokio::spawn(async move {
                        let deadline = tokio::time::Instant::now() + std::time::Duration::from_secs(10);
                        loop {
                            match tokio::time::timeout_at(deadline, rx.recv()).await {
                                Ok(Ok(ev)) => {
                                    if matches!(ev.kind, rip_kernel::EventKind::SessionEnded { .. }) {
                                        break;
                                    }
                                }
                                _ => break,
                            }
                        }
                    }));
                }
                // small stagger so that arrival order varies but overlaps are likely
                tokio::time::sleep(std::time::Duration::from_millis(3)).await;
            }
            for j in joins {
                let _ = j.await;
            }
            // a timed-out tool may still be running: give it time to write its end stamp
            if actors.iter().any(|a| a.kind.starts_with("session-timeout")) {
                tokio::time::sleep(std::time::Duration::from_millis(900)).await;
            }
        });
    }
    drop(rt);
    let stamps = std::fs::read_to_string(ws.join("stamps.log")).unwrap_or_default();
    let mut intervals: BTreeMap<usize, (u128, u128)> = BTreeMap::new();
    for line in stamps.lines() {
        let mut it = line.split(' ');
        let (tag, t) = (it.next().unwrap_or(""), it.next().and_then(|x| x.parse::<u128>().ok()).unwrap_or(0));
        if tag.len() < 2 {
            continue;
        }
        let id: usize = tag[1..].parse().unwrap_or(usize::MAX);
        let e = intervals.entry(id).or_insert((0, u128::MAX));
        if tag.starts_with('B') {
            e.0 = t;
        } else {
            e.1 = t;
        }
    }
    let frames = read_frames(&data_dir.join("events.jsonl"));
    let mut thread_side_effects = Vec::new();
    let mut frames_per_actor: BTreeMap<usize, usize> = BTreeMap::new();
    for f in &frames {
        if f["type"] == "continuity_tool_side_effects" && f["session_id"].as_str() == Some(thread_id.as_str()) {
            if let Some(a) = f["run_session_id"].as_str().and_then(|s| session_of.get(s)) {
                thread_side_effects.push(*a);
                *frames_per_actor.entry(*a).or_insert(0) += 1;
            }
        }
    }
    let _ = rep;
    Outcome { intervals, thread_side_effects, frames_per_actor }
}

/// the tools exempt from the permit (read, ls, grep, artifact_fetch) must not modify the workspace
fn read_only_tools_leave_the_tree_alone(rep: &mut Report) {
    let scratch = Scratch::new("c11ro");
    let data_dir = scratch.path().join("data");
    let ws = scratch.path().join("ws");
    std::fs::create_dir_all(ws.join("sub")).unwrap();
    std::fs::write(ws.join("seed.txt"), "seed\nline two\n").unwrap();
    std::fs::write(ws.join("sub/inner.txt"), "inner seed\n").unwrap();
    let rt = tokio::runtime::Builder::new_multi_thread().worker_threads(2).enable_all().build().unwrap();
    let app = ripd::verif_export::VerifApp::new(data_dir.clone(), ws.clone());
    let engine: Arc<SessionEngine> = app.engine();
    let envelopes = [
        json!({"tool": "read", "args": {"path": "seed.txt"}}),
        json!({"tool": "read", "args": {"path": "missing.txt"}}),
        json!({"tool": "ls", "args": {"path": "."}}),
        json!({"tool": "ls", "args": {"path": "sub", "recursive": true}}),
        json!({"tool": "grep", "args": {"pattern": "seed"}}),
        json!({"tool": "grep", "args": {"pattern": "seed", "path": "sub"}}),
        json!({"tool": "artifact_fetch", "args": {"id": "0000000000000000000000000000000000000000000000000000000000000000"}}),
        json!({"tool": "artifact_fetch", "args": {}}),
    ];
    for env in envelopes {
        let before = crate::c12::list_tree(&ws);
        rt.block_on(async {
            let h = engine.create_session();
            let mut rx = h.subscribe();
            engine.spawn_session(h, env.to_string(), None, None);
            let deadline = tokio::time::Instant::now() + std::time::Duration::from_secs(10);
            loop {
                match tokio::time::timeout_at(deadline, rx.recv()).await {
                    Ok(Ok(ev)) => {
                        if matches!(ev.kind, rip_kernel::EventKind::SessionEnded { .. }) {
                            break;
                        }
                    }
                    _ => break,
                }
            }
        });
        let after = crate::c12::list_tree(&ws);
        rep.evaluations += 1;
        rep.count("read_only_tool_tree_checks");
        if before != after {
            rep.oracle_failure("C11|exempt-tool-writes", &format!("a tool exempt from the workspace permit changed the workspace tree: {env}"), json!({"envelope": env}));
        }
    }
    drop(app);
    drop(rt);
}

pub fn run(opts: &Opts) -> Report {
    let mut rep = Report::new(
        "C11",
        "rounds of 3-7 concurrent actors on one engine: sessions running mutating tool envelopes, provider-driven agent-loop runs executing a bash function call, (bash writing begin/end stamps into the workspace, write, apply_patch, checkpoint create), a read-only tool, background shell tasks through the router, and a bash envelope that times out while its command is still running; stamps give the real mutation intervals; non-trivial = round with >=3 stamp-writing actors, distinct by actor kinds",
    );
    let mut rng = Rng::new(opts.seed);
    let rounds = if opts.thorough { 60 } else { 14 } * opts.scale;
    read_only_tools_leave_the_tree_alone(&mut rep);
    for r in 0..rounds {
        let n = rng.range(3, 7) as usize;
        let mut actors: Vec<Actor> = (0..n)
            .map(|id| {
                let kind = *rng.pick(&["session-bash", "session-bash", "agent-bash", "agent-bash", "task", "session-write", "session-patch", "session-ckpt", "session-readonly"]);
                Actor { id, kind, mutating: kind != "session-readonly" }
            })
            .collect();
        // every other round contains the timed-out tool (and a stamp writer right behind it)
        if r % 2 == 0 {
            actors[0] = Actor { id: 0, kind: if r % 4 == 0 { "session-timeout-child" } else { "session-timeout" }, mutating: true };
            actors[1] = Actor { id: 1, kind: "session-bash", mutating: true };
        } else {
            // a noisy tool first, quiet mutating tools queued right behind it
            actors[0] = Actor { id: 0, kind: "session-bash-noisy", mutating: true };
            actors[1] = Actor { id: 1, kind: "session-bash", mutating: true };
            actors[2] = Actor { id: 2, kind: "session-bash", mutating: true };
        }
        rep.evaluations += 1;
        let out = run_round(&actors, &mut rep);
        rep.traces_validated += 1;
        let case = json!({"round": r, "actors": actors.iter().map(|a| a.kind).collect::<Vec<_>>(), "intervals_ns": out.intervals.iter().map(|(k, v)| json!({"actor": k, "begin": v.0.to_string(), "end": if v.1 == u128::MAX { "never".to_string() } else { v.1.to_string() }})).collect::<Vec<_>>()});
        // oracle 1: no two stamped mutations overlap
        // a command that never wrote its end stamp was killed (timeout): its effect ended with it, and
        // the absence of the stamp is the evidence that it did not go on running
        let ivs: Vec<(usize, u128, u128)> = out.intervals.iter().filter(|(_, v)| v.0 > 0).map(|(k, v)| (*k, v.0, if v.1 == u128::MAX { v.0 } else { v.1 })).collect();
        for i in 0..ivs.len() {
            for j in (i + 1)..ivs.len() {
                let (a, b) = (ivs[i], ivs[j]);
                if a.1 < b.2 && b.1 < a.2 {
                    let timeout_involved = actors[a.0].kind.starts_with("session-timeout") || actors[b.0].kind.starts_with("session-timeout");
                    let sig = if timeout_involved { "C11|overlap|timed-out-tool-keeps-running" } else { "C11|overlap" };
                    rep.oracle_failure(sig, &format!("mutations of actor {} ({}) and actor {} ({}) overlap in time", a.0, actors[a.0].kind, b.0, actors[b.0].kind), case.clone());
                }
            }
        }
        // oracle 2: exactly one side-effects frame per mutating tool call of a linked run
        for a in &actors {
            let want = match a.kind {
                "session-bash" | "session-bash-noisy" | "agent-bash" | "session-write" | "session-patch" | "session-timeout" | "session-timeout-child" => 1,
                _ => 0, // read-only tools, checkpoint envelopes and tasks log no tool side effects on the thread
            };
            let got = out.frames_per_actor.get(&a.id).copied().unwrap_or(0);
            if got != want {
                rep.oracle_failure("C11|side-effects-count", &format!("actor {} ({}) produced {got} side-effects frames, expected {want}", a.id, a.kind), case.clone());
            }
        }
        // oracle 3: the order of side-effects frames equals the real order of the stamped mutations
        let stamped_order: Vec<usize> = {
            let mut v: Vec<(u128, usize)> = ivs.iter().filter(|(k, _, _)| matches!(actors[*k].kind, "session-bash" | "session-bash-noisy" | "agent-bash")).map(|(k, b, _)| (*b, *k)).collect();
            v.sort();
            v.into_iter().map(|(_, k)| k).collect()
        };
        let logged_order: Vec<usize> = out.thread_side_effects.iter().cloned().filter(|k| matches!(actors[*k].kind, "session-bash" | "session-bash-noisy" | "agent-bash")).collect();
        if stamped_order != logged_order {
            rep.oracle_failure("C11|side-effects-order", &format!("side-effects frames in order {logged_order:?}, mutations happened in order {stamped_order:?}"), case.clone());
        }
        let kinds: Vec<&str> = actors.iter().map(|a| a.kind).collect();
        if ivs.len() >= 3 {
            rep.nontrivial_case(&kinds.join(","));
        }
        for k in &kinds {
            rep.count(&format!("actor_{k}"));
        }
        rep.sample(case);
        let _ = actors.iter().filter(|a| a.mutating).count();
    }
    rep
}
