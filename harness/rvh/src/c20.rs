//! C20: rip-tui FrameStore / TuiState fold vs the Lean model `Rip.Frames`.
use crate::common::*;
use rip_kernel::{
    CheckpointAction, Event, EventKind, ProviderEventStatus, ToolTaskExecutionMode, ToolTaskStatus,
    ToolTaskStream,
};
use rip_tui::{ToolStatus, TuiState};
use serde_json::{json, Value};

const TEXTS: &[&str] = &[
    "", "a", "hello", "  ", "\n", "héllo", "日本語テキスト", "🙂🙃", "x\u{0301}y", "tab\tsep", "\u{a0}",
    "\u{2003}", "0123456789abcdef",
];

fn text(rng: &mut Rng) -> String {
    let mut s = String::new();
    let n = match rng.below(10) {
        0 => 0,
        1..=6 => 1,
        7 | 8 => rng.range(2, 6),
        _ => rng.range(20, 400),
    };
    for _ in 0..n {
        s.push_str(*rng.pick(TEXTS));
    }
    s
}

fn big_text(rng: &mut Rng) -> String {
    let unit = *rng.pick(&["a", "é", "日", "🙂"]);
    unit.repeat(rng.range(1000, 4000) as usize)
}

fn id(rng: &mut Rng, prefix: &str) -> String {
    format!("{prefix}{}", rng.below(4))
}

pub fn gen_kind(rng: &mut Rng) -> EventKind {
    match rng.below(24) {
        0 => EventKind::SessionStarted { input: text(rng) },
        1 | 2 | 3 => EventKind::OutputTextDelta {
            delta: if rng.chance(1, 8) { big_text(rng) } else { text(rng) },
        },
        4 => EventKind::SessionEnded { reason: "completed".into() },
        5 | 6 => EventKind::ToolStarted {
            tool_id: id(rng, "t"),
            name: "bash".into(),
            args: json!({"n": rng.below(3)}),
            timeout_ms: None,
        },
        7 | 8 => EventKind::ToolStdout {
            tool_id: id(rng, "t"),
            chunk: if rng.chance(1, 3) { big_text(rng) } else { text(rng) },
        },
        9 => EventKind::ToolStderr {
            tool_id: id(rng, "t"),
            chunk: if rng.chance(1, 3) { big_text(rng) } else { text(rng) },
        },
        10 => EventKind::ToolEnded {
            tool_id: id(rng, "t"),
            exit_code: rng.below(3) as i32 - 1,
            duration_ms: rng.below(100),
            artifacts: None,
        },
        11 => EventKind::ToolFailed { tool_id: id(rng, "t"), error: "boom".into() },
        12 => EventKind::ToolTaskSpawned {
            task_id: id(rng, "k"),
            tool_name: "bash".into(),
            args: Value::Null,
            cwd: None,
            title: None,
            execution_mode: ToolTaskExecutionMode::Pipes,
            origin_session_id: None,
            artifacts: None,
        },
        13 | 14 => EventKind::ToolTaskStatus {
            task_id: id(rng, "k"),
            status: *rng.pick(&[
                ToolTaskStatus::Queued,
                ToolTaskStatus::Running,
                ToolTaskStatus::Exited,
                ToolTaskStatus::Cancelled,
                ToolTaskStatus::Failed,
            ]),
            exit_code: None,
            started_at_ms: None,
            ended_at_ms: None,
            artifacts: None,
            error: None,
        },
        15 | 16 => EventKind::ToolTaskOutputDelta {
            task_id: id(rng, "k"),
            stream: *rng.pick(&[ToolTaskStream::Stdout, ToolTaskStream::Stderr, ToolTaskStream::Pty]),
            chunk: if rng.chance(1, 3) { big_text(rng) } else { text(rng) },
            artifacts: None,
        },
        17 | 18 => EventKind::ProviderEvent {
            provider: if rng.chance(3, 4) { "openresponses".into() } else { "other".into() },
            status: rng
                .pick(&[ProviderEventStatus::Event, ProviderEventStatus::Done, ProviderEventStatus::InvalidJson])
                .clone(),
            event_name: None,
            data: None,
            raw: None,
            errors: if rng.chance(1, 5) { vec!["e".into()] } else { vec![] },
            response_errors: if rng.chance(1, 5) { vec!["r".into()] } else { vec![] },
        },
        19 => EventKind::CheckpointFailed { action: CheckpointAction::Create, error: "x".into() },
        20 => EventKind::OpenResponsesRequestStarted {
            endpoint: "http://x".into(),
            model: None,
            request_index: 0,
            kind: "initial".into(),
        },
        21 => EventKind::OpenResponsesResponseHeaders {
            request_index: 0,
            status: 200,
            request_id: None,
            content_type: None,
        },
        22 => EventKind::OpenResponsesResponseFirstByte { request_index: 0 },
        _ => EventKind::ToolTaskCancelRequested { task_id: id(rng, "k"), reason: "r".into() },
    }
}

fn kind_line(k: &EventKind) -> String {
    let h = |s: &str| hex(s.as_bytes());
    match k {
        EventKind::SessionStarted { input } => {
            format!("session_started {} {}", h(input), if input.trim().is_empty() { 1 } else { 0 })
        }
        EventKind::OutputTextDelta { delta } => format!("output_text_delta {}", h(delta)),
        EventKind::SessionEnded { .. } => "session_ended".into(),
        EventKind::ToolStarted { tool_id, .. } => format!("tool_started {}", h(tool_id)),
        EventKind::ToolStdout { tool_id, chunk } => format!("tool_stdout {} {}", h(tool_id), h(chunk)),
        EventKind::ToolStderr { tool_id, chunk } => format!("tool_stderr {} {}", h(tool_id), h(chunk)),
        EventKind::ToolEnded { tool_id, exit_code, .. } => format!("tool_ended {} {}", h(tool_id), exit_code),
        EventKind::ToolFailed { tool_id, .. } => format!("tool_failed {}", h(tool_id)),
        EventKind::ToolTaskSpawned { task_id, .. } => format!("task_spawned {}", h(task_id)),
        EventKind::ToolTaskStatus { task_id, status, .. } => {
            format!("task_status {} {}", h(task_id), status_name(*status))
        }
        EventKind::ToolTaskOutputDelta { task_id, stream, chunk, .. } => format!(
            "task_delta {} {} {}",
            h(task_id),
            match stream {
                ToolTaskStream::Stdout => "stdout",
                ToolTaskStream::Stderr => "stderr",
                ToolTaskStream::Pty => "pty",
            },
            h(chunk)
        ),
        EventKind::ProviderEvent { provider, status, errors, response_errors, .. } => format!(
            "provider_event {} {}",
            (provider == "openresponses") as u8,
            (*status == ProviderEventStatus::InvalidJson || !errors.is_empty() || !response_errors.is_empty())
                as u8
        ),
        EventKind::CheckpointFailed { .. } => "checkpoint_failed".into(),
        EventKind::OpenResponsesRequestStarted { .. } => "req_started".into(),
        EventKind::OpenResponsesResponseHeaders { .. } => "resp_headers".into(),
        EventKind::OpenResponsesResponseFirstByte { .. } => "resp_first_byte".into(),
        _ => "other".into(),
    }
}

fn status_name(s: ToolTaskStatus) -> &'static str {
    match s {
        ToolTaskStatus::Queued => "queued",
        ToolTaskStatus::Running => "running",
        ToolTaskStatus::Exited => "exited",
        ToolTaskStatus::Cancelled => "cancelled",
        ToolTaskStatus::Failed => "failed",
    }
}

pub struct Case {
    pub max_frames: usize,
    pub max_out: usize,
    pub frames: Vec<Event>,
    pub probes: Vec<u64>,
}

const MAX_PREVIEW: usize = 8192;

pub fn gen_case(rng: &mut Rng, thorough: bool) -> Case {
    let max_frames = *rng.pick(&[0usize, 1, 2, 3, 5, 8, 50]);
    // also budgets larger than the fixed preview budget (8192): a preview that borrowed the canvas
    // budget would be bounded more tightly than required by every smaller value
    let max_out = *rng.pick(&[0usize, 1, 2, 3, 7, 16, 64, 1000, 5000, 5000, 20_000, 20_000, 100_000]);
    let n = if thorough { rng.range(0, 120) } else { rng.range(0, 40) } as usize;
    // seq pattern: consecutive, gaps, repeats, arbitrary, huge
    let pattern = rng.below(6);
    let mut seq: u64 = match rng.below(4) {
        0 => 0,
        1 => rng.below(100),
        2 => u64::MAX - rng.below(6),
        _ => rng.below(10),
    };
    let mut frames = Vec::new();
    for i in 0..n {
        let s = match pattern {
            0 | 1 => seq,                                // consecutive
            2 => seq.saturating_add(rng.below(3) * rng.below(2)), // occasional gaps
            3 => rng.below(12),                          // arbitrary small, repeats
            4 => seq.saturating_sub(rng.below(3)),       // going back
            _ => {
                if rng.chance(1, 5) {
                    rng.next()
                } else {
                    seq
                }
            }
        };
        frames.push(Event {
            id: format!("{i}"),
            session_id: format!("s{}", rng.below(3)),
            timestamp_ms: rng.below(10_000),
            seq: s,
            kind: gen_kind(rng),
        });
        seq = s.saturating_add(1);
    }
    let mut probes: Vec<u64> = Vec::new();
    for f in frames.iter().rev().take(12) {
        probes.push(f.seq);
        probes.push(f.seq.wrapping_add(1));
        probes.push(f.seq.wrapping_sub(1));
    }
    for _ in 0..6 {
        probes.push(rng.below(120));
    }
    probes.push(0);
    probes.push(u64::MAX);
    Case { max_frames, max_out, frames, probes }
}

pub fn case_line(c: &Case) -> String {
    let mut s = format!("c20 {} {} {} {}", c.max_frames, c.max_out, MAX_PREVIEW, c.frames.len());
    for f in &c.frames {
        s.push_str(&format!(
            " {} {} {} {}",
            f.seq,
            f.timestamp_ms,
            hex(f.session_id.as_bytes()),
            kind_line(&f.kind)
        ));
    }
    s.push_str(&format!(" {}", c.probes.len()));
    for p in &c.probes {
        s.push_str(&format!(" {p}"));
    }
    s
}

pub fn case_json(c: &Case) -> Value {
    json!({
        "max_frames": c.max_frames,
        "max_output_bytes": c.max_out,
        "frames": c.frames.iter().map(|f| serde_json::to_value(f).unwrap()).collect::<Vec<_>>(),
        "probes": c.probes,
    })
}

pub struct ImplObs {
    pub line: String,
    /// (probe, returned seq, returned id) for lookups that returned a frame
    pub lookups: Vec<(u64, u64, String)>,
    pub len: usize,
    pub out_len: usize,
    pub max_preview: usize,
}

pub fn run_impl(c: &Case) -> Result<ImplObs, String> {
    let frames = c.frames.clone();
    let (mf, mo) = (c.max_frames, c.max_out);
    let probes = c.probes.clone();
    std::panic::catch_unwind(move || {
        let mut st = TuiState::new(mf, mo);
        for f in frames {
            st.update(f);
        }
        let fs = &st.frames;
        let opt_s = |v: &Option<String>| opt_hex(v.as_deref().map(|s| s.as_bytes()));
        let head = vec![
            fs.len().to_string(),
            opt_u64(fs.first_seq()),
            opt_u64(fs.last_seq()),
            opt_u64(st.selected_seq),
            opt_s(&st.session_id),
            opt_u64(st.start_ms),
            opt_u64(st.first_output_ms),
            opt_u64(st.end_ms),
            opt_u64(st.openresponses_request_started_ms),
            opt_u64(st.openresponses_response_headers_ms),
            opt_u64(st.openresponses_response_first_byte_ms),
            opt_u64(st.openresponses_first_provider_event_ms),
            hex(st.output_text.as_bytes()),
            (st.output_truncated as u8).to_string(),
            opt_u64(st.last_error_seq),
            opt_u64(st.last_event_ms),
        ]
        .join(" ");
        let mut max_preview = 0usize;
        let tools: Vec<String> = st
            .tools
            .iter()
            .map(|(id, t)| {
                max_preview = max_preview.max(t.stdout_preview.len()).max(t.stderr_preview.len());
                format!(
                    "{} {} {} {} {}",
                    hex(id.as_bytes()),
                    t.started_seq,
                    match &t.status {
                        ToolStatus::Running => "running".to_string(),
                        ToolStatus::Ended { exit_code, .. } => format!("ended:{exit_code}"),
                        ToolStatus::Failed { .. } => "failed".to_string(),
                    },
                    hex(t.stdout_preview.as_bytes()),
                    hex(t.stderr_preview.as_bytes())
                )
            })
            .collect();
        let tasks: Vec<String> = st
            .tasks
            .iter()
            .map(|(id, t)| {
                max_preview = max_preview
                    .max(t.stdout_preview.len())
                    .max(t.stderr_preview.len())
                    .max(t.pty_preview.len());
                format!(
                    "{} {} {} {} {}",
                    hex(id.as_bytes()),
                    status_name(t.status),
                    hex(t.stdout_preview.as_bytes()),
                    hex(t.stderr_preview.as_bytes()),
                    hex(t.pty_preview.as_bytes())
                )
            })
            .collect();
        let mut lookups = Vec::new();
        let look: Vec<String> = probes
            .iter()
            .map(|q| match fs.get_by_seq(*q) {
                None => "_".to_string(),
                Some(e) => {
                    lookups.push((*q, e.seq, e.id.clone()));
                    e.id.clone()
                }
            })
            .collect();
        let line = format!(
            "{} | {} {} | {} {} | {}",
            head,
            tools.len(),
            tools.join(" "),
            tasks.len(),
            tasks.join(" "),
            look.join(" ")
        );
        ImplObs { line, lookups, len: fs.len(), out_len: st.output_text.len(), max_preview }
    })
    .map_err(|e| {
        if let Some(s) = e.downcast_ref::<String>() {
            s.clone()
        } else if let Some(s) = e.downcast_ref::<&str>() {
            s.to_string()
        } else {
            "panic".to_string()
        }
    })
}

/// The drawn surface: the state built from the case's frames is rendered off-screen (ratatui's
/// TestBackend) at several terminal sizes in both render modes, both output views, both themes and
/// with each overlay opened. Drawing the same state twice must give the same cells. Returns the
/// number of draws and every (view variant, width, height, panic text) that panicked.
pub fn render_impl(c: &Case, sizes: &[(u16, u16)]) -> (u64, Vec<(u8, u16, u16, String)>) {
    use ratatui::backend::TestBackend;
    use ratatui::Terminal;
    use rip_tui::{render, RenderMode};
    let mut st = TuiState::new(c.max_frames, c.max_out);
    for f in c.frames.clone() {
        // a panic in update() is reported by run_impl
        if std::panic::catch_unwind(std::panic::AssertUnwindSafe(|| st.update(f))).is_err() {
            return (0, vec![]);
        }
    }
    let mut draws = 0u64;
    let mut panics: Vec<(u8, u16, u16, String)> = Vec::new();
    let draw = |st: &TuiState, w: u16, h: u16, mode: RenderMode| -> Result<Vec<String>, String> {
        std::panic::catch_unwind(std::panic::AssertUnwindSafe(|| {
            let mut terminal = Terminal::new(TestBackend::new(w, h)).expect("terminal");
            terminal.draw(|f| render(f, st, mode, "typed input é日本")).expect("draw");
            let b = terminal.backend().buffer().clone();
            b.content.iter().map(|cell| cell.symbol().to_string()).collect::<Vec<String>>()
        }))
        .map_err(|e| {
            if let Some(s) = e.downcast_ref::<String>() {
                s.clone()
            } else if let Some(s) = e.downcast_ref::<&str>() {
                s.to_string()
            } else {
                "panic".to_string()
            }
        })
    };
    for variant in 0..6u8 {
        match variant {
            1 => st.toggle_output_view(),
            2 => st.toggle_theme(),
            3 => st.toggle_activity_overlay(),
            4 => {
                st.close_overlay();
                st.toggle_tasks_overlay();
            }
            5 => {
                st.close_overlay();
                st.open_selected_detail();
            }
            _ => {}
        }
        for (w, h) in sizes {
            for mode in [RenderMode::Json, RenderMode::Decoded] {
                draws += 2;
                match (draw(&st, *w, *h, mode), draw(&st, *w, *h, mode)) {
                    (Ok(a), Ok(b)) => {
                        if a != b {
                            panics.push((variant, *w, *h, "NONDETERMINISTIC-RENDER".into()));
                        }
                    }
                    (Err(p), _) | (_, Err(p)) => panics.push((variant, *w, *h, p)),
                }
            }
        }
    }
    (draws, panics)
}

/// Runs one case on implementation and model; records disagreements and oracle failures.
pub fn eval_case(c: &Case, model: &mut Model, rep: &mut Report) {
    rep.evaluations += 1;
    let line = case_line(c);
    let m = model.ask(&line);
    match run_impl(c) {
        Err(p) => {
            rep.oracle_failure("C20|panic", &format!("TuiState::update panicked: {p}"), case_json(c));
        }
        Ok(obs) => {
            rep.traces_validated += 1;
            // implementation oracles (independent of the model)
            for (q, got_seq, got_id) in &obs.lookups {
                if got_seq != q {
                    rep.oracle_failure(
                        "C20|lookup-wrong-frame",
                        &format!("get_by_seq({q}) returned frame id={got_id} with seq {got_seq}"),
                        case_json(c),
                    );
                    break;
                }
            }
            if obs.len > c.max_frames.max(1) {
                rep.oracle_failure("C20|frames-unbounded", &format!("len {} > cap", obs.len), case_json(c));
            }
            if obs.out_len > c.max_out.max(1) {
                rep.oracle_failure("C20|output-unbounded", &format!("output {} > cap", obs.out_len), case_json(c));
            }
            if obs.max_preview > MAX_PREVIEW {
                rep.oracle_failure("C20|preview-unbounded", &format!("preview {}", obs.max_preview), case_json(c));
            }
            match run_impl(c) {
                Ok(again) if again.line == obs.line => {}
                _ => rep.oracle_failure("C20|nondeterministic", "same frames, different state", case_json(c)),
            }
            if m != obs.line {
                rep.disagreement("TuiState fold observation", case_json(c), &obs.line, &m);
            }
        }
    }
    if c.frames.len() > c.max_frames.max(1) {
        rep.count("evicting");
    }
    if c.frames.windows(2).any(|w| w[1].seq != w[0].seq.wrapping_add(1)) {
        rep.count("non_consecutive_seqs");
    }
    rep.count(&format!("len_bucket_{}", (c.frames.len() / 20) * 20));
    if c.frames.len() >= 2 {
        rep.nontrivial_case(&line);
    }
    rep.sample(json!({"case_line_prefix": line.chars().take(300).collect::<String>()}));
}

const MIN_COLS: u16 = 20;
const MIN_ROWS: u16 = 6;

pub fn run(opts: &Opts) -> Report {
    let mut rep = Report::new(
        "C20",
        "random frame sequences (all update-relevant kinds; consecutive/gapped/repeated/huge seqs; 3 sessions; multi-byte text) x capacities; non-trivial = >=2 frames, distinct by case-line hash",
    );
    let mut model = Model::spawn();
    // corpus first: the minimal counterexample to lookup exactness found in round 0
    let mk = |seq: u64, i: usize| Event {
        id: format!("{i}"),
        session_id: "s".into(),
        timestamp_ms: 0,
        seq,
        kind: EventKind::SessionEnded { reason: "x".into() },
    };
    let corpus = Case { max_frames: 10, max_out: 10, frames: vec![mk(10, 0), mk(20, 1)], probes: vec![10, 11, 20] };
    eval_case(&corpus, &mut model, &mut rep);
    let mut rng = Rng::new(opts.seed);
    let n = if opts.thorough { 20_000 } else { 3_000 } * opts.scale;
    for k in 0..n {
        let c = gen_case(&mut rng, opts.thorough);
        eval_case(&c, &mut model, &mut rep);
        // every 10th case is also drawn (6 view variants x sizes x 2 modes x 2 draws)
        if k % 10 == 0 {
            let sizes: Vec<(u16, u16)> = vec![(*rng.pick(&[1u16, 2, 5, 9, 17]), *rng.pick(&[1u16, 2, 3, 6])), (*rng.pick(&[20u16, 21, 24, 33]), *rng.pick(&[6u16, 7, 9, 12])), (80, 24), (*rng.pick(&[30u16, 120, 200]), *rng.pick(&[8u16, 40, 60]))];
            rep.evaluations += 1;
            let (d, panics) = render_impl(&c, &sizes);
            rep.count("render_cases");
            rep.count_n("render_draws", d);
            for (variant, w, h, p) in panics {
                let short: String = p.chars().take(200).collect();
                // below MIN_COLS x MIN_ROWS the fixed chrome of the layout does not fit whatever the
                // frames are (the empty state panics there too): terminal size is not what the
                // property quantifies over, so those draws are counted, not judged
                if w < MIN_COLS || h < MIN_ROWS {
                    rep.count("render_panics_below_minimum_terminal_size");
                    continue;
                }
                let sig = if p == "NONDETERMINISTIC-RENDER" { "C20|render-nondeterministic" } else { "C20|render-panic" };
                rep.oracle_failure(sig, &format!("drawing the state built from these frames at {w}x{h} (view variant {variant}): {short}"), json!({"case": case_json(&c), "size": [w, h], "view_variant": variant}));
            }
        }
    }
    rep
}
