//! C10: branch / handoff lineage vs the Lean model `Rip.Lineage`.
use crate::common::*;
use crate::store::*;
use serde_json::{json, Value};

fn err_class(e: &str) -> &'static str {
    if e.contains("only one of") {
        "conflicting"
    } else if e.contains("does not exist") {
        "no-such-thread"
    } else if e.contains("out of range") {
        "out-of-range"
    } else if e.contains("from_message_id not found") {
        "not-found"
    } else if e.contains("requires summary_markdown") {
        "no-summary"
    } else if e.contains("summary_artifact_id not found") {
        "artifact-missing"
    } else {
        "other"
    }
}

pub fn run(opts: &Opts) -> Report {
    let mut rep = Report::new(
        "C10",
        "random source-thread histories (messages, run spawned/ended referring to earlier messages, side effects; 1-3 threads incl. earlier branches) x every selector shape {none, from_seq in/out of range, from_message_id known / unknown / id of a non-message frame, both} x {branch, handoff with markdown / existing artifact id / missing artifact id / malformed id / neither}; non-trivial = source thread with >=3 messages and a selector other than none, distinct by canonical case",
    );
    let mut model = Model::spawn();
    let mut rng = Rng::new(opts.seed);
    let n = if opts.thorough { 4000 } else { 400 } * opts.scale;
    let rt = tokio::runtime::Builder::new_current_thread().enable_all().build().unwrap();
    for _ in 0..n {
        // one case in three goes through the HTTP layer (payload parsing, defaults, status mapping)
        let via_http = rng.chance(1, 3);
        let (ts, app) = if via_http {
            let (t, a) = TestStore::with_app("c10h");
            (t, Some(a))
        } else {
            (TestStore::new("c10"), None)
        };
        let store = &ts.store;
        let t0 = store.ensure_default().unwrap();
        let mut msgs: Vec<Msg> = Vec::new();
        let mut threads = vec![t0.clone()];
        let k = rng.range(0, 14) as usize;
        random_history(store, &t0, &mut rng, k, &mut msgs);
        if rng.chance(1, 3) {
            if let Ok((child, _, _)) = store.branch(&t0, None, None, None, "u".into(), "cli".into()) {
                let k = rng.range(0, 6) as usize;
                random_history(store, &child, &mut rng, k, &mut msgs);
                threads.push(child);
            }
        }
        // an id that names no thread: a plain unknown one, or a path alias of a real thread (as a file
        // name in the cache directory it opens the real thread's files)
        let src = match rng.below(12) {
            0 => "no-such-thread".to_string(),
            1 => {
                rep.count("source_id_is_a_path_alias");
                let real = rng.pick(&threads).clone();
                match rng.below(4) {
                    0 => format!("./{real}"),
                    1 => format!("../continuity_streams/{real}"),
                    2 => format!("{real}/."),
                    _ => format!("x/../{real}"),
                }
            }
            _ => rng.pick(&threads).clone(),
        };
        let before = ts.frames();
        let before_bytes = ts.log_bytes();
        let src_frames: Vec<&Value> = before.iter().filter(|f| f["session_id"].as_str() == Some(src.as_str())).collect();
        let head = src_frames.last().and_then(|f| f["seq"].as_u64()).unwrap_or(0);
        let own_msgs: Vec<&Msg> = msgs.iter().filter(|m| m.thread == src).collect();
        // selector
        let (from_message_id, from_seq): (Option<String>, Option<u64>) = match rng.below(9) {
            0 | 1 => (None, None),
            2 | 3 => (None, Some(rng.below(head + 1))),
            4 => (None, Some(head + 1 + rng.below(3))),
            5 | 6 if !own_msgs.is_empty() => {
                // half of the time a message whose run ended only after a LATER message was posted
                // (overlapping turns), when the history has one
                let overlapped: Vec<&&Msg> = own_msgs
                    .iter()
                    .filter(|m| {
                        let end = src_frames.iter().filter(|f| f["type"] == "continuity_run_ended" && f["message_id"].as_str() == Some(m.id.as_str())).filter_map(|f| f["seq"].as_u64()).max();
                        let my_seq = src_frames.iter().find(|f| f["id"].as_str() == Some(m.id.as_str())).and_then(|f| f["seq"].as_u64()).unwrap_or(u64::MAX);
                        end.map(|e| src_frames.iter().any(|f| f["type"] == "continuity_message_appended" && f["seq"].as_u64().map(|q| q > my_seq && q < e).unwrap_or(false))).unwrap_or(false)
                    })
                    .collect();
                if !overlapped.is_empty() && rng.chance(1, 2) {
                    rep.count("cut_by_message_with_overlapping_turns");
                    (Some(rng.pick(&overlapped).id.clone()), None)
                } else {
                    (Some(rng.pick(&own_msgs).id.clone()), None)
                }
            }
            7 => {
                // an id that exists but is not a message (or is a message of another thread), or unknown
                let other = before.iter().filter(|f| f["type"] != "continuity_message_appended" || f["session_id"].as_str() != Some(src.as_str())).map(|f| f["id"].as_str().unwrap_or("").to_string()).collect::<Vec<_>>();
                if !other.is_empty() && rng.chance(2, 3) { (Some(rng.pick(&other).clone()), None) } else { (Some("00000000-0000-0000-0000-000000000000".into()), None) }
            }
            8 => (Some(own_msgs.first().map(|m| m.id.clone()).unwrap_or_else(|| "x".into())), Some(rng.below(head + 1))),
            _ => (None, None),
        };
        let is_branch = rng.chance(1, 2);
        // summary for handoff
        let existing_artifact = {
            let dir = ts.ws.join(".rip/artifacts/blobs");
            std::fs::create_dir_all(&dir).unwrap();
            let id = "ab".repeat(32);
            std::fs::write(dir.join(&id), b"{}").unwrap();
            id
        };
        let (markdown, artifact): (Option<String>, Option<String>) = match rng.below(7) {
            0 | 1 => (Some("# summary".into()), None),
            2 => (None, Some(existing_artifact.clone())),
            3 => (None, Some("cd".repeat(32))),
            4 => (Some("# s".into()), Some("deadbeef-not-an-artifact".into())),
            5 => (None, None),
            _ => (Some("# s".into()), Some(existing_artifact.clone())),
        };
        rep.evaluations += 1;
        let mut http_status: Option<u16> = None;
        let result = if let Some(app) = &app {
            rep.count("via_http");
            let mut body = json!({"actor_id": "u", "origin": "cli"});
            if let Some(m) = &from_message_id {
                body["from_message_id"] = json!(m);
            }
            if let Some(q) = from_seq {
                body["from_seq"] = json!(q);
            }
            if !is_branch {
                if let Some(m) = &markdown {
                    body["summary_markdown"] = json!(m);
                }
                if let Some(a) = &artifact {
                    body["summary_artifact_id"] = json!(a);
                }
            }
            let uri = format!("/threads/{}/{}", src.replace('%', "%25").replace('/', "%2F"), if is_branch { "branch" } else { "handoff" });
            let (st, v) = rt.block_on(crate::http::call_json(&app.router, "POST", &uri, Some(body)));
            http_status = Some(st.as_u16());
            if st == axum::http::StatusCode::CREATED {
                let (qk, mk) = if is_branch { ("parent_seq", "parent_message_id") } else { ("from_seq", "from_message_id") };
                Ok((v["thread_id"].as_str().unwrap_or("").to_string(), v[qk].as_u64().unwrap_or(u64::MAX), v[mk].as_str().map(|s| s.to_string())))
            } else {
                Err(format!("http {}", st.as_u16()))
            }
        } else if is_branch {
            store.branch(&src, None, from_message_id.clone(), from_seq, "u".into(), "cli".into()).map(|(c, q, m)| (c, q, m))
        } else {
            store.handoff(&src, None, (markdown.clone(), artifact.clone()), from_message_id.clone(), from_seq, ("u".into(), "cli".into()))
        };
        rep.traces_validated += 1;
        let after = ts.frames();
        let after_bytes = ts.log_bytes();
        // canonical case for the model
        let mut canon = Canon::default();
        let frame_toks: Vec<String> = before.iter().map(|f| frame_tokens(f, &mut canon)).collect();
        let parent_idx = canon.get(&src).unwrap_or(999_999);
        let sel = match (&from_message_id, from_seq) {
            (None, None) => "none".to_string(),
            (None, Some(q)) => format!("seq {q}"),
            (Some(m), None) => format!("msg {}", canon.get(m).unwrap_or(999_998)),
            (Some(m), Some(q)) => format!("both {q} {}", canon.get(m).unwrap_or(999_998)),
        };
        let art_tok = match &artifact {
            None => "_".to_string(),
            Some(a) if *a == existing_artifact => "7".to_string(),
            Some(_) => "8".to_string(),
        };
        let line = format!(
            "c10 {} {} {} {} {} {} {} 1 7",
            frame_toks.len(),
            frame_toks.join(" "),
            if is_branch { "branch" } else { "handoff" },
            parent_idx,
            sel,
            markdown.is_some() as u8,
            art_tok
        );
        let line = line.replace("  ", " ");
        let m = model.ask(&line);
        let case = json!({
            "op": if is_branch { "branch" } else { "handoff" }, "source": parent_idx, "selector": sel,
            "summary_markdown": markdown.is_some(), "summary_artifact": artifact.as_ref().map(|a| if *a == existing_artifact { "existing" } else { "missing-or-malformed" }),
            "source_frames": src_frames.iter().map(|f| format!("{}@{}", f["type"].as_str().unwrap_or("?").replace("continuity_", ""), f["seq"])).collect::<Vec<_>>(),
        });
        let impl_line = match &result {
            Err(e) => format!("err {}", err_class(e)),
            Ok((child, q, mid)) => {
                let parent_frames = after.iter().filter(|f| f["session_id"].as_str() == Some(src.as_str())).count();
                let child_frames: Vec<&Value> = after.iter().filter(|f| f["session_id"].as_str() == Some(child.as_str())).collect();
                let midx = mid.as_ref().map(|m| canon.get(m).map(|x| x.to_string()).unwrap_or("?".into())).unwrap_or("_".into());
                let mut s = format!("ok cut={q} msg={midx} parent_frames={parent_frames} child_frames={}", child_frames.len());
                if !is_branch {
                    let lineage = child_frames.get(1).cloned().cloned().unwrap_or(Value::Null);
                    let a = lineage["summary_artifact_id"].as_str();
                    let tok = match (a, &artifact) {
                        (Some(x), Some(given)) if x == given && *given == existing_artifact => "7".to_string(),
                        (Some(x), Some(given)) if x == given => "8".to_string(),
                        (Some(_), None) => "1000003".to_string(),
                        (None, _) => "_".to_string(),
                        _ => "?".to_string(),
                    };
                    s.push_str(&format!(" artifact={tok}"));
                }
                s
            }
        };
        if let Some(st) = http_status {
            // over HTTP a refusal is a status: the model's error class decides which one
            let want_status = match m.strip_prefix("err ") {
                None => 201,
                Some("conflicting") | Some("out-of-range") | Some("no-summary") => 400,
                Some("no-such-thread") | Some("not-found") | Some("artifact-missing") => 404,
                Some(_) => 500,
            };
            if st != want_status || (st == 201 && impl_line != m) {
                rep.disagreement("branch/handoff over HTTP", case.clone(), &format!("status {st} {impl_line}"), &format!("status {want_status} {m}"));
            }
        } else if impl_line != m {
            rep.disagreement("branch/handoff result", case.clone(), &impl_line, &m);
        }
        // implementation oracles
        if !after_bytes.starts_with(&before_bytes) {
            rep.oracle_failure("C10|log-not-append-only", "the log's previous content is not a prefix after branch/handoff", case.clone());
        }
        let parent_before: Vec<&Value> = before.iter().filter(|f| f["session_id"].as_str() == Some(src.as_str())).collect();
        let parent_after: Vec<&Value> = after.iter().filter(|f| f["session_id"].as_str() == Some(src.as_str())).collect();
        if parent_before != parent_after {
            rep.oracle_failure("C10|parent-touched", "the source thread gained or changed a frame", case.clone());
        }
        match &result {
            Ok((child, q, _)) => {
                let cf: Vec<&Value> = after.iter().filter(|f| f["session_id"].as_str() == Some(child.as_str())).collect();
                let shape_ok = cf.len() == 2
                    && cf[0]["type"] == "continuity_created"
                    && cf[0]["seq"] == 0
                    && cf[1]["seq"] == 1
                    && cf[1]["type"] == if is_branch { "continuity_branched" } else { "continuity_handoff_created" };
                if !shape_ok {
                    rep.oracle_failure("C10|child-prefix", "the new thread does not start with [created@0, lineage@1]", case.clone());
                }
                // the lineage record names a thread that exists
                if !before.iter().any(|f| f["session_id"].as_str() == Some(src.as_str())) {
                    rep.oracle_failure("C10|lineage-names-no-thread", &format!("a {} from '{src}' succeeded: the log holds no frame of a stream with that id", if is_branch { "branch" } else { "handoff" }), case.clone());
                }
                if *q > head {
                    rep.oracle_failure("C10|cut-out-of-range", &format!("recorded cut {q} beyond the source head {head}"), case.clone());
                }
                // the recorded message id names a message of the source thread at or before the cut,
                // and no message lies between it and the cut unless it was requested explicitly
                let lineage = cf.get(1);
                let rec_mid = lineage.and_then(|f| f[if is_branch { "parent_message_id" } else { "from_message_id" }].as_str());
                let msgs_before_cut: Vec<&&Value> = parent_before.iter().filter(|f| f["type"] == "continuity_message_appended" && f["seq"].as_u64().unwrap_or(u64::MAX) <= *q).collect();
                match rec_mid {
                    Some(mid) => {
                        if !msgs_before_cut.iter().any(|f| f["id"].as_str() == Some(mid)) {
                            rep.oracle_failure("C10|recorded-message-is-not-a-message-before-the-cut", &format!("the lineage record names {mid}, which is not a message of the source thread at or before seq {q}"), case.clone());
                        }
                    }
                    None => {
                        if !msgs_before_cut.is_empty() {
                            rep.oracle_failure("C10|recorded-message-missing", &format!("the lineage record names no message although the source has {} at or before seq {q}", msgs_before_cut.len()), case.clone());
                        }
                    }
                }
                // a cut requested by message id alone covers that message and the end of every run
                // that answered it, however the turns of the source thread overlap
                if let (Some(m), None) = (&from_message_id, from_seq) {
                    let ends: Vec<u64> = parent_before
                        .iter()
                        .filter(|f| (f["type"] == "continuity_run_ended" || f["type"] == "continuity_message_appended" && f["id"].as_str() == Some(m.as_str())) && (f["type"] != "continuity_run_ended" || f["message_id"].as_str() == Some(m.as_str())))
                        .filter_map(|f| f["seq"].as_u64())
                        .collect();
                    if let Some(e) = ends.iter().max() {
                        if *q < *e {
                            rep.oracle_failure("C10|cut-by-message-excludes-the-end-of-its-run", &format!("cut requested by message id: recorded cut {q} lies before seq {e}, the end of a run that answered the message (or the message itself)"), case.clone());
                        }
                    }
                }
                if !is_branch {
                    let a = cf.get(1).and_then(|f| f["summary_artifact_id"].as_str()).unwrap_or("");
                    let blob = ts.ws.join(".rip/artifacts/blobs").join(a);
                    if a.is_empty() || !blob.is_file() {
                        rep.oracle_failure("C10|handoff-summary-not-resolvable", &format!("handoff recorded summary_artifact_id {a:?} which is not in the artifact store"), case.clone());
                    }
                }
                rep.count(if is_branch { "branch_ok" } else { "handoff_ok" });
            }
            Err(e) => {
                if after.len() != before.len() {
                    rep.oracle_failure("C10|failed-op-wrote", &format!("a failed {} ({e}) appended frames", if is_branch { "branch" } else { "handoff" }), case.clone());
                }
                rep.count(&format!("err_{}", err_class(e)));
            }
        }
        if own_msgs.len() >= 3 && sel != "none" {
            rep.nontrivial_case(&line);
        }
        rep.sample(case);
    }
    rep
}
