//! C14: checkpoint / rewind vs the Lean model `Rip.Checkpoint`.
use crate::c12::{gen_case as gen_ws, list_tree, materialize, Case as WsCase};
use crate::common::*;
use rip_workspace::Workspace;
use serde_json::{json, Value};
use std::collections::BTreeMap;
use std::path::{Path, PathBuf};

const NAMES: &[&str] = &["a", "b", "c", "sub", "x.txt", "é", "d e", "new"];

#[derive(Clone, Debug)]
enum Cmd {
    Ck(Vec<String>),
    Rw(usize),
    Set(String, Vec<u8>),
    Rm(String),
    Mkdir(String),
}

fn rel_path(rng: &mut Rng) -> String {
    let n = rng.range(1, 3);
    (0..n).map(|_| *rng.pick(NAMES)).collect::<Vec<_>>().join("/")
}

fn spell(rng: &mut Rng, root: &Path, p: &str) -> String {
    match rng.below(40) {
        0..=3 => format!("{}/{}", root.to_string_lossy(), p),
        11..=14 => format!("./{p}"),
        4 => p.replace('/', "//"),
        5 => format!("../{p}"),
        6 => format!("{}/../{}", root.to_string_lossy(), p),
        7 => format!("/{p}"),
        8 => format!("{p}/"),
        9 => format!("{p}/."),
        10 => format!("{}/./{}", root.to_string_lossy(), p),
        _ => p.to_string(),
    }
}

fn force_clear(root: &Path, p: &str) {
    let full = root.join(p);
    if full.is_dir() {
        let _ = std::fs::remove_dir_all(&full);
    } else if full.exists() {
        let _ = std::fs::remove_file(&full);
    }
    // files at proper prefixes
    let comps: Vec<&str> = p.split('/').collect();
    for i in 1..comps.len() {
        let pre = root.join(comps[..i].join("/"));
        if pre.is_file() {
            let _ = std::fs::remove_file(&pre);
        }
    }
}

struct Run {
    line: String,
    files: BTreeMap<String, Vec<u8>>,
}

fn run_impl(ws: &WsCase, cmds: &[Cmd], root: &Path, cwd_root: bool, rep: &mut Report, case: &Value) -> Run {
    std::fs::create_dir_all(root).unwrap();
    materialize(ws, root);
    let other = root.parent().unwrap().join("elsewhere");
    std::fs::create_dir_all(&other).unwrap();
    std::fs::write(other.join("a"), b"decoy").unwrap();
    let start = std::env::current_dir().unwrap();
    std::env::set_current_dir(if cwd_root { root } else { &other }).unwrap();
    let w = Workspace::new(root).unwrap();
    let mut outs: Vec<String> = Vec::new();
    let mut ids: Vec<(String, Vec<(String, bool)>, BTreeMap<String, Option<Vec<u8>>>)> = Vec::new();
    for c in cmds {
        match c {
            Cmd::Ck(raws) => {
                let files: Vec<PathBuf> = raws.iter().map(PathBuf::from).collect();
                // what each covered file looks like right now (for the implementation oracle)
                match w.create_checkpoint("s", "l", &files) {
                    Ok(ck) => {
                        let mut snap = BTreeMap::new();
                        for f in &ck.files {
                            let p = root.join(&f.path);
                            snap.insert(f.path.clone(), if p.is_file() { Some(std::fs::read(&p).unwrap()) } else { None });
                        }
                        // canonical spelling: normal components joined by '/'
                        let canon = |p: &str| -> String {
                            Path::new(p)
                                .components()
                                .filter_map(|c| match c {
                                    std::path::Component::Normal(n) => Some(n.to_string_lossy().to_string()),
                                    _ => None,
                                })
                                .collect::<Vec<_>>()
                                .join("/")
                        };
                        outs.push(format!(
                            "ck ok {}",
                            ck.files.iter().map(|f| format!("{}:{}", hex(canon(&f.path).as_bytes()), f.exists as u8)).collect::<Vec<_>>().join(",")
                        ));
                        ids.push((ck.id.clone(), ck.files.iter().map(|f| (f.path.clone(), f.exists)).collect(), snap));
                    }
                    Err(e) => {
                        let m = e.to_string();
                        let class = if m.contains("path outside workspace") {
                            "outside"
                        } else if m.contains("escapes workspace root") {
                            "parent"
                        } else {
                            "io"
                        };
                        outs.push(format!("ck err {class}"));
                    }
                }
            }
            Cmd::Rw(k) => match ids.get(*k) {
                None => outs.push("rw missing".into()),
                Some((id, _files, snap)) => {
                    let (before, _) = list_tree(root);
                    match w.rewind_to_checkpoint("s", id) {
                        Ok(()) => {
                            outs.push("rw ok".into());
                            // oracle: every covered file has exactly the bytes it had at checkpoint time
                            for (p, want) in snap {
                                let full = root.join(p);
                                let got = if full.is_file() { Some(std::fs::read(&full).unwrap()) } else { None };
                                if &got != want {
                                    rep.oracle_failure(
                                        "C14|rewind-not-exact",
                                        &format!("after rewind {p:?} has {:?}, at checkpoint time it had {:?}", got.as_ref().map(|b| String::from_utf8_lossy(b).to_string()), want.as_ref().map(|b| String::from_utf8_lossy(b).to_string())),
                                        case.clone(),
                                    );
                                }
                            }
                        }
                        Err(e) => {
                            outs.push("rw err".into());
                            let (after, _) = list_tree(root);
                            if after != before {
                                rep.oracle_failure("C14|failed-rewind-changed-workspace", "rewind returned Err but files differ", case.clone());
                            }
                            // an edit can always be undone: the checkpoint store was not touched, so a rewind
                            // may only fail when the file system stands in the way (a covered path is now a
                            // directory, or one of its ancestors is now a regular file)
                            let blocked = snap.iter().any(|(p, _)| {
                                let full = root.join(p);
                                full.is_dir() || full.ancestors().skip(1).take_while(|a| a.starts_with(root) && *a != root).any(|a| a.is_file())
                            });
                            if !blocked {
                                rep.oracle_failure("C14|rewind-of-restorable-checkpoint-failed", &format!("rewind to an intact checkpoint failed ({e}) although no covered path is blocked by a directory or a file"), case.clone());
                            }
                        }
                    }
                }
            },
            Cmd::Set(p, b) => {
                force_clear(root, p);
                let full = root.join(p);
                std::fs::create_dir_all(full.parent().unwrap()).unwrap();
                std::fs::write(&full, b).unwrap();
            }
            Cmd::Rm(p) => force_clear_only(root, p),
            Cmd::Mkdir(p) => {
                force_clear(root, p);
                std::fs::create_dir_all(root.join(p)).unwrap();
            }
        }
    }
    std::env::set_current_dir(start).unwrap();
    let (files, dirs) = list_tree(root);
    let line = format!(
        "{} | {} {} | {} {}",
        outs.join(" ; "),
        files.len(),
        files.iter().map(|(p, b)| format!("{} {}", hex(p.as_bytes()), hex(b))).collect::<Vec<_>>().join(" "),
        dirs.len(),
        dirs.iter().map(|d| hex(d.as_bytes())).collect::<Vec<_>>().join(" ")
    );
    Run { line, files }
}

fn force_clear_only(root: &Path, p: &str) {
    let full = root.join(p);
    if full.is_dir() {
        let _ = std::fs::remove_dir_all(&full);
    } else if full.exists() {
        let _ = std::fs::remove_file(&full);
    }
    // model's `rm` also removes files at proper prefixes (none can exist if p exists); keep symmetric
    let comps: Vec<&str> = p.split('/').collect();
    for i in 1..comps.len() {
        let pre = root.join(comps[..i].join("/"));
        if pre.is_file() {
            let _ = std::fs::remove_file(&pre);
        }
    }
}

fn cmd_tokens(c: &Cmd) -> String {
    match c {
        Cmd::Ck(raws) => format!("ck {}{}", raws.len(), raws.iter().map(|r| format!(" {}", hex(r.as_bytes()))).collect::<String>()),
        Cmd::Rw(k) => format!("rw {k}"),
        Cmd::Set(p, b) => format!("set {} {}", hex(p.as_bytes()), hex(b)),
        Cmd::Rm(p) => format!("rm {}", hex(p.as_bytes())),
        Cmd::Mkdir(p) => format!("mkdir {}", hex(p.as_bytes())),
    }
}

/// Tool level: an automatic checkpoint precedes every file-editing tool and undoes the edit.
fn auto_checkpoint_cases(rep: &mut Report, rng: &mut Rng, n: u64) {
    use rip_kernel::EventKind;
    use rip_tools::{register_builtin_tools, BuiltinToolConfig, ToolInvocation, ToolRegistry, ToolRunner};
    use std::sync::Arc;
    let rt = tokio::runtime::Builder::new_multi_thread().worker_threads(2).enable_all().build().unwrap();
    let start = std::env::current_dir().unwrap();
    for i in 0..n {
        let scratch = Scratch::new("c14t");
        let root = scratch.path().join("ws");
        std::fs::create_dir_all(&root).unwrap();
        let ws = gen_ws(rng);
        materialize(&ws, &root);
        let other = scratch.path().join("elsewhere");
        std::fs::create_dir_all(&other).unwrap();
        let cwd_root = i % 2 == 0;
        std::env::set_current_dir(if cwd_root { &root } else { &other }).unwrap();
        let registry = Arc::new(ToolRegistry::default());
        register_builtin_tools(&registry, BuiltinToolConfig { workspace_root: root.clone(), ..BuiltinToolConfig::default() });
        let hook = ripd::verif_export::WorkspaceCheckpointHook::new(root.clone()).unwrap();
        let runner = ToolRunner::with_checkpoint_hook(registry, 2, Arc::new(hook));
        // one case in three: an earlier automatic checkpoint of the same session failed half-way (the
        // write names an existing directory: the checkpoint directory exists, its manifest does not)
        let mut seq = 0u64;
        if rng.chance(1, 3) {
            let d = format!("existing-dir-{i}");
            std::fs::create_dir_all(root.join(&d)).unwrap();
            let _ = rt.block_on(runner.run("s", &mut seq, ToolInvocation { name: "write".into(), args: json!({"path": d, "content": "x"}), timeout_ms: None }));
            rep.count("auto_checkpoint_cases_after_a_failed_checkpoint");
        }
        let (before, _) = list_tree(&root);
        let inv = if rng.chance(1, 2) || ws.patch.is_empty() {
            let p = if !ws.files.is_empty() && rng.chance(2, 3) { rng.pick(&ws.files).0.clone() } else { rel_path(rng) };
            ToolInvocation {
                name: "write".into(),
                args: json!({"path": p, "content": "edited", "append": rng.chance(1, 4), "atomic": rng.chance(1, 2)}),
                timeout_ms: None,
            }
        } else {
            ToolInvocation { name: "apply_patch".into(), args: json!({"patch": ws.patch}), timeout_ms: None }
        };
        let case = json!({"tool": inv.name, "args": inv.args, "files": ws.files.iter().map(|f| f.0.clone()).collect::<Vec<_>>(), "dirs": ws.dirs, "cwd": if cwd_root {"root"} else {"elsewhere"}});
        let events = rt.block_on(runner.run("s", &mut seq, inv));
        rep.evaluations += 1;
        let started_at = events.iter().position(|e| matches!(e.kind, EventKind::ToolStarted { .. }));
        let ck = events.iter().enumerate().find_map(|(i, e)| match &e.kind {
            EventKind::CheckpointCreated { checkpoint_id, auto: true, .. } => Some((i, checkpoint_id.clone())),
            _ => None,
        });
        let (after, _) = list_tree(&root);
        let changed = after != before;
        match (&ck, started_at) {
            (Some((ci, id)), Some(si)) => {
                if ci > &si {
                    rep.oracle_failure("C14|auto-checkpoint-after-start", "checkpoint_created follows tool_started", case.clone());
                }
                let mut seq2 = seq;
                let ev = runner.rewind_checkpoint("s", &mut seq2, id);
                let ok = ev.iter().any(|e| matches!(e.kind, EventKind::CheckpointRewound { .. }));
                let (restored, _) = list_tree(&root);
                if ok && restored != before {
                    let diff: Vec<&String> = before.keys().chain(restored.keys()).filter(|k| before.get(*k) != restored.get(*k)).collect();
                    rep.oracle_failure("C14|auto-checkpoint-does-not-undo", &format!("rewinding the automatic checkpoint does not restore {diff:?}"), case.clone());
                }
                if !ok && changed {
                    // "an edit can always be undone": the checkpoint was taken, nothing else touched the workspace
                    let why = ev.iter().find_map(|e| match &e.kind { EventKind::CheckpointFailed { error, .. } => Some(error.clone()), _ => None }).unwrap_or_default();
                    // the class of the refusal is part of the signature: one class is a recorded finding
                    let class = if why.contains("Is a directory") || why.contains("Not a directory") || why.contains("File exists") || why.contains("Directory not empty") { "path-changed-between-file-and-directory" } else { "other" };
                    rep.oracle_failure(&format!("C14|auto-checkpoint-cannot-be-rewound|{class}"), &format!("the tool changed files after its automatic checkpoint {id} and the rewind to it is refused: {why}"), case.clone());
                }
                rep.count("auto_checkpoint_taken");
            }
            (None, _) => {
                if changed {
                    rep.oracle_failure("C14|edit-without-auto-checkpoint", "the tool changed files but no automatic checkpoint was taken", case.clone());
                }
                rep.count("auto_checkpoint_refused_or_failed");
            }
            _ => {}
        }
        if changed {
            rep.count("tool_changed_files");
            rep.nontrivial_case(&case.to_string());
        }
        std::env::set_current_dir(&start).unwrap();
    }
}

pub fn run(opts: &Opts) -> Report {
    let mut rep = Report::new(
        "C14",
        "random workspaces x command histories {checkpoint of 1-4 paths (existing, missing, nested, relative, absolute, aliased, escaping, trailing slash), rewind of any earlier checkpoint, forced edits: set file / remove / mkdir (incl. file<->directory flips)} x process cwd {root, elsewhere}; non-trivial = history with >=1 successful checkpoint and >=1 rewind, distinct by case hash",
    );
    let mut model = Model::spawn();
    let mut rng = Rng::new(opts.seed);
    let n = if opts.thorough { 30_000 } else { 2_500 } * opts.scale;
    auto_checkpoint_cases(&mut rep, &mut rng, n / 3);
    for i in 0..n {
        let scratch = Scratch::new("c14");
        let root = scratch.path().join("ws");
        let mut ws = gen_ws(&mut rng);
        ws.patch.clear();
        let existing: Vec<String> = ws.files.iter().map(|f| f.0.clone()).collect();
        let mut cmds = Vec::new();
        let mut nck = 0usize;
        let ncmd = rng.range(2, 9);
        for _ in 0..ncmd {
            let pick = |rng: &mut Rng| -> String {
                if !existing.is_empty() && rng.chance(2, 3) {
                    rng.pick(&existing).clone()
                } else {
                    rel_path(rng)
                }
            };
            match rng.below(10) {
                0 | 1 | 2 => {
                    let k = rng.range(1, 4);
                    let raws = (0..k).map(|_| { let p = pick(&mut rng); spell(&mut rng, &root, &p) }).collect();
                    cmds.push(Cmd::Ck(raws));
                    nck += 1;
                }
                3 | 4 | 9 => {
                    if nck > 0 {
                        cmds.push(Cmd::Rw(rng.below(nck as u64 + 1) as usize));
                    }
                }
                5 | 6 => cmds.push(Cmd::Set(pick(&mut rng), rng.pick(&[b"new".to_vec(), b"".to_vec(), b"x\r\ny".to_vec(), vec![0xff, 0x00]]).clone())),
                7 => cmds.push(Cmd::Rm(pick(&mut rng))),
                8 => cmds.push(Cmd::Mkdir(pick(&mut rng))),
                _ if rng.chance(1, 2) => {
                    if nck > 0 {
                        cmds.push(Cmd::Rw(rng.below(nck as u64) as usize));
                    }
                }
                _ => {
                    // turn an existing file into a directory with a child
                    let p = pick(&mut rng);
                    cmds.push(Cmd::Set(format!("{p}/child"), b"c".to_vec()));
                }
            }
        }
        let cwd_root = i % 2 == 0;
        let case = json!({
            "dirs": ws.dirs, "files": ws.files.iter().map(|(p, b)| json!({"path": p, "bytes_hex": hex(b)})).collect::<Vec<_>>(),
            "cmds": cmds.iter().map(|c| format!("{c:?}").replace(&*root.to_string_lossy(), "<ROOT>")).collect::<Vec<_>>(),
            "cwd": if cwd_root { "root" } else { "elsewhere" },
        });
        rep.evaluations += 1;
        let r = run_impl(&ws, &cmds, &root, cwd_root, &mut rep, &case);
        rep.traces_validated += 1;
        let _ = &r.files;
        let mut line = format!("c14 {} {}", hex(root.to_string_lossy().as_bytes()), ws.dirs.len());
        for d in &ws.dirs {
            line.push_str(&format!(" {}", hex(d.as_bytes())));
        }
        line.push_str(&format!(" {}", ws.files.len()));
        for (p, b) in &ws.files {
            line.push_str(&format!(" {} {}", hex(p.as_bytes()), hex(b)));
        }
        line.push_str(&format!(" {}", cmds.len()));
        for c in &cmds {
            line.push_str(&format!(" {}", cmd_tokens(c)));
        }
        let m = model.ask(&line);
        if m != r.line {
            rep.disagreement("checkpoint/rewind history", case.clone(), &r.line, &m);
        }
        let ok_ck = r.line.matches("ck ok").count();
        let rw = r.line.matches("rw ok").count() + r.line.matches("rw err").count();
        rep.count_n("ck_ok", ok_ck as u64);
        rep.count_n("ck_err", r.line.matches("ck err").count() as u64);
        rep.count_n("rw_ok", r.line.matches("rw ok").count() as u64);
        rep.count_n("rw_err", r.line.matches("rw err").count() as u64);
        if ok_ck >= 1 && rw >= 1 {
            rep.nontrivial_case(&line.replace(&hex(root.to_string_lossy().as_bytes()), "R"));
        }
        rep.sample(case);
    }
    rep
}
