//! C15: SSE decoder / UTF-8 carry / frame mapper vs the Lean model `Rip.Sse`.
use crate::common::*;
use rip_kernel::{Event, EventKind, ProviderEventStatus};
use rip_provider_openresponses::{ParsedEventKind, SseDecoder};
use serde_json::{json, Value};
use std::collections::BTreeMap;

const DATAS: &[&str] = &[
    r#"{"type":"response.output_text.delta","delta":"Hel"}"#,
    r#"{"type":"response.output_text.delta","delta":"lo é日🙂"}"#,
    r#"{"type":"response.output_text.delta","delta":""}"#,
    r#"{"type":"response.output_text.delta","delta":7}"#,
    r#"{"type":"response.created","response":{"id":"r1"}}"#,
    r#"{"type":"response.completed"}"#,
    r#"{not json}"#,
    r#"[1,2,3]"#,
    r#""just a string""#,
    r#"{"type":"response.output_text.delta","delta":"a\nb"}"#,
    "[DONE]",
    "[DONE] ",
    "x",
];
const NAMES: &[&str] = &["response.output_text.delta", "response.created", "", "  spaced  ", "é", "a:b"];
const INVALID: &[&[u8]] = &[
    &[0xFF],
    &[0xC0, 0x80],
    &[0xE2, 0x82],
    &[0xE2, 0x82, 0x28],
    &[0xF0, 0x90, 0x80, 0x28],
    &[0xF0, 0x90],
    &[0x80],
    &[0xED, 0xA0, 0x80],
    &[0xF4, 0x90, 0x80, 0x80],
    &[0xE2, 0x28, 0xA1],
];

pub fn gen_body(rng: &mut Rng) -> Vec<u8> {
    let mut s: Vec<u8> = Vec::new();
    let style = rng.below(5); // 0,1,2: LF; 3: CRLF; 4: mixed
    let nl = |rng: &mut Rng, s: &mut Vec<u8>| {
        let e: &[u8] = match style {
            0..=2 => b"\n",
            3 => b"\r\n",
            _ => *rng.pick(&[b"\n".as_slice(), b"\r\n".as_slice(), b"\r\r\n".as_slice()]),
        };
        s.extend_from_slice(e);
    };
    let n = rng.range(0, 6);
    let done_at = if rng.chance(2, 3) { Some(rng.below(n + 1)) } else { None };
    for i in 0..=n {
        if Some(i) == done_at {
            s.extend_from_slice(b"data: [DONE]");
            nl(rng, &mut s);
            nl(rng, &mut s);
            if rng.chance(2, 3) {
                break;
            }
            continue;
        }
        if i == n {
            break;
        }
        if rng.chance(1, 6) {
            s.extend_from_slice(b": keep-alive");
            nl(rng, &mut s);
        }
        if rng.chance(1, 2) {
            let name = *rng.pick(NAMES);
            s.extend_from_slice(if rng.chance(1, 2) { b"event: ".as_slice() } else { b"event:".as_slice() });
            s.extend_from_slice(name.as_bytes());
            nl(rng, &mut s);
        }
        if rng.chance(1, 10) {
            s.extend_from_slice(b"id: 7");
            nl(rng, &mut s);
        }
        let nd = if rng.chance(1, 8) { 2 } else { 1 };
        for _ in 0..nd {
            s.extend_from_slice(match rng.below(4) {
                0 => b"data:".as_slice(),
                1 => b"data:  ".as_slice(),
                _ => b"data: ".as_slice(),
            });
            s.extend_from_slice(rng.pick(DATAS).as_bytes());
            nl(rng, &mut s);
        }
        if rng.chance(1, 12) && i + 1 == n {
            // missing final blank line
        } else {
            nl(rng, &mut s);
            if rng.chance(1, 10) {
                nl(rng, &mut s);
            }
        }
    }
    if rng.chance(1, 8) {
        s.extend_from_slice(b"data: tail-without-newline");
    }
    // the stream may end anywhere: mid-event, mid-line, mid-terminator; and with a lone CR, which
    // the end-of-stream flush completes into a blank line (the only way `finish` dispatches)
    if rng.chance(1, 6) && !s.is_empty() {
        let cut = rng.below(s.len() as u64 + 1) as usize;
        s.truncate(cut);
    }
    if rng.chance(1, 10) {
        s.push(b'\r');
    }
    // sprinkle invalid UTF-8
    if rng.chance(1, 3) && !s.is_empty() {
        let k = rng.range(1, 3);
        for _ in 0..k {
            let pos = rng.below(s.len() as u64 + 1) as usize;
            let bad = *rng.pick(INVALID);
            s.splice(pos..pos, bad.iter().cloned());
        }
    }
    s
}

pub fn partitions(rng: &mut Rng, body: &[u8], thorough: bool) -> Vec<Vec<Vec<u8>>> {
    let mut out = vec![vec![body.to_vec()]];
    let n = body.len();
    if n == 0 {
        out.push(vec![]);
        return out;
    }
    // byte at a time
    out.push(body.iter().map(|b| vec![*b]).collect());
    // every single split for short bodies, sampled otherwise
    let limit = if thorough { 200 } else { 40 };
    if n <= limit {
        for i in 1..n {
            out.push(vec![body[..i].to_vec(), body[i..].to_vec()]);
        }
    } else {
        for _ in 0..limit {
            let i = rng.range(1, n as u64 - 1) as usize;
            out.push(vec![body[..i].to_vec(), body[i..].to_vec()]);
        }
    }
    // random k-splits (with empty chunks now and then)
    for _ in 0..4 {
        let k = rng.range(2, 6);
        let mut cuts: Vec<usize> = (0..k).map(|_| rng.below(n as u64 + 1) as usize).collect();
        cuts.sort();
        let mut prev = 0;
        let mut p = Vec::new();
        for c in cuts {
            p.push(body[prev..c].to_vec());
            prev = c;
        }
        p.push(body[prev..].to_vec());
        out.push(p);
    }
    out
}

/// reference `deltaOf`: the uninterpreted JSON part of the mapper, evaluated on a raw data string
fn delta_of(raw: &str) -> Option<String> {
    let v: Value = serde_json::from_str(raw).ok()?;
    let o = v.as_object()?;
    if o.get("type").and_then(|t| t.as_str()) != Some("response.output_text.delta") {
        return None;
    }
    o.get("delta").and_then(|d| d.as_str()).map(|s| s.to_string())
}

fn canon_payload(raw: &str) -> (String, String) {
    if raw == "[DONE]" {
        ("done".into(), raw.to_string())
    } else {
        match serde_json::from_str::<Value>(raw) {
            Ok(v) => ("event".into(), serde_json::to_string(&v).unwrap()),
            Err(_) => ("invalid_json".into(), raw.to_string()),
        }
    }
}

pub fn impl_frames_line(frames: &[Event], seq: u64, done: bool) -> String {
    let mut parts = Vec::new();
    for f in frames {
        match &f.kind {
            EventKind::ProviderEvent { status, event_name, data, raw, .. } => {
                let (kind, payload) = match status {
                    ProviderEventStatus::Done => ("done", raw.clone().unwrap_or_default()),
                    ProviderEventStatus::InvalidJson => ("invalid_json", raw.clone().unwrap_or_default()),
                    ProviderEventStatus::Event => {
                        ("event", data.as_ref().map(|d| serde_json::to_string(d).unwrap()).unwrap_or_default())
                    }
                };
                parts.push(format!(
                    "P {} {} {} {}",
                    f.seq,
                    opt_hex(event_name.as_deref().map(|s| s.as_bytes())),
                    kind,
                    hex(payload.as_bytes())
                ));
            }
            EventKind::OutputTextDelta { delta } => parts.push(format!("T {} {}", f.seq, hex(delta.as_bytes()))),
            other => parts.push(format!("? {} {:?}", f.seq, other)),
        }
    }
    format!("{} {} {} {}", seq, done as u8, frames.len(), parts.join(" "))
}

/// rewrites the model's `P seq ev rawhex done` into the canonical `P seq ev kind payloadhex`
pub fn canon_model_line(m: &str) -> String {
    let toks: Vec<&str> = m.split(' ').collect();
    if toks.len() < 3 {
        return m.to_string();
    }
    let mut out: Vec<String> = toks[..3].iter().map(|s| s.to_string()).collect();
    let mut i = 3;
    while i < toks.len() {
        match toks[i] {
            "P" if i + 4 < toks.len() + 0 => {
                let raw = if toks[i + 3] == "-" { vec![] } else { hex::decode(toks[i + 3]).unwrap_or_default() };
                let raw = String::from_utf8_lossy(&raw).to_string();
                let (kind, payload) = canon_payload(&raw);
                out.push(format!("P {} {} {} {}", toks[i + 1], toks[i + 2], kind, hex(payload.as_bytes())));
                i += 5;
            }
            "T" => {
                out.push(format!("T {} {}", toks[i + 1], toks[i + 2]));
                i += 3;
            }
            other => {
                out.push(other.to_string());
                i += 1;
            }
        }
    }
    out.join(" ")
}

pub fn case_line(seq_start: u64, table: &BTreeMap<String, Option<String>>, chunks: &[Vec<u8>]) -> String {
    let mut s = format!("c15 {} {}", seq_start, table.len());
    for (r, d) in table {
        s.push_str(&format!(" {} {}", hex(r.as_bytes()), opt_hex(d.as_deref().map(|x| x.as_bytes()))));
    }
    s.push_str(&format!(" {}", chunks.len()));
    for c in chunks {
        s.push_str(&format!(" {}", hex(c)));
    }
    s
}

fn run_pipe(rt: &tokio::runtime::Runtime, dir: &std::path::Path, seq_start: u64, chunks: &[Vec<u8>]) -> (Vec<Event>, u64, bool) {
    let _ = std::fs::remove_file(dir.join("events.jsonl"));
    rt.block_on(ripd::verif_export::session::pipe_feed(dir, "s1", seq_start, chunks))
}

/// the table of the uninterpreted function: every raw payload the decoder can produce on this body
fn table_for(body: &[u8]) -> BTreeMap<String, Option<String>> {
    let text = String::from_utf8_lossy(body).to_string();
    let mut dec = SseDecoder::new();
    let mut evs = dec.push(&text);
    evs.extend(dec.finish());
    let mut t = BTreeMap::new();
    for e in evs {
        t.insert(e.raw.clone(), delta_of(&e.raw));
    }
    for d in DATAS {
        t.insert(d.to_string(), delta_of(d));
    }
    t
}

pub fn eval_body(body: &[u8], seq_start: u64, parts: &[Vec<Vec<u8>>], model: &mut Model, rep: &mut Report,
                 rt: &tokio::runtime::Runtime, dir: &std::path::Path) {
    let table = table_for(body);
    let mut reference: Option<String> = None;
    let case = |chunks: &[Vec<u8>]| json!({"seq_start": seq_start, "body_hex": hex(body), "body_lossy": String::from_utf8_lossy(body), "chunks_hex": chunks.iter().map(|c| hex(c)).collect::<Vec<_>>()});
    for chunks in parts {
        rep.evaluations += 1;
        let (frames, seq, done) = run_pipe(rt, dir, seq_start, chunks);
        rep.traces_validated += 1;
        let line = impl_frames_line(&frames, seq, done);
        // oracle: numbering continues without gap
        for (i, f) in frames.iter().enumerate() {
            if f.seq != seq_start + i as u64 {
                rep.oracle_failure("C15|seq-gap", &format!("frame {i} has seq {}", f.seq), case(chunks));
                break;
            }
        }
        if seq != seq_start + frames.len() as u64 {
            rep.oracle_failure("C15|seq-counter", "final seq != start + frames", case(chunks));
        }
        // oracle: each text-delta provider event is followed by exactly its delta
        let mut expect_delta: Option<String> = None;
        for f in &frames {
            match &f.kind {
                EventKind::ProviderEvent { status, data, .. } => {
                    if expect_delta.is_some() {
                        rep.oracle_failure("C15|delta-missing", "text delta not derived", case(chunks));
                    }
                    expect_delta = None;
                    if *status == ProviderEventStatus::Event {
                        if let Some(d) = data {
                            expect_delta = delta_of(&serde_json::to_string(d).unwrap());
                        }
                    }
                }
                EventKind::OutputTextDelta { delta } => {
                    if expect_delta.as_deref() != Some(delta.as_str()) {
                        rep.oracle_failure("C15|delta-wrong", "derived text differs from provider delta", case(chunks));
                    }
                    expect_delta = None;
                }
                _ => {}
            }
        }
        // oracle: chunking invariance against the one-chunk run
        match &reference {
            None => reference = Some(line.clone()),
            Some(r) => {
                if *r != line {
                    let valid = std::str::from_utf8(body).is_ok();
                    let sig = if valid { "C15|chunking-changes-frames|valid-utf8" } else { "C15|chunking-changes-frames|invalid-utf8" };
                    rep.oracle_failure(sig, &format!("frames differ from the single-chunk run: one-chunk={r} this={line}"), case(chunks));
                }
            }
        }
        let m = canon_model_line(&model.ask(&case_line(seq_start, &table, chunks)));
        if m != line {
            rep.disagreement("pipe frames", case(chunks), &line, &m);
        }
    }
    if std::str::from_utf8(body).is_err() {
        rep.count("bodies_invalid_utf8");
    }
    if body.windows(6).any(|w| w == b"[DONE]") {
        rep.count("bodies_with_done");
    }
    rep.count("bodies");
    if body.len() > 20 {
        rep.nontrivial_case(&hex(body));
    }
    rep.sample(json!({"body_lossy": String::from_utf8_lossy(body), "partitions": parts.len()}));
}

fn utf8_unit(model: &mut Model, rep: &mut Report, rng: &mut Rng, n: u64) {
    // model of from_utf8 (valid_up_to, error_len) vs std on random byte strings
    for _ in 0..n {
        let len = rng.below(7);
        let b: Vec<u8> = (0..len)
            .map(|_| match rng.below(4) {
                0 => rng.below(0x80) as u8,
                1 => 0x80 + rng.below(0x40) as u8,
                2 => *rng.pick(&[0xC0u8, 0xC1, 0xC2, 0xDF, 0xE0, 0xE1, 0xEC, 0xED, 0xEE, 0xEF, 0xF0, 0xF1, 0xF3, 0xF4, 0xF5, 0xFF]),
                _ => rng.below(256) as u8,
            })
            .collect();
        let expect = match std::str::from_utf8(&b) {
            Ok(_) => "valid".to_string(),
            Err(e) => format!("err {} {}", e.valid_up_to(), opt_u64(e.error_len().map(|x| x as u64))),
        };
        let got = model.ask(&format!("c15u {}", hex(&b)));
        rep.evaluations += 1;
        if got != expect {
            rep.disagreement("from_utf8 error position", json!({"bytes_hex": hex(&b)}), &expect, &got);
        }
    }
    rep.count_n("utf8_unit_cases", n);
}

fn decoder_unit(model: &mut Model, rep: &mut Report, rng: &mut Rng, n: u64) {
    // string-level decoder vs model on valid UTF-8 bodies with random char-boundary splits
    for _ in 0..n {
        let mut body = gen_body(rng);
        body = String::from_utf8_lossy(&body).to_string().into_bytes();
        let text = String::from_utf8(body.clone()).unwrap();
        let mut cuts: Vec<usize> = (0..rng.below(5)).map(|_| rng.below(text.len() as u64 + 1) as usize).collect();
        cuts.sort();
        let mut chunks: Vec<String> = Vec::new();
        let mut prev = 0;
        for mut c in cuts {
            while !text.is_char_boundary(c) {
                c += 1;
            }
            if c < prev {
                continue;
            }
            chunks.push(text[prev..c].to_string());
            prev = c;
        }
        chunks.push(text[prev..].to_string());
        let mut dec = SseDecoder::new();
        let mut evs = Vec::new();
        for c in &chunks {
            evs.extend(dec.push(c));
        }
        evs.extend(dec.finish());
        let expect = format!(
            "{} {}",
            evs.len(),
            evs.iter()
                .map(|e| {
                    let _ = matches!(e.kind, ParsedEventKind::Done);
                    format!("{} {}", opt_hex(e.event.as_deref().map(|s| s.as_bytes())), hex(e.raw.as_bytes()))
                })
                .collect::<Vec<_>>()
                .join(" ")
        );
        let mut line = format!("c15d {}", chunks.len());
        for c in &chunks {
            line.push_str(&format!(" {}", hex(c.as_bytes())));
        }
        let got = model.ask(&line);
        rep.evaluations += 1;
        if got != expect {
            rep.disagreement("SseDecoder events", json!({"chunks": chunks}), &expect, &got);
        }
    }
    rep.count_n("decoder_unit_cases", n);
}

pub fn corpus() -> Vec<Vec<u8>> {
    vec![
        // (h) invalid sequence with error_len 2 at the start of the carry buffer vs in its middle
        b"data: a\xE2\x82(b\n\n".to_vec(),
        // (i) events after [DONE] in the same chunk vs in a later chunk
        b"data: [DONE]\n\ndata: {\"type\":\"response.completed\"}\n\n".to_vec(),
        b"data: {\"type\":\"response.output_text.delta\",\"delta\":\"h\xC3\xA9\"}\r\n\r\ndata: [DONE]\r\n\r\n".to_vec(),
    ]
}

pub fn run(opts: &Opts) -> Report {
    let mut rep = Report::new(
        "C15",
        "SSE bodies from a grammar (LF/CRLF/mixed, event names, multi-line data, comments, unknown fields, missing final blank line, [DONE] anywhere, events after [DONE], invalid UTF-8 of every error_len) x partitions (one chunk, byte-at-a-time, every single split, random k-splits with empty chunks); non-trivial = body > 20 bytes, distinct by body; plus unit cases for from_utf8 and the string-level decoder",
    );
    let mut model = Model::spawn();
    let rt = tokio::runtime::Builder::new_current_thread().enable_all().build().unwrap();
    let scratch = Scratch::new("c15");
    let mut rng = Rng::new(opts.seed);
    if let Some(path) = &opts.replay {
        let v: Value = serde_json::from_str(&std::fs::read_to_string(path).unwrap()).unwrap();
        let c = &v["case"];
        let unhex = |h: &str| if h == "-" { vec![] } else { hex::decode(h).unwrap() };
        let body = unhex(c["body_hex"].as_str().unwrap());
        let chunks: Vec<Vec<u8>> = c["chunks_hex"].as_array().unwrap().iter().map(|x| unhex(x.as_str().unwrap())).collect();
        let parts = vec![vec![body.clone()], chunks];
        eval_body(&body, c["seq_start"].as_u64().unwrap_or(0), &parts, &mut model, &mut rep, &rt, scratch.path());
        return rep;
    }
    for body in corpus() {
        let parts = partitions(&mut rng, &body, true);
        eval_body(&body, 3, &parts, &mut model, &mut rep, &rt, scratch.path());
    }
    utf8_unit(&mut model, &mut rep, &mut rng, if opts.thorough { 200_000 } else { 20_000 });
    decoder_unit(&mut model, &mut rep, &mut rng, if opts.thorough { 20_000 } else { 2_000 });
    let n = if opts.thorough { 1_500 } else { 300 } * opts.scale;
    for _ in 0..n {
        let body = gen_body(&mut rng);
        let parts = partitions(&mut rng, &body, opts.thorough);
        let seq_start = rng.below(50);
        eval_body(&body, seq_start, &parts, &mut model, &mut rep, &rt, scratch.path());
    }
    rep
}
