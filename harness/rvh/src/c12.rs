//! C12: rip-workspace patch engine vs the Lean model `Rip.Patch`.
use crate::common::*;
use rip_workspace::{Patch, Workspace};
use serde_json::{json, Value};
use std::collections::BTreeMap;
use std::path::{Path, PathBuf};

const NAMES: &[&str] = &["a", "b", "c", "sub", "x.txt", "é", "d e"];
const LINES: &[&str] = &["one", "two", "three", "", "x", "日本", "one", "  indented", "+plus", "-minus"];

#[derive(Clone)]
pub struct Case {
    pub dirs: Vec<String>,
    pub files: Vec<(String, Vec<u8>)>,
    pub patch: String,
}

fn gen_path(rng: &mut Rng, depth: u64) -> String {
    let n = rng.range(1, depth);
    (0..n).map(|_| *rng.pick(NAMES)).collect::<Vec<_>>().join("/")
}

fn gen_content(rng: &mut Rng) -> Vec<u8> {
    let n = rng.below(6);
    let le = match rng.below(6) {
        0 | 1 | 2 => "\n",
        3 | 4 => "\r\n",
        _ => "mixed",
    };
    let mut s = Vec::new();
    for i in 0..n {
        s.extend_from_slice(rng.pick(LINES).as_bytes());
        let last = i + 1 == n;
        if !last || rng.chance(3, 4) {
            let e = if le == "mixed" {
                if rng.chance(1, 2) {
                    "\n"
                } else {
                    "\r\n"
                }
            } else {
                le
            };
            s.extend_from_slice(e.as_bytes());
        } else if rng.chance(1, 6) {
            s.push(b'\r');
        }
    }
    if rng.chance(1, 25) {
        s.extend_from_slice(&[0xff, 0xfe, b'\n']);
    }
    s
}

fn spell(rng: &mut Rng, p: &str) -> String {
    match rng.below(30) {
        0 => format!("./{p}"),
        1 => p.replace('/', "//"),
        2 => p.replace('/', "/./"),
        3 => format!("  {p}\t"),
        4 => format!("{p}/"),
        5 => format!("../{p}"),
        6 => format!("/{p}"),
        7 => format!("{p}/../{p}"),
        8 => p.replace('/', "\\"),
        9 => format!("{p}/."),
        10 => format!("\u{a0}{p}\u{2003}"),
        11 => ".".to_string(),
        12 => "".to_string(),
        _ => p.to_string(),
    }
}

/// hunks built from the file's current lines (context mostly right, sometimes wrong)
fn gen_hunks(rng: &mut Rng, content: &[u8]) -> String {
    let text = String::from_utf8_lossy(content).to_string();
    let lines: Vec<String> = text
        .split('\n')
        .map(|l| l.strip_suffix('\r').unwrap_or(l).to_string())
        .collect();
    let mut out = String::new();
    let nh = rng.range(1, 3);
    let mut pos = 0usize;
    for _ in 0..nh {
        if rng.chance(3, 4) {
            out.push_str(if rng.chance(1, 2) { "@@\n" } else { "@@ ctx\n" });
        }
        match rng.below(8) {
            0 => {
                // pure append hunk
                out.push_str(&format!("+{}\n", rng.pick(LINES)));
            }
            1 => {
                // wrong context
                out.push_str("-does not exist\n+x\n");
            }
            _ => {
                if lines.is_empty() {
                    out.push_str(&format!("+{}\n", rng.pick(LINES)));
                    continue;
                }
                let start = if rng.chance(1, 6) { rng.below(lines.len() as u64) as usize } else { pos.min(lines.len() - 1) + rng.below(2) as usize };
                let start = start.min(lines.len() - 1);
                let len = rng.range(1, 3) as usize;
                for (i, l) in lines.iter().enumerate().skip(start).take(len) {
                    match rng.below(3) {
                        0 => out.push_str(&format!(" {l}\n")),
                        1 => out.push_str(&format!("-{l}\n")),
                        _ => out.push_str(&format!("-{l}\n+{}{}\n", l, i)),
                    }
                }
                if rng.chance(1, 3) {
                    out.push_str(&format!("+{}\n", rng.pick(LINES)));
                }
                pos = start + len;
            }
        }
    }
    out
}

pub fn gen_case(rng: &mut Rng) -> Case {
    // workspace
    let mut dirs: Vec<String> = Vec::new();
    let mut files: BTreeMap<String, Vec<u8>> = BTreeMap::new();
    let nf = rng.below(6);
    for _ in 0..nf {
        let p = gen_path(rng, 3);
        // keep well-formed: no prefix is a file, p is not a dir
        let comps: Vec<&str> = p.split('/').collect();
        let mut ok = !dirs.contains(&p);
        for i in 1..comps.len() {
            if files.contains_key(&comps[..i].join("/")) {
                ok = false;
            }
        }
        if !ok {
            continue;
        }
        for i in 1..comps.len() {
            let d = comps[..i].join("/");
            if !dirs.contains(&d) {
                dirs.push(d);
            }
        }
        files.insert(p, gen_content(rng));
    }
    if rng.chance(1, 3) {
        let d = gen_path(rng, 2);
        let comps: Vec<&str> = d.split('/').collect();
        let mut ok = !files.contains_key(&d);
        for i in 1..comps.len() {
            if files.contains_key(&comps[..i].join("/")) {
                ok = false;
            }
        }
        if ok {
            for i in 1..=comps.len() {
                let dd = comps[..i].join("/");
                if !dirs.contains(&dd) {
                    dirs.push(dd);
                }
            }
        }
    }
    // patch
    let existing: Vec<String> = files.keys().cloned().collect();
    let mut body = String::new();
    let nops = rng.range(1, 5);
    let mut sim = files.clone(); // rough simulation to keep later ops meaningful
    for _ in 0..nops {
        let pick_existing = |rng: &mut Rng, sim: &BTreeMap<String, Vec<u8>>| -> Option<String> {
            let ks: Vec<&String> = sim.keys().collect();
            if ks.is_empty() {
                None
            } else {
                Some((*rng.pick(&ks)).clone())
            }
        };
        match rng.below(10) {
            0 | 1 | 2 => {
                // add: new path, sometimes below an existing file or equal to one
                let p = match rng.below(6) {
                    0 => pick_existing(rng, &sim).map(|e| format!("{e}/{}", rng.pick(NAMES))),
                    1 => pick_existing(rng, &sim),
                    2 => existing.first().map(|e| format!("{e}/{}/{}", rng.pick(NAMES), rng.pick(NAMES))),
                    // several levels below a path that holds (or held, before an earlier operation of
                    // this patch freed it) a file: the rollback has to take a whole subtree down again
                    3 => pick_existing(rng, &files).map(|e| {
                        let depth = rng.range(3, 5);
                        let mut p = e;
                        for _ in 0..depth {
                            p.push('/');
                            p.push_str(*rng.pick(NAMES));
                        }
                        p
                    }),
                    _ => None,
                }
                .unwrap_or_else(|| gen_path(rng, 3));
                body.push_str(&format!("*** Add File: {}\n", spell(rng, &p)));
                let n = rng.below(4);
                for _ in 0..n {
                    if rng.chance(1, 30) {
                        body.push_str("no plus\n");
                    } else {
                        body.push_str(&format!("+{}\n", rng.pick(LINES)));
                    }
                }
                sim.insert(p, Vec::new());
            }
            3 | 4 => {
                let p = if rng.chance(4, 5) { pick_existing(rng, &sim) } else { None }
                    .unwrap_or_else(|| if rng.chance(1, 2) { gen_path(rng, 2) } else { "missing".into() });
                body.push_str(&format!("*** Delete File: {}\n", spell(rng, &p)));
                sim.remove(&p);
            }
            _ => {
                let p = if rng.chance(9, 10) { pick_existing(rng, &sim) } else { None }
                    .unwrap_or_else(|| "missing".into());
                body.push_str(&format!("*** Update File: {}\n", spell(rng, &p)));
                let content = sim.get(&p).cloned().unwrap_or_default();
                let mut moved = None;
                if rng.chance(1, 3) {
                    let t = match rng.below(5) {
                        0 => pick_existing(rng, &sim).unwrap_or_else(|| gen_path(rng, 2)),
                        1 => format!("{p}/{}", rng.pick(NAMES)),
                        _ => gen_path(rng, 3),
                    };
                    body.push_str(&format!("*** Move to: {}\n", spell(rng, &t)));
                    moved = Some(t);
                }
                if !rng.chance(1, 25) {
                    body.push_str(&gen_hunks(rng, &content));
                }
                if rng.chance(1, 30) {
                    body.push_str("*** End of File\n");
                }
                if let Some(t) = moved {
                    if let Some(c) = sim.remove(&p) {
                        sim.insert(t, c);
                    }
                }
            }
        }
    }
    let mut patch = String::new();
    match rng.below(40) {
        0 => {}
        1 => patch.push_str("*** Begin Patch \n"),
        2 => patch.push_str("*** Begin Patch\r\n"),
        _ => patch.push_str("*** Begin Patch\n"),
    }
    patch.push_str(&body);
    match rng.below(40) {
        0 => {}
        1 => patch.push_str("*** End Patch\n"),
        2 => patch.push_str("garbage\n*** End Patch"),
        3 => patch.push_str("\n*** End Patch"),
        4 => patch.push_str("*** End Patch\r"),
        _ => patch.push_str("*** End Patch"),
    }
    if rng.chance(1, 20) {
        patch = patch.replace('\n', "\r\n");
    }
    Case { dirs, files: files.into_iter().collect(), patch }
}

pub fn case_line(c: &Case) -> String {
    let mut s = format!("c12 {}", c.dirs.len());
    for d in &c.dirs {
        s.push_str(&format!(" {}", hex(d.as_bytes())));
    }
    s.push_str(&format!(" {}", c.files.len()));
    for (p, b) in &c.files {
        s.push_str(&format!(" {} {}", hex(p.as_bytes()), hex(b)));
    }
    s.push_str(&format!(" {}", hex(c.patch.as_bytes())));
    s
}

pub fn case_json(c: &Case) -> Value {
    json!({
        "dirs": c.dirs,
        "files": c.files.iter().map(|(p, b)| json!({"path": p, "bytes_hex": hex(b), "text": String::from_utf8_lossy(b)})).collect::<Vec<_>>(),
        "patch": c.patch,
    })
}

pub fn case_from_json(v: &Value) -> Case {
    Case {
        dirs: v["dirs"].as_array().unwrap().iter().map(|d| d.as_str().unwrap().to_string()).collect(),
        files: v["files"]
            .as_array()
            .unwrap()
            .iter()
            .map(|f| {
                let h = f["bytes_hex"].as_str().unwrap();
                (f["path"].as_str().unwrap().to_string(), if h == "-" { vec![] } else { hex::decode(h).unwrap() })
            })
            .collect(),
        patch: v["patch"].as_str().unwrap().to_string(),
    }
}

pub fn list_tree(root: &Path) -> (BTreeMap<String, Vec<u8>>, Vec<String>) {
    fn walk(root: &Path, dir: &Path, files: &mut BTreeMap<String, Vec<u8>>, dirs: &mut Vec<String>) {
        let mut entries: Vec<PathBuf> = std::fs::read_dir(dir).unwrap().map(|e| e.unwrap().path()).collect();
        entries.sort();
        for p in entries {
            let rel = p.strip_prefix(root).unwrap().to_string_lossy().to_string();
            if rel == ".rip" {
                continue;
            }
            if p.is_dir() {
                dirs.push(rel);
                walk(root, &p, files, dirs);
            } else {
                files.insert(rel, std::fs::read(&p).unwrap());
            }
        }
    }
    let mut files = BTreeMap::new();
    let mut dirs = Vec::new();
    walk(root, root, &mut files, &mut dirs);
    dirs.sort();
    (files, dirs)
}

pub fn materialize(c: &Case, root: &Path) {
    for d in &c.dirs {
        std::fs::create_dir_all(root.join(d)).unwrap();
    }
    for (p, b) in &c.files {
        std::fs::write(root.join(p), b).unwrap();
    }
}

fn err_class(msg: &str) -> String {
    let m = msg;
    if m.starts_with("missing '*** Begin Patch'") {
        "parse:missing-header"
    } else if m.starts_with("add file line must start") {
        "parse:add-line"
    } else if m.starts_with("path cannot be empty") {
        "parse:empty-path"
    } else if m.starts_with("absolute paths are not allowed") {
        "parse:absolute"
    } else if m.starts_with("path escapes workspace root") {
        "parse:parent"
    } else if m.starts_with("empty patch line") {
        "parse:empty-line"
    } else if m.starts_with("invalid patch line prefix") {
        "parse:bad-prefix"
    } else if m.starts_with("update file has no hunks") {
        "parse:no-hunks"
    } else if m.starts_with("unexpected line") {
        "parse:unexpected-line"
    } else if m.starts_with("missing '*** End Patch'") {
        "parse:missing-footer"
    } else if m.starts_with("file already exists") {
        "exists"
    } else if m.starts_with("file not found") {
        "notfound"
    } else if m.starts_with("move target already exists") {
        "move-target-exists"
    } else if m.starts_with("file is not valid UTF-8") {
        "not-utf8"
    } else if m.starts_with("patch hunk does not apply") {
        "hunk"
    } else {
        "io"
    }
    .to_string()
}

pub struct Outcome {
    pub line: String,
    pub ok: bool,
    pub changed: Vec<String>,
    pub files: BTreeMap<String, Vec<u8>>,
    pub err: String,
}

pub fn run_impl(c: &Case) -> Outcome {
    let scratch = Scratch::new("c12");
    let root = scratch.path().join("ws");
    std::fs::create_dir_all(&root).unwrap();
    materialize(c, &root);
    let ws = Workspace::new(&root).unwrap();
    let res = ws.apply_patch(&c.patch);
    let (files, dirs) = list_tree(&root);
    let (head, ok, changed, err) = match &res {
        Ok(r) => (
            format!(
                "ok {} {}",
                r.changed_files.len(),
                r.changed_files.iter().map(|f| hex(f.as_bytes())).collect::<Vec<_>>().join(" ")
            ),
            true,
            r.changed_files.clone(),
            String::new(),
        ),
        Err(e) => (format!("err {}", err_class(&e.to_string())), false, vec![], e.to_string()),
    };
    let parse_failed = head.starts_with("err parse:");
    let line = if parse_failed {
        format!("{head} | unchanged")
    } else {
        format!(
            "{} | {} {} | {} {}",
            head,
            files.len(),
            files.iter().map(|(p, b)| format!("{} {}", hex(p.as_bytes()), hex(b))).collect::<Vec<_>>().join(" "),
            dirs.len(),
            dirs.iter().map(|d| hex(d.as_bytes())).collect::<Vec<_>>().join(" ")
        )
    };
    Outcome { line, ok, changed, files, err }
}

pub fn eval_case(c: &Case, model: &mut Model, rep: &mut Report) {
    rep.evaluations += 1;
    let line = case_line(c);
    let m = model.ask(&line);
    let out = run_impl(c);
    rep.traces_validated += 1;
    let before: BTreeMap<String, Vec<u8>> = c.files.iter().cloned().collect();
    if !out.ok {
        // all-or-nothing: every file has the bytes it had before and no new file remains
        if out.files != before {
            let lost: Vec<&String> = before.keys().filter(|k| out.files.get(*k) != before.get(*k)).collect();
            let extra: Vec<&String> = out.files.keys().filter(|k| !before.contains_key(*k)).collect();
            let sig = if !lost.is_empty() { "C12|failed-patch-changed-file" } else { "C12|failed-patch-left-new-file" };
            rep.oracle_failure(
                sig,
                &format!("apply_patch returned Err({}) but files differ: changed/lost {:?}, new {:?}", out.err, lost, extra),
                case_json(c),
            );
        }
        rep.count(&format!("err_{}", out.line.split(' ').nth(1).unwrap_or("?")));
    } else {
        // changed files are exactly the files named (sorted, de-duplicated)
        if let Ok(p) = Patch::parse(&c.patch) {
            let mut named: Vec<String> =
                p.affected_paths().iter().map(|p| p.to_string_lossy().replace('\\', "/")).collect();
            named.sort();
            named.dedup();
            if named != out.changed {
                rep.oracle_failure(
                    "C12|changed-files-not-named-files",
                    &format!("changed {:?} vs named {:?}", out.changed, named),
                    case_json(c),
                );
            }
        }
        rep.count("ok");
    }
    if m != out.line {
        rep.disagreement("apply_patch outcome + resulting tree", case_json(c), &out.line, &m);
    }
    if c.patch.matches("*** ").count() >= 4 {
        rep.nontrivial_case(&line);
    }
    rep.sample(json!({"patch": c.patch, "files": c.files.iter().map(|f| f.0.clone()).collect::<Vec<_>>()}));
}

pub fn corpus() -> Vec<Case> {
    vec![
        // round-0 finding: a deleted file's path becomes a directory, rollback cannot restore it
        Case {
            dirs: vec![],
            files: vec![("a".into(), b"precious\n".to_vec())],
            patch: "*** Begin Patch\n*** Delete File: a\n*** Add File: a/b\n+x\n*** Delete File: missing\n*** End Patch".into(),
        },
        Case {
            dirs: vec![],
            files: vec![("a".into(), b"precious\n".to_vec())],
            patch: "*** Begin Patch\n*** Update File: a\n*** Move to: c\n@@\n-precious\n+p\n*** Add File: a/b/c\n+x\n*** Delete File: missing\n*** End Patch".into(),
        },
    ]
}


/// Independent oracle for text updates (no model involved): whatever occurrence the implementation
/// picks, a successful multi-hunk update must be SOME in-order, non-overlapping application of the
/// hunks to the ORIGINAL lines (a hunk may never match lines an earlier hunk inserted, nor skip
/// backwards), and a refusal must mean that no such application exists.
fn hunk_oracle_cases(rep: &mut Report, rng: &mut Rng, n: u64) {
    use rip_workspace::PatchHunk;
    let scratch = Scratch::new("c12h");
    let root = scratch.path().join("ws");
    std::fs::create_dir_all(&root).unwrap();
    let ws = Workspace::new(&root).unwrap();
    const L: &[&str] = &["a", "b", "c", "a", "x"];
    for _ in 0..n {
        let len = rng.range(1, 9) as usize;
        let original: Vec<String> = (0..len).map(|_| rng.pick(L).to_string()).collect();
        // hunks cut from the original at increasing positions, with length changes and repeated context
        let mut hunks: Vec<PatchHunk> = Vec::new();
        let mut pos = 0usize;
        for _ in 0..rng.range(1, 3) {
            if pos >= original.len() {
                break;
            }
            let start = pos + rng.below((original.len() - pos) as u64) as usize;
            let blen = rng.range(1, 2).min((original.len() - start) as u64) as usize;
            let before: Vec<String> = original[start..start + blen].to_vec();
            let after: Vec<String> = match rng.below(4) {
                0 => vec![],
                1 => before.iter().map(|l| l.to_uppercase()).collect(),
                2 => {
                    let mut v = before.clone();
                    v.push(rng.pick(L).to_string());
                    v.push(rng.pick(L).to_string());
                    v
                }
                _ => {
                    let mut v = vec![rng.pick(L).to_string()];
                    v.extend(before.iter().map(|l| format!("{l}!")));
                    v
                }
            };
            hunks.push(PatchHunk { before, after });
            pos = start + blen;
        }
        if rng.chance(1, 6) {
            // a hunk that may not apply at all
            hunks.push(PatchHunk { before: vec![rng.pick(&["zz", "a", "b"]).to_string()], after: vec!["Q".into()] });
        }
        // line-ending style and trailing newline of the original, at random
        let crlf = rng.chance(1, 3);
        let trailing = !rng.chance(1, 4);
        let term = if crlf { "\r\n" } else { "\n" };
        let text = format!("{}{}", original.join(term), if trailing { term } else { "" });
        std::fs::write(root.join("f.txt"), &text).unwrap();
        let mut patch = String::from("*** Begin Patch\n*** Update File: f.txt\n");
        for h in &hunks {
            patch.push_str("@@\n");
            for l in &h.before {
                patch.push_str(&format!("-{l}\n"));
            }
            for l in &h.after {
                patch.push_str(&format!("+{l}\n"));
            }
        }
        patch.push_str("*** End Patch");
        let got: Result<String, String> = ws.apply_patch(&patch).map(|_| std::fs::read_to_string(root.join("f.txt")).unwrap_or_default()).map_err(|e| e.to_string());
        // all in-order non-overlapping applications on the original
        fn go(orig: &[String], hunks: &[PatchHunk], from: usize, acc: Vec<String>, consumed: usize, out: &mut Vec<Vec<String>>) {
            let _ = consumed;
            match hunks.split_first() {
                None => {
                    let mut r = acc;
                    r.extend_from_slice(&orig[from..]);
                    out.push(r);
                }
                Some((h, rest)) => {
                    let bl = h.before.len();
                    if bl == 0 || bl > orig.len() {
                        return;
                    }
                    for p in from..=(orig.len() - bl) {
                        if orig[p..p + bl] == h.before[..] {
                            let mut a = acc.clone();
                            a.extend_from_slice(&orig[from..p]);
                            a.extend_from_slice(&h.after);
                            go(orig, rest, p + bl, a, 0, out);
                        }
                    }
                }
            }
        }
        let mut candidates: Vec<Vec<String>> = Vec::new();
        go(&original, &hunks, 0, Vec::new(), 0, &mut candidates);
        rep.evaluations += 1;
        rep.count("hunk_oracle_cases");
        let case = json!({"original": original, "hunks": hunks.iter().map(|h| json!({"before": h.before, "after": h.after})).collect::<Vec<_>>()});
        match got {
            Ok(res) => {
                rep.count("hunk_oracle_applied");
                let lines: Vec<String> = res.lines().map(|l| l.to_string()).collect();
                // style and trailing newline (no model involved): every line here is non-empty and
                // free of CR / LF, so each CR or LF in the result is part of a terminator
                if !lines.is_empty() {
                    let n_lf = res.matches('\n').count();
                    let n_cr = res.matches('\r').count();
                    let n_crlf = res.matches("\r\n").count();
                    let style_known = original.len() >= 2 || trailing; // the original had at least one terminator
                    let style_ok = if !style_known { true } else if crlf { n_cr == n_lf && n_crlf == n_lf } else { n_cr == 0 };
                    if !style_ok {
                        rep.oracle_failure("C12|update-changed-line-ending-style", &format!("original terminated with {} throughout; the result has {n_lf} LF, {n_cr} CR, {n_crlf} CRLF", if crlf { "CRLF" } else { "LF" }), json!({"case": case, "crlf": crlf, "trailing_newline": trailing, "result": res}));
                    }
                    if res.ends_with('\n') != trailing || n_lf != lines.len() - 1 + trailing as usize {
                        rep.oracle_failure("C12|update-changed-trailing-newline", &format!("original {} a final newline; the result {} ({} terminators for {} lines)", if trailing { "had" } else { "had no" }, if res.ends_with('\n') { "ends with one" } else { "has none" }, n_lf, lines.len()), json!({"case": case, "crlf": crlf, "trailing_newline": trailing, "result": res}));
                    }
                    rep.count(if crlf { "hunk_oracle_crlf" } else { "hunk_oracle_lf" });
                    if !trailing {
                        rep.count("hunk_oracle_no_final_newline");
                    }
                }
                if !candidates.iter().any(|c| *c == lines) {
                    rep.oracle_failure("C12|update-is-not-an-application-of-its-hunks", &format!("the update succeeded with {lines:?}, which is not an in-order application of the hunks to the original lines"), case);
                }
            }
            Err(_) => {
                rep.count("hunk_oracle_refused");
                if !candidates.is_empty() {
                    rep.oracle_failure("C12|update-refused-although-applicable", "the update was refused although the hunks apply to the original lines in order", case);
                }
            }
        }
    }
}

pub fn run(opts: &Opts) -> Report {
    let mut rep = Report::new(
        "C12",
        "random workspaces (nested dirs, LF/CRLF/mixed, no final newline, empty, non-UTF-8) x patches (1-5 ops on same/different paths, hunks from real context or wrong, moves, aliased/escaping/odd spellings, malformed envelopes); non-trivial = patch with >=2 operations, distinct by case hash",
    );
    let mut model = Model::spawn();
    if let Some(path) = &opts.replay {
        let v: Value = serde_json::from_str(&std::fs::read_to_string(path).unwrap()).unwrap();
        let c = case_from_json(&v["case"]);
        eval_case(&c, &mut model, &mut rep);
        return rep;
    }
    for c in corpus() {
        eval_case(&c, &mut model, &mut rep);
    }
    let mut rng = Rng::new(opts.seed);
    let n = if opts.thorough { 100_000 } else { 5_000 } * opts.scale;
    for _ in 0..n {
        let c = gen_case(&mut rng);
        eval_case(&c, &mut model, &mut rep);
    }
    hunk_oracle_cases(&mut rep, &mut rng, if opts.thorough { 200_000 } else { 20_000 } * opts.scale);
    rep
}
