//! C16: the tool loop answers each provider call exactly once and never runs a barred tool.
//! (1) unit differential: the real `ToolCallCollector` / `ToolChoiceEnforcement` vs the Lean model on
//!     random provider event sequences and tool_choice JSON values;
//! (2) end-to-end differential: a real `SessionEngine` against a scripted loopback provider; the
//!     request bodies the provider received, the tool frames and the end reason vs `Rip.ToolLoop.agentLoop`;
//! (3) implementation oracles on the same runs (independent of the model).
use crate::common::*;
use crate::provider::*;
use ripd::verif_export::session::{collector_run, tool_choice_allows};
use ripd::verif_export::OpenResponsesConfig;
use ripd::SessionEngine;
use rip_provider_openresponses::ToolChoiceParam;
use serde_json::{json, Value};

pub struct Intern {
    strs: Vec<String>,
}

impl Intern {
    pub fn new() -> Self {
        Intern { strs: vec![String::new()] }
    }
    pub fn id(&mut self, s: &str) -> usize {
        if let Some(p) = self.strs.iter().position(|x| x == s) {
            return p;
        }
        self.strs.push(s.to_string());
        self.strs.len() - 1
    }
    fn opt(&mut self, s: &Option<String>) -> String {
        match s {
            None => "_".into(),
            Some(s) => self.id(s).to_string(),
        }
    }
    fn text(&mut self, chunks: &[String]) -> String {
        let mut out = chunks.len().to_string();
        for c in chunks {
            out.push(' ');
            out.push_str(&self.id(c).to_string());
        }
        out
    }
    fn get(&self, id: usize) -> &str {
        self.strs.get(id).map(|s| s.as_str()).unwrap_or("<?>")
    }
}

#[derive(Clone, Debug)]
pub enum Ev {
    Item { done: bool, idx: u64, is_fn: bool, item_id: Option<String>, call_id: Option<String>, name: Option<String>, args: Option<Vec<String>> },
    Delta { item_id: Option<String>, idx: u64, delta: Vec<String> },
    ArgsDone { item_id: Option<String>, idx: u64, args: Vec<String> },
    Other(Value),
}

impl Ev {
    pub fn json(&self) -> Value {
        match self {
            Ev::Item { done, idx, is_fn, item_id, call_id, name, args } => {
                let mut item = serde_json::Map::new();
                item.insert("type".into(), json!(if *is_fn { "function_call" } else { "message" }));
                if let Some(v) = item_id {
                    item.insert("id".into(), json!(v));
                }
                if let Some(v) = call_id {
                    item.insert("call_id".into(), json!(v));
                }
                if let Some(v) = name {
                    item.insert("name".into(), json!(v));
                }
                if let Some(v) = args {
                    item.insert("arguments".into(), json!(v.concat()));
                }
                json!({"type": if *done { "response.output_item.done" } else { "response.output_item.added" }, "output_index": idx, "item": item})
            }
            Ev::Delta { item_id, idx, delta } => {
                let mut o = json!({"type": "response.function_call_arguments.delta", "output_index": idx, "delta": delta.concat()});
                if let Some(v) = item_id {
                    o["item_id"] = json!(v);
                }
                o
            }
            Ev::ArgsDone { item_id, idx, args } => {
                let mut o = json!({"type": "response.function_call_arguments.done", "output_index": idx, "arguments": args.concat()});
                if let Some(v) = item_id {
                    o["item_id"] = json!(v);
                }
                o
            }
            Ev::Other(v) => v.clone(),
        }
    }
    fn token(&self, t: &mut Intern) -> String {
        match self {
            Ev::Item { done, idx, is_fn, item_id, call_id, name, args } => format!(
                "I {} {} {} {} {} {} {}",
                *done as u8,
                idx,
                *is_fn as u8,
                t.opt(item_id),
                t.opt(call_id),
                t.opt(name),
                match args {
                    None => "_".to_string(),
                    Some(a) => format!("T {}", t.text(a)),
                }
            ),
            Ev::Delta { item_id, idx, delta } => format!("D {} {} {}", t.opt(item_id), idx, t.text(delta)),
            Ev::ArgsDone { item_id, idx, args } => format!("F {} {} {}", t.opt(item_id), idx, t.text(args)),
            Ev::Other(_) => "O".to_string(),
        }
    }
}

pub const TOOLS: &[&str] = &["ls", "grep", "read", "write", "nope"];

/// patches a model may produce: well formed, failing, and malformed in the ways models get them wrong
pub const PATCHES: &[&str] = &[
    "*** Begin Patch\n*** Add File: p{k}.txt\n+hello\n*** End Patch",
    "*** Begin Patch\n*** Update File: seed.txt\n@@\n-seed\n+seed {k}\n*** End Patch",
    "*** Begin Patch\n*** Update File: seed.txt\n@@\n seed\n\n+after a blank context line written without its space\n*** End Patch",
    "*** Begin Patch\n*** Update File: missing{k}.txt\n@@\n-x\n+y\n*** End Patch",
    "*** Begin Patch\n*** Delete File: nothing{k}.txt\n*** End Patch",
    "*** Begin Patch\n*** Update File: seed.txt\n@@\n\n\n*** End Patch",
    "not a patch at all",
    "",
    "*** Begin Patch\n*** Add File: q{k}.txt\n+a\n\n+b\n*** End Patch",
    "*** Begin Patch\n*** Update File: seed.txt\n*** Move to: moved{k}.txt\n@@\n-seed\n+moved\n*** End Patch\n",
];

fn tool_args(name: &str, k: u64) -> String {
    match name {
        "ls" => json!({"path": "."}).to_string(),
        "grep" => json!({"pattern": "seed"}).to_string(),
        "read" => json!({"path": "seed.txt"}).to_string(),
        "write" => json!({"path": format!("w{k}.txt"), "content": "x"}).to_string(),
        "write!" => json!({"bogus": k}).to_string(),
        "read?" => json!({"path": format!("missing{k}.txt")}).to_string(),
        "bash" => json!({"command": format!("echo hi >> b{k}.txt"), "cwd": "."}).to_string(),
        "apply_patch" => json!({"patch": PATCHES[(k as usize) % PATCHES.len()].replace("{k}", &k.to_string())}).to_string(),
        _ => json!({"k": k}).to_string(),
    }
}

fn split_chunks(rng: &mut Rng, s: &str) -> Vec<String> {
    // ASCII only; non-empty pieces
    let n = rng.range(1, 3) as usize;
    let mut cuts: Vec<usize> = (0..n - 1).map(|_| rng.range(1, s.len().max(2) as u64 - 1) as usize).collect();
    cuts.sort();
    cuts.dedup();
    let mut out = Vec::new();
    let mut prev = 0;
    for c in cuts {
        if c > prev && c < s.len() {
            out.push(s[prev..c].to_string());
            prev = c;
        }
    }
    out.push(s[prev..].to_string());
    out.retain(|x| !x.is_empty());
    out
}

/// one provider response: the events of `ncalls` function calls, interleaved, plus noise.
/// `wild`: ids may be missing / empty / duplicated, output indexes arbitrary, done events may repeat
pub fn gen_response(rng: &mut Rng, serial: &mut u64, ncalls: usize, wild: bool, tools: &[&str]) -> Vec<Ev> {
    let mut queues: Vec<Vec<Ev>> = Vec::new();
    let mut last_call_id: Option<String> = None;
    for c in 0..ncalls {
        *serial += 1;
        let k = *serial;
        // pseudo names: `write!` = invalid arguments, `read?` = a failing call
        let pseudo = rng.pick(tools).to_string();
        let name = pseudo.trim_end_matches(|c| c == '!' || c == '?').to_string();
        let full = tool_args(&pseudo, k);
        let mut item_id = Some(format!("fc_{k}"));
        let mut call_id = Some(format!("call_{k}"));
        let mut idx = c as u64;
        let mut name_o = Some(name.clone());
        if wild {
            match rng.below(10) {
                0 => item_id = None,
                1 => item_id = Some(String::new()),
                _ => {}
            }
            match rng.below(12) {
                0 => call_id = None,
                1 => call_id = Some(String::new()),
                2 => {
                    if let Some(l) = &last_call_id {
                        call_id = Some(l.clone())
                    }
                }
                _ => {}
            }
            match rng.below(6) {
                0 => idx = rng.below(4),
                1 => idx = 0,
                _ => {}
            }
            match rng.below(14) {
                0 => name_o = None,
                1 => name_o = Some(String::new()),
                _ => {}
            }
        }
        last_call_id = call_id.clone();
        let mut q = Vec::new();
        // added (fields possibly partial)
        if rng.chance(3, 4) {
            q.push(Ev::Item {
                done: false,
                idx,
                is_fn: true,
                item_id: item_id.clone(),
                call_id: if wild && rng.chance(1, 4) { None } else { call_id.clone() },
                name: if wild && rng.chance(1, 4) { None } else { name_o.clone() },
                args: match rng.below(3) {
                    0 => None,
                    1 => Some(vec![]),
                    _ => if wild { Some(vec!["{".to_string()]) } else { Some(vec![]) },
                },
            });
        }
        // deltas
        let chunks = split_chunks(rng, &full);
        let streamed = rng.chance(2, 3);
        if streamed {
            for ch in &chunks {
                q.push(Ev::Delta { item_id: if wild && rng.chance(1, 10) { None } else { item_id.clone() }, idx, delta: vec![ch.clone()] });
            }
            if rng.chance(1, 2) {
                q.push(Ev::ArgsDone { item_id: item_id.clone(), idx, args: chunks.clone() });
            }
        }
        // done
        let done_args = if !streamed || rng.chance(1, 2) { Some(chunks.clone()) } else if rng.chance(1, 2) { Some(vec![]) } else { None };
        let done = Ev::Item {
            done: true,
            idx,
            is_fn: true,
            item_id: item_id.clone(),
            call_id: if wild && rng.chance(1, 5) { None } else { call_id.clone() },
            name: if wild && rng.chance(1, 5) { None } else { name_o.clone() },
            args: done_args,
        };
        if !(wild && rng.chance(1, 12)) {
            q.push(done.clone());
        }
        if wild && rng.chance(1, 15) {
            q.push(done);
        }
        queues.push(q);
    }
    // noise queue
    let mut noise = Vec::new();
    for _ in 0..rng.below(3) {
        noise.push(match rng.below(3) {
            0 => Ev::Other(json!({"type": "response.output_text.delta", "output_index": 0, "delta": "hi"})),
            1 => Ev::Item { done: rng.chance(1, 2), idx: rng.below(3), is_fn: false, item_id: Some("msg_1".into()), call_id: None, name: None, args: None },
            _ => Ev::Other(json!({"type": "response.in_progress"})),
        });
    }
    queues.push(noise);
    // random interleaving preserving per-queue order
    let mut out = Vec::new();
    let mut pos = vec![0usize; queues.len()];
    loop {
        let live: Vec<usize> = (0..queues.len()).filter(|i| pos[*i] < queues[*i].len()).collect();
        if live.is_empty() {
            break;
        }
        let q = if rng.chance(1, 2) { live[0] } else { *rng.pick(&live) };
        out.push(queues[q][pos[q]].clone());
        pos[q] += 1;
    }
    out
}

fn canon_call(idx: u64, call_id: &str, item_id: &str, name: &str, args: &str) -> String {
    format!("{idx}|{call_id}|{item_id}|{name}|{args}")
}

fn model_calls(line: &str, t: &Intern) -> Vec<String> {
    line.split(' ')
        .skip(1)
        .filter(|s| !s.is_empty())
        .map(|c| {
            let p: Vec<&str> = c.split(':').collect();
            let id = |s: &str| s.parse::<usize>().unwrap_or(usize::MAX);
            let args: String = p.get(4).unwrap_or(&"").split('.').filter(|x| !x.is_empty()).map(|x| t.get(id(x)).to_string()).collect();
            canon_call(p[0].parse().unwrap_or(u64::MAX), t.get(id(p[1])), t.get(id(p[2])), t.get(id(p[3])), &args)
        })
        .collect()
}

fn collector_cases(rep: &mut Report, model: &mut Model, rng: &mut Rng, n: u64) {
    let mut serial = 0u64;
    for _ in 0..n {
        let ncalls = rng.below(5) as usize;
        let wild = rng.chance(2, 3);
        let evs = gen_response(rng, &mut serial, ncalls, wild, TOOLS);
        let mut t = Intern::new();
        let toks: Vec<String> = evs.iter().map(|e| e.token(&mut t)).collect();
        let line = format!("c16c {} {}", evs.len(), toks.join(" "));
        let line = line.trim_end().to_string();
        let m = model.ask(&line);
        let values: Vec<Value> = evs.iter().map(|e| e.json()).collect();
        let (_rid, calls) = collector_run(&values);
        let imp: Vec<String> = calls.iter().map(|(i, c, it, nm, a)| canon_call(*i, c, it.as_deref().unwrap_or(""), nm, a)).collect();
        let mc = if m.starts_with("calls") { model_calls(&m, &t) } else { vec![m.clone()] };
        rep.evaluations += 1;
        rep.count("collector_cases");
        if wild {
            rep.count("collector_wild");
        }
        rep.count(&format!("collector_calls_{}", imp.len().min(5)));
        if imp.len() >= 2 {
            rep.nontrivial_case(&line);
        }
        if imp != mc {
            rep.disagreement("collector", json!({"events": values, "line": line}), &imp.join(" ; "), &mc.join(" ; "));
        }
        // implementation oracles: output order is non-decreasing in output_index; at most one call per done event
        if calls.windows(2).any(|w| w[0].0 > w[1].0) {
            rep.oracle_failure("C16|calls-not-in-output-order", "drained calls are not sorted by output_index", json!({"events": values}));
        }
        let dones = evs.iter().filter(|e| matches!(e, Ev::Item { done: true, is_fn: true, .. })).count();
        if calls.len() > dones {
            rep.oracle_failure("C16|more-calls-than-done-events", "more calls than function_call done events", json!({"events": values}));
        }
        rep.sample(json!({"kind": "collector", "line": line, "calls": imp}));
    }
}

/// a tool_choice JSON value and its model token
fn gen_tool_choice(rng: &mut Rng, t: &mut Intern, names: &[&str]) -> (Value, String) {
    let name = |rng: &mut Rng| -> Value {
        match rng.below(8) {
            0 => json!(""),
            1 => Value::Null,
            2 => json!(7),
            _ => json!(*rng.pick(names)),
        }
    };
    let v = match rng.below(9) {
        0 => json!("auto"),
        1 => json!("required"),
        2 => json!("none"),
        3 => json!(*rng.pick(&["", "None", "NONE", "something"])),
        4 => {
            let mut o = json!({"type": "function"});
            if rng.chance(5, 6) {
                o["name"] = name(rng);
            }
            o
        }
        5 | 6 => {
            let mut o = json!({"type": "allowed_tools"});
            if rng.chance(3, 4) {
                o["mode"] = json!(*rng.pick(&["auto", "required", "none", "NONE"]));
            }
            if rng.chance(7, 8) {
                let tools: Vec<Value> = (0..rng.below(4))
                    .map(|_| match rng.below(6) {
                        0 => json!("ls"),
                        1 => json!({"type": "web_search", "name": *rng.pick(names)}),
                        2 => json!({"name": *rng.pick(names)}),
                        _ => {
                            let mut e = json!({"type": "function"});
                            if rng.chance(7, 8) {
                                e["name"] = name(rng);
                            }
                            e
                        }
                    })
                    .collect();
                o["tools"] = Value::Array(tools);
            }
            o
        }
        7 => json!({"type": *rng.pick(&["file_search", "web_search", "bogus"])}),
        _ => rng.pick(&[Value::Null, json!(3), json!([1]), json!({})]).clone(),
    };
    (v.clone(), tc_token(&v, t))
}

/// purely syntactic reading of the JSON value into the model's `ToolChoice`
pub fn tc_token(v: &Value, t: &mut Intern) -> String {
    let opt_name = |v: Option<&Value>, t: &mut Intern| -> String {
        match v.and_then(|x| x.as_str()) {
            Some(s) => t.id(s).to_string(),
            None => "_".into(),
        }
    };
    match v {
        Value::String(s) => match s.as_str() {
            "auto" => "a".into(),
            "required" => "r".into(),
            "none" => "n".into(),
            _ => "o".into(),
        },
        Value::Object(o) => match o.get("type").and_then(|x| x.as_str()) {
            Some("function") => format!("f {}", opt_name(o.get("name"), t)),
            Some("allowed_tools") => {
                let mode_none = o.get("mode").and_then(|x| x.as_str()) == Some("none");
                let entries: Vec<String> = o
                    .get("tools")
                    .and_then(|x| x.as_array())
                    .map(|a| {
                        a.iter()
                            .map(|e| match e.as_object() {
                                Some(eo) => format!("{} {}", (eo.get("type").and_then(|x| x.as_str()) == Some("function")) as u8, opt_name(eo.get("name"), t)),
                                None => "0 _".to_string(),
                            })
                            .collect()
                    })
                    .unwrap_or_default();
                format!("t {} {}{}{}", mode_none as u8, entries.len(), if entries.is_empty() { "" } else { " " }, entries.join(" "))
            }
            _ => "o".into(),
        },
        _ => "o".into(),
    }
}

fn choice_cases(rep: &mut Report, model: &mut Model, rng: &mut Rng, n: u64) {
    let names = ["ls", "grep", "write", "nope"];
    for _ in 0..n {
        let mut t = Intern::new();
        let (v, tok) = gen_tool_choice(rng, &mut t, &names);
        let asked = *rng.pick(&["ls", "grep", "write", "nope", "", "other"]);
        let line = format!("c16a {} {}", tok, t.id(asked));
        let m = model.ask(&line);
        let imp = tool_choice_allows(&v, asked);
        rep.evaluations += 1;
        rep.count("choice_cases");
        rep.count(if imp { "choice_allows" } else { "choice_bars" });
        rep.nontrivial_case(&format!("{v}|{asked}"));
        if m != (imp as u8).to_string() {
            rep.disagreement("tool choice", json!({"tool_choice": v, "name": asked, "line": line}), &imp.to_string(), &m);
        }
    }
}

/* ---------- end to end ---------- */

#[derive(Clone, Debug)]
pub struct ScriptResp {
    pub ok: bool,
    pub has_id: bool,
    pub events: Vec<Ev>, // the events the collector sees (before [DONE])
    pub resp: Resp,
}

pub fn build_sse(rng: &mut Rng, events: &[Ev], response_id: Option<&str>, with_done: bool, after_done: &[Ev]) -> Vec<u8> {
    let mut body = String::new();
    if let Some(id) = response_id {
        body.push_str(&sse(&json!({"type": "response.created", "response": {"id": id, "status": "in_progress"}})));
    }
    for e in events {
        body.push_str(&sse(&e.json()));
    }
    if rng.chance(1, 2) {
        let mut v = json!({"type": "response.completed", "response": {"status": "completed"}});
        if let Some(id) = response_id {
            v["response"]["id"] = json!(id);
        }
        body.push_str(&sse(&v));
    }
    if with_done {
        body.push_str("data: [DONE]\n\n");
        for e in after_done {
            body.push_str(&sse(&e.json()));
        }
    }
    body.into_bytes()
}

pub struct E2eConfig {
    pub stateless: bool,
    pub followup: Option<String>,
    pub tool_choice: Value,
    pub parallel: bool,
}

pub struct E2eResult {
    /// the store's truth log as the run left it
    pub log: Vec<u8>,
    pub bodies: Vec<Value>,
    pub frames: Vec<Value>,
    pub reason: String,
    pub files: Vec<String>,
}

pub fn run_e2e(cfg: &E2eConfig, script: Vec<Resp>, prompt: &str) -> E2eResult {
    let scratch = Scratch::new("c16");
    let data_dir = scratch.path().join("data");
    let ws = scratch.path().join("ws");
    std::fs::create_dir_all(&ws).unwrap();
    std::fs::write(ws.join("seed.txt"), "seed\n").unwrap();
    let provider = ScriptedProvider::start(script);
    let config = OpenResponsesConfig {
        endpoint: provider.endpoint.clone(),
        api_key: Some("sk-test".into()),
        model: Some("m".into()),
        headers: Vec::new(),
        tool_choice: ToolChoiceParam::new(cfg.tool_choice.clone()),
        followup_user_message: cfg.followup.clone(),
        stateless_history: cfg.stateless,
        parallel_tool_calls: cfg.parallel,
    };
    let rt = tokio::runtime::Builder::new_multi_thread().worker_threads(3).enable_all().build().unwrap();
    let mut frames = Vec::new();
    let mut reason = String::from("<none>");
    {
        let engine = SessionEngine::new(data_dir.clone(), ws.clone(), Some(config)).expect("engine");
        rt.block_on(async {
            let h = engine.create_session();
            let mut rx = h.subscribe();
            engine.spawn_session(h, prompt.to_string(), None, None);
            let deadline = tokio::time::Instant::now() + std::time::Duration::from_secs(30);
            loop {
                match tokio::time::timeout_at(deadline, rx.recv()).await {
                    Ok(Ok(ev)) => {
                        let v = serde_json::to_value(&ev).unwrap();
                        let ended = v["type"] == "session_ended";
                        if ended {
                            reason = v["reason"].as_str().unwrap_or("").to_string();
                        }
                        frames.push(v);
                        if ended {
                            break;
                        }
                    }
                    Ok(Err(tokio::sync::broadcast::error::RecvError::Lagged(_))) => continue,
                    _ => break,
                }
            }
        });
    }
    drop(rt);
    let bodies = provider.bodies();
    let mut files: Vec<String> = std::fs::read_dir(&ws).unwrap().filter_map(|e| e.ok()).map(|e| e.file_name().to_string_lossy().to_string()).filter(|n| n != ".rip" && n != "seed.txt").collect();
    files.sort();
    let log = std::fs::read(data_dir.join("events.jsonl")).unwrap_or_default();
    E2eResult { log, bodies, frames, reason, files }
}

/// The same loop reached through the thread API: the run is the answer to the LAST of `prior + 1`
/// messages of one thread, so its first request carries the compiled context of the earlier turns
/// (each answered with plain text by the scripted provider), not the bare prompt. Tool choice is the
/// thread path's default. `bodies` are the requests of the last run only.
pub fn run_e2e_thread(cfg: &E2eConfig, prior: usize, script: Vec<Resp>, prompt: &str) -> E2eResult {
    use crate::http::call_json;
    let scratch = Scratch::new("c16t");
    let data_dir = scratch.path().join("data");
    let ws = scratch.path().join("ws");
    std::fs::create_dir_all(&ws).unwrap();
    std::fs::write(ws.join("seed.txt"), "seed\n").unwrap();
    let mut full: Vec<Resp> = (0..prior)
        .map(|k| {
            let body = format!(
                "data: {}\n\ndata: {}\n\ndata: [DONE]\n\n",
                json!({"type": "response.output_text.delta", "delta": format!("earlier answer {k}")}),
                json!({"type": "response.completed", "response": {"id": format!("resp_prior_{k}"), "output": []}})
            );
            Resp::Sse { body: body.into_bytes(), chunk: 0, cut_at: None }
        })
        .collect();
    full.extend(script);
    let provider = ScriptedProvider::start(full);
    let rt = tokio::runtime::Builder::new_multi_thread().worker_threads(3).enable_all().build().unwrap();
    let mut sid = String::new();
    let mut prior_requests = 0usize;
    {
        let app = ripd::verif_export::VerifApp::new(data_dir.clone(), ws.clone());
        rt.block_on(async {
            let (_, v) = call_json(&app.router, "POST", "/threads/ensure", None).await;
            let tid = v["thread_id"].as_str().unwrap_or("").to_string();
            for k in 0..=prior {
                let mut or = json!({"endpoint": provider.endpoint, "model": "m", "stateless_history": cfg.stateless, "parallel_tool_calls": cfg.parallel});
                let content = if k == prior {
                    if let Some(f) = &cfg.followup {
                        or["followup_user_message"] = json!(f);
                    }
                    prior_requests = provider.bodies().len();
                    prompt.to_string()
                } else {
                    format!("earlier question {k}")
                };
                let (_, v) = call_json(&app.router, "POST", &format!("/threads/{tid}/messages"), Some(json!({"content": content, "openresponses": or}))).await;
                sid = v["session_id"].as_str().unwrap_or("").to_string();
                for _ in 0..3000 {
                    let text = std::fs::read_to_string(data_dir.join("events.jsonl")).unwrap_or_default();
                    if text.lines().any(|l| l.contains("continuity_run_ended") && l.contains(&sid)) {
                        break;
                    }
                    tokio::time::sleep(std::time::Duration::from_millis(10)).await;
                }
            }
        });
    }
    drop(rt);
    let frames: Vec<Value> = crate::store::read_frames(&data_dir.join("events.jsonl")).into_iter().filter(|f| f["session_id"].as_str() == Some(sid.as_str())).collect();
    let reason = frames.iter().rev().find(|f| f["type"] == "session_ended").and_then(|f| f["reason"].as_str()).unwrap_or("<none>").to_string();
    let all = provider.bodies();
    let bodies = all[prior_requests.min(all.len())..].to_vec();
    let mut files: Vec<String> = std::fs::read_dir(&ws).unwrap().filter_map(|e| e.ok()).map(|e| e.file_name().to_string_lossy().to_string()).filter(|n| n != ".rip" && n != "seed.txt").collect();
    files.sort();
    let log = std::fs::read(data_dir.join("events.jsonl")).unwrap_or_default();
    E2eResult { log, bodies, frames, reason, files }
}

fn items_of(body: &Value, followup: Option<&str>, t: &mut Intern) -> Vec<String> {
    match &body["input"] {
        Value::String(_) => vec!["u".into()],
        Value::Array(a) => a
            .iter()
            .map(|it| match it["type"].as_str() {
                Some("function_call") => format!("c{}", t.id(it["call_id"].as_str().unwrap_or("<no call_id>"))),
                Some("function_call_output") => format!("o{}", t.id(it["call_id"].as_str().unwrap_or("<no call_id>"))),
                _ => {
                    let text = it["content"].as_str().map(|s| s.to_string()).or_else(|| it["content"][0]["text"].as_str().map(|s| s.to_string())).unwrap_or_default();
                    if followup == Some(text.as_str()) {
                        "m".into()
                    } else {
                        "u".into()
                    }
                }
            })
            .collect(),
        _ => vec!["?".into()],
    }
}

fn excluded_by(tool_choice: &Value, name: &str) -> bool {
    // the property's reading of the configured tool choice, written independently of rip and of the model
    match tool_choice {
        Value::String(s) => s == "none",
        Value::Object(o) => match o.get("type").and_then(|x| x.as_str()) {
            Some("function") => o.get("name").and_then(|x| x.as_str()) != Some(name),
            Some("allowed_tools") => {
                if o.get("mode").and_then(|x| x.as_str()) == Some("none") {
                    return true;
                }
                !o.get("tools").and_then(|x| x.as_array()).map(|a| a.iter().any(|e| e["type"] == "function" && e["name"].as_str() == Some(name))).unwrap_or(false)
            }
            _ => false,
        },
        _ => false,
    }
}

/// DEFAULT_MAX_TOOL_CALLS as the translator read it from the current source
fn max_tool_calls() -> usize {
    let text = std::fs::read_to_string("/verif/.build/gen.json").expect("gen.json (run ripx)");
    let v: Value = serde_json::from_str(&text).unwrap();
    v["consts"].as_array().and_then(|a| a.iter().find(|c| c["name"] == "provider_openresponses_DEFAULT_MAX_TOOL_CALLS")).and_then(|c| c["value"].as_str()).and_then(|s| s.parse().ok()).expect("DEFAULT_MAX_TOOL_CALLS in gen.json")
}

fn e2e_cases(rep: &mut Report, model: &mut Model, rng: &mut Rng, n: u64, big: bool) {
    let followup_text = "continue please";
    for case_no in 0..n {
        let mut t = Intern::new();
        let stateless = rng.chance(1, 2);
        let followup = if rng.chance(1, 2) { Some(followup_text.to_string()) } else { None };
        let tool_choice = match rng.below(9) {
            0 | 1 | 2 => json!("auto"),
            3 => json!("none"),
            4 => json!("required"),
            5 => json!({"type": "function", "name": *rng.pick(&["ls", "write", "grep"])}),
            6 => json!({"type": "allowed_tools", "mode": "auto", "tools": [{"type": "function", "name": "ls"}, {"type": "function", "name": *rng.pick(&["grep", "write"])}]}),
            7 => json!({"type": "allowed_tools", "mode": *rng.pick(&["none", "required"]), "tools": [{"type": "function", "name": "write"}]}),
            _ => json!({"type": "bogus_choice"}),
        };
        let wild = !big && rng.chance(1, 3);
        let exact = big && rng.chance(1, 2); // turns of exactly 8 calls: the bound is met between turns
        let tool_choice = if big && !ToolChoiceParam::new(tool_choice.clone()).errors().is_empty() { json!("auto") } else { tool_choice };
        // one case in four runs as the answer to a later message of a thread (compiled context as the
        // first request's input); that path has no tool-choice override
        let prior = if rng.chance(1, 4) { rng.range(1, 2) as usize } else { 0 };
        let tool_choice = if prior > 0 { json!("auto") } else { tool_choice };
        let tcp = ToolChoiceParam::new(tool_choice.clone());
        let config_valid = tcp.errors().is_empty();
        let nresp = if big { rng.range(6, 10) } else { rng.range(1, 4) };
        let mut serial = 0u64;
        let mut script: Vec<ScriptResp> = Vec::new();
        for r in 0..nresp {
            let last = r + 1 == nresp;
            let ncalls = if exact { 8 } else if big { rng.range(4, 9) as usize } else if last && rng.chance(2, 3) { 0 } else { rng.below(4) as usize };
            let events = gen_response(rng, &mut serial, ncalls, wild, TOOLS);
            let has_id = rng.chance(7, 8);
            let rid = format!("resp_{r}");
            let mode = if big { 5 } else { rng.below(14) };
            let with_done = mode != 0;
            let after: Vec<Ev> = if rng.chance(1, 5) { gen_response(rng, &mut serial, 1, false, &["write"]) } else { vec![] };
            let body = build_sse(rng, &events, if has_id { Some(&rid) } else { None }, with_done, &after);
            let chunk = *rng.pick(&[0usize, 0, 7, 64, 1]);
            let (ok, resp) = match mode {
                1 => (false, Resp::Http { status: 500, body: "{\"error\":\"boom\"}".into() }),
                2 => (false, Resp::Drop),
                // a body without a single byte is a stream that ended before its first byte: a failed request
                _ => (!body.is_empty(), Resp::Sse { body, chunk: if chunk == 1 && big { 64 } else { chunk }, cut_at: None }),
            };
            script.push(ScriptResp { ok, has_id: has_id && ok, events: if ok { events } else { vec![] }, resp });
        }
        let cfg = E2eConfig { stateless, followup: followup.clone(), tool_choice: tool_choice.clone(), parallel: rng.chance(1, 2) };
        let mut res = if prior > 0 {
            run_e2e_thread(&cfg, prior, script.iter().map(|s| s.resp.clone()).collect(), "hello")
        } else {
            run_e2e(&cfg, script.iter().map(|s| s.resp.clone()).collect(), "hello")
        };
        // thread runs: the compiled context (the whole first input, 2*prior + 1 items) plays the part
        // of the prompt. Where a stateless follow-up repeats it, it is folded into the one item the
        // model has for the prompt; where it does not, nothing is folded and the comparison shows it.
        let raw_bodies = res.bodies.clone();
        if prior > 0 {
            let ctx: Vec<Value> = res.bodies.first().and_then(|b| b["input"].as_array().cloned()).unwrap_or_default();
            if ctx.len() == 2 * prior + 1 && ctx.iter().all(|it| it["type"] != "function_call" && it["type"] != "function_call_output") {
                for b in res.bodies.iter_mut() {
                    if let Some(a) = b["input"].as_array().cloned() {
                        if a.len() >= ctx.len() && a[..ctx.len()] == ctx[..] {
                            let mut folded = vec![ctx[ctx.len() - 1].clone()];
                            folded.extend_from_slice(&a[ctx.len()..]);
                            b["input"] = Value::Array(folded);
                        }
                    }
                }
            } else {
                rep.oracle_failure("C16|thread-run-first-input-is-not-the-compiled-context", &format!("a run answering message {} of a thread started from {} input items", prior + 1, ctx.len()), json!({"prior": prior, "first_input": ctx}));
            }
            rep.count("e2e_thread_runs");
        }
        // ---- model ----
        let tc_tok = tc_token(&tool_choice, &mut t);
        let mut line = format!("c16l {} {} {} {} {}", stateless as u8, followup.is_some() as u8, if config_valid { 2 } else { 0 }, tc_tok, script.len());
        for s in &script {
            line.push_str(&format!(" {} {} {}", s.ok as u8, s.has_id as u8, s.events.len()));
            for e in &s.events {
                line.push(' ');
                line.push_str(&e.token(&mut t));
            }
        }
        // an unscripted request is answered with a bare [DONE]: the model's script ends the same way
        let line = {
            let mut l = line.replacen(&format!(" {} {}", tc_tok, script.len()), &format!(" {} {}", tc_tok, script.len() + 1), 1);
            l.push_str(" 1 0 0");
            l
        };
        let m = model.ask(&line);
        // ---- implementation view in the model's vocabulary ----
        let mut rounds: Vec<String> = Vec::new();
        let mut per_round_exec: Vec<Vec<String>> = Vec::new();
        let mut per_round_rej: Vec<Vec<String>> = Vec::new();
        for f in &res.frames {
            match f["type"].as_str() {
                Some("openresponses_request_started") => {
                    per_round_exec.push(vec![]);
                    per_round_rej.push(vec![]);
                }
                Some("tool_started") => {
                    let tool_id = f["tool_id"].as_str().unwrap_or("");
                    let name = f["name"].as_str().unwrap_or("");
                    if let Some(cid) = tool_id.strip_prefix("tool_denied_") {
                        if let Some(l) = per_round_rej.last_mut() {
                            l.push(format!("{}:{}", t.id(cid), t.id(name)));
                        }
                    } else if let Some(l) = per_round_exec.last_mut() {
                        l.push(t.id(name).to_string());
                    }
                }
                _ => {}
            }
        }
        for (i, b) in res.bodies.iter().enumerate() {
            let has_prev = b.get("previous_response_id").map(|v| !v.is_null()).unwrap_or(false);
            let items = items_of(b, followup.as_deref(), &mut t);
            rounds.push(format!(
                "{} [{}] exec=[{}] rej=[{}]",
                has_prev as u8,
                items.join(","),
                per_round_exec.get(i).map(|v| v.join(",")).unwrap_or_default(),
                per_round_rej.get(i).map(|v| v.join(",")).unwrap_or_default()
            ));
        }
        let imp = format!("reason={} {}", res.reason, rounds.join(" | "));
        // the model runs out of script only if the harness scripted too few responses: the provider then answers [DONE]
        let m_cmp = m.replace("reason=script-exhausted", "reason=completed");
        rep.evaluations += 1;
        rep.traces_validated += 1;
        rep.count("e2e_cases");
        rep.count(&format!("e2e_reason_{}", res.reason));
        rep.count(if stateless { "e2e_stateless" } else { "e2e_previous_response_id" });
        rep.count_n("e2e_requests", res.bodies.len() as u64);
        let n_exec: usize = per_round_exec.iter().map(|v| v.len()).sum();
        let n_rej: usize = per_round_rej.iter().map(|v| v.len()).sum();
        rep.count_n("e2e_tools_executed", n_exec as u64);
        rep.count_n("e2e_tools_rejected", n_rej as u64);
        if res.bodies.len() >= 2 {
            rep.nontrivial_case(&line);
        }
        let case = json!({"case": case_no, "earlier_thread_turns": prior, "stateless": stateless, "followup_user_message": followup, "tool_choice": tool_choice, "script": script.iter().map(|s| json!({"ok": s.ok, "has_response_id": s.has_id, "events": s.events.iter().map(|e| e.json()).collect::<Vec<_>>()})).collect::<Vec<_>>(), "line": line});
        if m.starts_with("reason=script-exhausted") && res.bodies.len() <= script.len() {
            // the model wanted one more response than scripted and the implementation did not ask for it
            rep.disagreement("tool loop", case.clone(), &imp, &m);
        } else if imp.trim_end() != m_cmp.trim_end() && !m.starts_with("reason=script-exhausted") {
            rep.disagreement("tool loop", case.clone(), &imp, &m);
        }
        // ---- implementation oracles ----
        // (a) stateless: each request's input extends the previous one
        if stateless {
            for w in raw_bodies.windows(2) {
                let (a, b) = (w[0]["input"].as_array().cloned().unwrap_or_default(), w[1]["input"].as_array().cloned().unwrap_or_default());
                if !(b.len() >= a.len() && b[..a.len()] == a[..]) {
                    let sig = if prior > 0 { "C16|stateless-input-not-extended|thread-context" } else if followup.is_some() { "C16|stateless-input-not-extended|followup-message" } else { "C16|stateless-input-not-extended" };
                    rep.oracle_failure(sig, "stateless history: a request's input does not extend the previous request's input", json!({"case": case, "previous_input": w[0]["input"], "next_input": w[1]["input"]}));
                    break;
                }
            }
        }
        // (b) a barred tool never runs; (c) the bound; (d) no side effect of a barred write
        let mut executed_names: Vec<String> = Vec::new();
        for f in &res.frames {
            if f["type"] == "tool_started" && !f["tool_id"].as_str().unwrap_or("").starts_with("tool_denied_") {
                executed_names.push(f["name"].as_str().unwrap_or("").to_string());
            }
        }
        for nme in &executed_names {
            if excluded_by(&tool_choice, nme) {
                rep.oracle_failure("C16|barred-tool-executed", &format!("tool {nme} ran although tool_choice {tool_choice} excludes it"), case.clone());
            }
        }
        if excluded_by(&tool_choice, "write") && !res.files.is_empty() {
            rep.oracle_failure("C16|barred-tool-side-effect", &format!("files {:?} were written although tool_choice {tool_choice} excludes write", res.files), case.clone());
        }
        if n_exec + n_rej > max_tool_calls() {
            rep.oracle_failure("C16|bound-exceeded", &format!("{} tool calls in one run", n_exec + n_rej), case.clone());
        }
        // (e) an invalid request is never sent
        if !config_valid && !res.bodies.is_empty() {
            rep.oracle_failure("C16|invalid-request-sent", "a request that fails validation reached the provider", case.clone());
        }
        // (f) every answer answers a call of the previous response, each once
        for (i, b) in res.bodies.iter().enumerate().skip(1) {
            let outs: Vec<String> = b["input"].as_array().map(|a| a.iter().filter(|x| x["type"] == "function_call_output").map(|x| x["call_id"].as_str().unwrap_or("").to_string()).collect()).unwrap_or_default();
            let prev_outs: usize = if stateless { res.bodies[i - 1]["input"].as_array().map(|a| a.iter().filter(|x| x["type"] == "function_call_output").count()).unwrap_or(0) } else { 0 };
            let new_outs = &outs[prev_outs.min(outs.len())..];
            let ran = per_round_exec.get(i - 1).map(|v| v.len()).unwrap_or(0) + per_round_rej.get(i - 1).map(|v| v.len()).unwrap_or(0);
            if new_outs.len() != ran {
                rep.oracle_failure("C16|answers-vs-tool-frames", &format!("request {i} answers {} calls, the previous turn ran/rejected {ran}", new_outs.len()), case.clone());
            }
        }
        // (g) straight from the script (no model, no tool frames): a function call item the provider
        // completed — done item, non-empty call id and name — in a response the run consumed is
        // answered by call id exactly once in the very next request; a run that ends "completed"
        // leaves no such call unanswered. Calls whose call id, output index or item id collide with another
        // call of the same response (malformed streams) are left to the model comparison.
        {
            for (i, sr) in script.iter().enumerate() {
                if !sr.ok || i >= raw_bodies.len() {
                    continue;
                }
                // (call id, output index, item id) of every function-call item event of the response
                let items: Vec<(Option<String>, u64, Option<String>, bool, bool)> = sr
                    .events
                    .iter()
                    .filter_map(|e| match e {
                        Ev::Item { done, is_fn: true, call_id, idx, item_id, name, .. } => Some((call_id.clone(), *idx, item_id.clone(), *done, name.as_ref().map(|n| !n.is_empty()).unwrap_or(false))),
                        _ => None,
                    })
                    .collect();
                // a call counts when nothing about it is ambiguous: its call id is non-empty and used by
                // no other call of the response, its output index and (non-empty) item id likewise
                let emitted: Vec<String> = items
                    .iter()
                    .filter(|(c, idx, iid, done, named)| {
                        let Some(c) = c else { return false };
                        *done
                            && *named
                            && !c.is_empty()
                            && items.iter().filter(|o| o.3 && o.0.as_deref() == Some(c.as_str())).count() == 1
                            && items.iter().all(|o| o.0.as_deref() == Some(c.as_str()) || (o.1 != *idx && (iid.as_deref().unwrap_or("").is_empty() || o.2 != *iid)))
                            && items.iter().filter(|o| o.0.as_deref() == Some(c.as_str())).all(|o| o.1 == *idx)
                    })
                    .filter_map(|x| x.0.clone())
                    .collect();
                if emitted.is_empty() {
                    continue;
                }
                rep.count_n("e2e_calls_completed_by_the_provider", emitted.len() as u64);
                match raw_bodies.get(i + 1) {
                    Some(next) => {
                        let outs: Vec<String> = next["input"].as_array().map(|a| a.iter().filter(|x| x["type"] == "function_call_output").map(|x| x["call_id"].as_str().unwrap_or("").to_string()).collect()).unwrap_or_default();
                        for c in &emitted {
                            let k = outs.iter().filter(|o| *o == c).count();
                            if k != 1 {
                                rep.oracle_failure("C16|emitted-call-not-answered-once", &format!("the provider completed function call {c} in response {i}; the next request answers it {k} times"), case.clone());
                                break;
                            }
                        }
                    }
                    None => {
                        if res.reason == "completed" {
                            rep.oracle_failure("C16|emitted-call-not-answered-once", &format!("the provider completed function call(s) {emitted:?} in response {i} and the run ended 'completed' without another request"), case.clone());
                        }
                    }
                }
            }
        }
        rep.sample(json!({"kind": "e2e", "impl": imp, "model": m}));
    }
}

pub fn run(opts: &Opts) -> Report {
    let mut rep = Report::new(
        "C16",
        "collector: random provider event sequences (0-4 calls, interleaved; two thirds with missing/empty/duplicate ids, arbitrary output indexes, repeated or missing done events), non-trivial = at least two calls drained; tool choice: random JSON values x names; end to end: a real SessionEngine against a scripted loopback provider (1-4 turns, or 4-8 turns of 3-8 calls to reach the bound), both history modes, follow-up message on/off, nine tool_choice forms incl. an invalid one, HTTP 500 / dropped connection / missing [DONE] / events after [DONE]; non-trivial = at least two requests reached the provider",
    );
    let mut rng = Rng::new(opts.seed);
    let mut model = Model::spawn();
    let k = if opts.thorough { 8 } else { 1 } * opts.scale;
    collector_cases(&mut rep, &mut model, &mut rng, 3000 * k);
    choice_cases(&mut rep, &mut model, &mut rng, 1500 * k);
    e2e_cases(&mut rep, &mut model, &mut rng, 90 * k, false);
    e2e_cases(&mut rep, &mut model, &mut rng, 16 * k, true);
    rep
}
