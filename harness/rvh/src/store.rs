//! Shared helpers for the continuity-store properties: a real store in a scratch directory,
//! random histories through the public API, and the truth log read back in canonical form.
use crate::common::*;
use rip_log::EventLog;
use ripd::{ContinuityStore, ToolSideEffects};
use serde_json::Value;
use std::collections::HashMap;
use std::path::{Path, PathBuf};
use std::sync::Arc;

pub struct TestStore {
    pub scratch: Scratch,
    pub data_dir: PathBuf,
    pub ws: PathBuf,
    pub store: Arc<ContinuityStore>,
}

impl TestStore {
    pub fn new(tag: &str) -> TestStore {
        let scratch = Scratch::new(tag);
        let data_dir = scratch.path().join("data");
        let ws = scratch.path().join("ws");
        std::fs::create_dir_all(&ws).unwrap();
        let log = Arc::new(EventLog::new(data_dir.join("events.jsonl")).expect("log"));
        let store = Arc::new(ContinuityStore::new(data_dir.clone(), ws.clone(), log).expect("store"));
        TestStore { scratch, data_dir, ws, store }
    }
    /// the store behind a full application router (for calls through the HTTP layer)
    pub fn with_app(tag: &str) -> (TestStore, ripd::verif_export::VerifApp) {
        let scratch = Scratch::new(tag);
        let data_dir = scratch.path().join("data");
        let ws = scratch.path().join("ws");
        std::fs::create_dir_all(&ws).unwrap();
        let app = ripd::verif_export::VerifApp::new(data_dir.clone(), ws.clone());
        let store = app.continuities();
        (TestStore { scratch, data_dir, ws, store }, app)
    }
    /// a fresh engine over the same directories (authority restart)
    pub fn reopen(&mut self) {
        let log = Arc::new(EventLog::new(self.data_dir.join("events.jsonl")).expect("log"));
        self.store = Arc::new(ContinuityStore::new(self.data_dir.clone(), self.ws.clone(), log).expect("store"));
    }
    pub fn log_path(&self) -> PathBuf {
        self.data_dir.join("events.jsonl")
    }
    pub fn log_bytes(&self) -> Vec<u8> {
        std::fs::read(self.log_path()).unwrap_or_default()
    }
    pub fn frames(&self) -> Vec<Value> {
        read_frames(&self.log_path())
    }
}

pub fn read_frames(path: &Path) -> Vec<Value> {
    std::fs::read_to_string(path)
        .unwrap_or_default()
        .lines()
        .filter(|l| !l.trim().is_empty())
        .map(|l| serde_json::from_str::<Value>(l).unwrap_or(Value::Null))
        .collect()
}

/// first-occurrence numbering of ids (UUIDs → 0,1,2,…)
#[derive(Default)]
pub struct Canon {
    map: HashMap<String, usize>,
}

impl Canon {
    pub fn id(&mut self, s: &str) -> usize {
        let n = self.map.len();
        *self.map.entry(s.to_string()).or_insert(n)
    }
    pub fn get(&self, s: &str) -> Option<usize> {
        self.map.get(s).copied()
    }
}

/// `stream id seq kind…` tokens of the C10/C01 frame protocol
pub fn frame_tokens(f: &Value, c: &mut Canon) -> String {
    let stream = c.id(f["session_id"].as_str().unwrap_or("?"));
    let id = c.id(f["id"].as_str().unwrap_or("?"));
    let seq = f["seq"].as_u64().unwrap_or(0);
    let kind = match f["type"].as_str().unwrap_or("?") {
        "continuity_created" => "created".to_string(),
        "continuity_message_appended" => "message".to_string(),
        "continuity_run_spawned" => format!("rs {}", c.id(f["message_id"].as_str().unwrap_or("?"))),
        "continuity_run_ended" => format!("re {}", c.id(f["message_id"].as_str().unwrap_or("?"))),
        _ => "other".to_string(),
    };
    format!("{stream} {id} {seq} {kind}")
}

#[derive(Clone, Debug)]
pub struct Msg {
    pub id: String,
    pub thread: String,
}

/// Appends `n` random frames (messages, run spawned/ended for earlier messages, side effects) to
/// `thread`; returns the messages created.
pub fn random_history(store: &ContinuityStore, thread: &str, rng: &mut Rng, n: usize, msgs: &mut Vec<Msg>) {
    for _ in 0..n {
        let own: Vec<Msg> = msgs.iter().filter(|m| m.thread == thread).cloned().collect();
        match rng.below(10) {
            0..=3 => {
                const WORDS: &[&str] = &["alpha", "beta", "gamma", "delta", "refactor", "parser", "tests", "deploy", "cache", "index", "é", "日本"];
                let nw = rng.range(2, 8);
                let content: String = (0..nw).map(|_| *rng.pick(WORDS)).collect::<Vec<_>>().join(" ");
                let actor = if rng.chance(1, 4) { "assistant" } else { "user" };
                // (an append can fail when a seeded change has damaged the store: the oracles report that, the generator goes on)
                if let Ok(id) = store.append_message(thread, actor.into(), "cli".into(), format!("{content} {}", rng.below(1000))) {
                    msgs.push(Msg { id, thread: thread.to_string() });
                }
            }
            4 | 5 if !own.is_empty() => {
                let m = rng.pick(&own);
                let _ = store.append_run_spawned(thread, &m.id, &format!("run-{}", rng.below(50)), "user".into(), "cli".into());
            }
            6 | 7 if !own.is_empty() => {
                let m = rng.pick(&own);
                let _ = store.append_run_ended(thread, &m.id, &format!("run-{}", rng.below(50)), "completed".into(), "user".into(), "cli".into());
            }
            _ => {
                let link = ripd::ContinuityRunLink {
                    continuity_id: thread.to_string(),
                    message_id: own.first().map(|m| m.id.clone()).unwrap_or_else(|| "m".into()),
                    actor_id: "user".into(),
                    origin: "cli".into(),
                };
                let _ = store.append_tool_side_effects(
                    &link,
                    &format!("run-{}", rng.below(50)),
                    ToolSideEffects { tool_id: "t".into(), tool_name: "write".into(), affected_paths: Some(vec!["a.txt".into()]), checkpoint_id: None },
                );
            }
        }
    }
}
