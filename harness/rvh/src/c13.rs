//! C13: path arguments never reach outside the workspace root.
use crate::c12::list_tree;
use crate::common::*;
use rip_kernel::{Event, EventKind};
use rip_tools::{register_builtin_tools, BuiltinToolConfig, ToolInvocation, ToolRegistry, ToolRunner};
use serde_json::{json, Value};
use std::collections::BTreeMap;
use std::path::{Component, Path, PathBuf};
use std::sync::Arc;

const SEGS: &[&str] = &["..", ".", "", "a.txt", "sub", "b.txt", "new", "é", "x y", "..a", ".. ", "...", "a\\..\\b", ".hidden", "ws"];

pub fn gen_raw(rng: &mut Rng, root: &Path) -> String {
    let n = rng.range(0, 5);
    let mut s = String::new();
    match rng.below(12) {
        0 => s.push('/'),
        1 => s.push_str("//"),
        2 => {
            s.push_str(&root.to_string_lossy());
            s.push('/');
        }
        3 => {
            s.push_str(&root.parent().unwrap().to_string_lossy());
            s.push('/');
        }
        _ => {}
    }
    for i in 0..n {
        if i > 0 {
            s.push_str(if rng.chance(1, 12) { "//" } else if rng.chance(1, 20) { "\\" } else { "/" });
        }
        if rng.chance(1, 40) {
            s.push_str(&"long".repeat(300));
        } else {
            s.push_str(*rng.pick(SEGS));
        }
    }
    if rng.chance(1, 8) {
        s.push('/');
    }
    s
}

fn comp_line(p: &Path) -> String {
    let cs: Vec<String> = p
        .components()
        .map(|c| match c {
            Component::RootDir => "root".to_string(),
            Component::CurDir => "cur".to_string(),
            Component::ParentDir => "parent".to_string(),
            Component::Normal(n) => format!("n:{}", hex(n.to_string_lossy().as_bytes())),
            Component::Prefix(_) => "prefix".to_string(),
        })
        .collect();
    format!("C {}{}", cs.len(), cs.iter().map(|c| format!(" {c}")).collect::<String>())
}

struct Tree {
    scratch: Scratch,
}

impl Tree {
    fn outer(&self) -> PathBuf {
        self.scratch.path().join("outer")
    }
    fn ws(&self) -> PathBuf {
        self.outer().join("ws")
    }
    fn build(variant: u8) -> Tree {
        let t = Tree { scratch: Scratch::new("c13") };
        let ws = t.ws();
        std::fs::create_dir_all(ws.join("sub")).unwrap();
        std::fs::create_dir_all(t.outer().join("sib")).unwrap();
        std::fs::write(ws.join("a.txt"), "alpha\nneedle\n").unwrap();
        std::fs::write(ws.join("b.log"), "log needle\n").unwrap();
        std::fs::write(ws.join("sub/b.txt"), "beta needle\n").unwrap();
        std::fs::write(ws.join(".hidden"), "h\n").unwrap();
        std::fs::write(t.outer().join("secret.txt"), if variant == 0 { "SECRET-A needle\n" } else { "SECRET-B needle needle\n" }).unwrap();
        std::fs::write(t.outer().join("sib/x.txt"), if variant == 0 { "x\n" } else { "y needle\n" }).unwrap();
        if variant == 1 {
            std::fs::write(t.outer().join(".ignore"), "*.log\nsub\n").unwrap();
            std::fs::write(t.outer().join(".gitignore"), "a.txt\n").unwrap();
            std::fs::create_dir_all(t.outer().join("xdg/git")).unwrap();
            std::fs::write(t.outer().join("xdg/git/ignore"), ".hidden\nb.txt\n").unwrap();
            std::fs::create_dir_all(t.ws().join(".git")).unwrap();
        } else {
            std::fs::create_dir_all(t.ws().join(".git")).unwrap();
        }
        t
    }
    /// everything under outer except the workspace itself
    fn outer_listing(&self) -> BTreeMap<String, Vec<u8>> {
        let (files, dirs) = list_tree(&self.outer());
        let mut m: BTreeMap<String, Vec<u8>> = files.into_iter().filter(|(p, _)| !p.starts_with("ws/")).collect();
        for d in dirs {
            if !(d == "ws" || d.starts_with("ws/")) {
                m.insert(format!("{d}/"), vec![]);
            }
        }
        // siblings of outer (scratch dir itself)
        for e in std::fs::read_dir(self.scratch.path()).unwrap() {
            let n = e.unwrap().file_name().to_string_lossy().to_string();
            if n != "outer" {
                m.insert(format!("../{n}"), vec![]);
            }
        }
        m
    }
    fn ws_listing(&self) -> BTreeMap<String, Vec<u8>> {
        fn walk(root: &Path, dir: &Path, out: &mut BTreeMap<String, Vec<u8>>) {
            for e in std::fs::read_dir(dir).unwrap() {
                let p = e.unwrap().path();
                let rel = p.strip_prefix(root).unwrap().to_string_lossy().to_string();
                if p.is_dir() {
                    out.insert(format!("{rel}/"), vec![]);
                    walk(root, &p, out);
                } else {
                    out.insert(rel, std::fs::read(&p).unwrap_or_default());
                }
            }
        }
        let mut m = BTreeMap::new();
        walk(&self.ws(), &self.ws(), &mut m);
        m
    }
}

fn runner(ws: &Path) -> ToolRunner {
    let registry = Arc::new(ToolRegistry::default());
    register_builtin_tools(&registry, BuiltinToolConfig { workspace_root: ws.to_path_buf(), ..BuiltinToolConfig::default() });
    let hook = ripd::verif_export::WorkspaceCheckpointHook::new(ws.to_path_buf()).unwrap();
    ToolRunner::with_checkpoint_hook(registry, 4, Arc::new(hook))
}

/// canonical text of what a call returned, with scratch paths removed
fn outcome(events: &[Event], scratch: &Path) -> String {
    let mut parts = Vec::new();
    for e in events {
        let s = match &e.kind {
            EventKind::ToolStdout { chunk, .. } => format!("out:{chunk}"),
            EventKind::ToolStderr { chunk, .. } => format!("err:{chunk}"),
            EventKind::ToolEnded { exit_code, .. } => format!("ended:{exit_code}"),
            EventKind::ToolFailed { error, .. } => format!("failed:{error}"),
            EventKind::CheckpointCreated { files, auto, .. } => format!("ckpt-created:{auto}:{files:?}"),
            EventKind::CheckpointRewound { files, .. } => format!("ckpt-rewound:{files:?}"),
            EventKind::CheckpointFailed { error, .. } => format!("ckpt-failed:{error}"),
            _ => continue,
        };
        parts.push(s.replace(&*scratch.to_string_lossy(), "<S>"));
    }
    parts.join("|")
}

fn refusal_of(out: &str) -> &'static str {
    if out.contains("absolute paths are not allowed") {
        "absolute"
    } else if out.contains("path escapes workspace root") {
        "parent"
    } else if out.contains("path outside workspace") {
        "outside"
    } else if out.contains("path cannot be empty") {
        "empty"
    } else {
        "ok"
    }
}

#[derive(Clone, Copy, PartialEq, Debug)]
enum Entry {
    Read,
    Write,
    WriteNonAtomic,
    Ls,
    Grep,
    BashCwd,
    ApplyPatchAdd,
    CkptCreate,
    CkptCreateRewind,
}
const ENTRIES: &[Entry] = &[
    Entry::Read, Entry::Write, Entry::WriteNonAtomic, Entry::Ls, Entry::Grep, Entry::BashCwd, Entry::ApplyPatchAdd,
    Entry::CkptCreate, Entry::CkptCreateRewind,
];

fn invoke(rt: &tokio::runtime::Runtime, tree: &Tree, r: &ToolRunner, entry: Entry, raw: &str) -> String {
    let mut seq = 0u64;
    let tool = |name: &str, args: Value| ToolInvocation { name: name.to_string(), args, timeout_ms: Some(10_000) };
    let events: Vec<Event> = match entry {
        Entry::Read => rt.block_on(r.run("s", &mut seq, tool("read", json!({"path": raw})))),
        Entry::Write => rt.block_on(r.run("s", &mut seq, tool("write", json!({"path": raw, "content": "W"})))),
        Entry::WriteNonAtomic => rt.block_on(r.run("s", &mut seq, tool("write", json!({"path": raw, "content": "W", "atomic": false})))),
        Entry::Ls => rt.block_on(r.run("s", &mut seq, tool("ls", json!({"path": raw, "recursive": true})))),
        Entry::Grep => rt.block_on(r.run("s", &mut seq, tool("grep", json!({"pattern": "needle", "path": raw})))),
        Entry::BashCwd => rt.block_on(r.run("s", &mut seq, tool("bash", json!({"command": "true", "cwd": raw})))),
        Entry::ApplyPatchAdd => {
            let patch = format!("*** Begin Patch\n*** Add File: {raw}\n+P\n*** End Patch");
            rt.block_on(r.run("s", &mut seq, tool("apply_patch", json!({"patch": patch}))))
        }
        Entry::CkptCreate => r.create_checkpoint("s", &mut seq, "l".into(), vec![PathBuf::from(raw)]),
        Entry::CkptCreateRewind => {
            let mut ev = r.create_checkpoint("s", &mut seq, "l".into(), vec![PathBuf::from(raw)]);
            let id = ev.iter().find_map(|e| match &e.kind {
                EventKind::CheckpointCreated { checkpoint_id, .. } => Some(checkpoint_id.clone()),
                _ => None,
            });
            if let Some(id) = id {
                ev.extend(r.rewind_checkpoint("s", &mut seq, &id));
            }
            ev
        }
    };
    outcome(&events, tree.scratch.path())
}

pub fn run(opts: &Opts) -> Report {
    let mut rep = Report::new(
        "C13",
        "path strings from segments {.., ., empty, names, unicode, backslash forms, long} with relative/absolute/root-prefixed heads and trailing slashes x entry points {read, write (atomic, plain), ls, grep, bash cwd, apply_patch add, checkpoint create, create+rewind} x process cwd {root, outside}; sentinel tree hashed before/after; reads run twice with different outside contents; non-trivial = path with >=2 segments, distinct by (entry, path)",
    );
    let mut model = Model::spawn();
    let rt = tokio::runtime::Builder::new_multi_thread().worker_threads(2).enable_all().build().unwrap();
    let mut rng = Rng::new(opts.seed);
    let start_cwd = std::env::current_dir().unwrap();
    let n = if opts.thorough { 6000 } else { 700 } * opts.scale;
    let mut corpus: Vec<(Entry, String)> = vec![
        (Entry::CkptCreate, "../../../../../../evil.txt".into()),
        (Entry::CkptCreateRewind, "../secret.txt".into()),
        (Entry::Write, "".into()),
        (Entry::Write, ".".into()),
        (Entry::Ls, ".".into()),
        (Entry::Grep, ".".into()),
        (Entry::CkptCreate, "/etc/passwd".into()),
    ];
    corpus.reverse();
    for i in 0..n {
        let tree = Tree::build(0);
        let (entry, raw) = match corpus.pop() {
            Some(c) => c,
            None => (*rng.pick(ENTRIES), gen_raw(&mut rng, &tree.ws())),
        };
        if raw.contains('\n') {
            continue;
        }
        let cwd_is_root = i % 2 == 0;
        std::env::set_current_dir(if cwd_is_root { tree.ws() } else { tree.outer() }).unwrap();
        rep.evaluations += 1;
        let case = json!({"entry": format!("{entry:?}"), "path": raw, "cwd": if cwd_is_root { "root" } else { "outside" }});

        // 1. lexical model vs std::path and the code's accept/refuse decision
        let root_raw = tree.ws().to_string_lossy().to_string();
        let m = model.ask(&format!("c13 {} {}", hex(root_raw.as_bytes()), hex(raw.as_bytes())));
        let p = Path::new(&raw);
        let expect_prefix = format!("A {} | {} |", p.is_absolute() as u8, comp_line(p));
        if !m.starts_with(&expect_prefix) {
            rep.disagreement("Path::components / is_absolute", case.clone(), &expect_prefix, &m);
        }
        let r = runner(&tree.ws());
        let before_outer = tree.outer_listing();
        let before_ws = tree.ws_listing();
        let out = invoke(&rt, &tree, &r, entry, &raw);
        rep.traces_validated += 1;
        let after_outer = tree.outer_listing();
        let after_ws = tree.ws_listing();
        let got = refusal_of(&out);
        let model_r = m.split(" | ").find(|s| s.starts_with("R ")).map(|s| s[2..].to_string()).unwrap_or_default();
        let model_t = m.split(" | ").find(|s| s.starts_with("T ")).map(|s| s[2..].split(' ').next().unwrap().to_string()).unwrap_or_default();
        let expect = match entry {
            Entry::CkptCreate | Entry::CkptCreateRewind => model_t.clone(),
            Entry::ApplyPatchAdd => {
                // the patch parser trims first; ask the model about the trimmed spelling
                let t = raw.trim();
                if t.is_empty() {
                    "empty".to_string()
                } else {
                    let m2 = model.ask(&format!("c13 {} {}", hex(root_raw.as_bytes()), hex(t.as_bytes())));
                    m2.split(" | ").find(|s| s.starts_with("R ")).map(|s| s[2..].to_string()).unwrap_or_default()
                }
            }
            _ => model_r.clone(),
        };
        if expect != got {
            rep.disagreement("accept/refuse decision", case.clone(), got, &expect);
        }
        // 2. implementation oracles
        if before_outer != after_outer {
            let diff: Vec<&String> = after_outer.keys().filter(|k| before_outer.get(*k) != after_outer.get(*k)).chain(before_outer.keys().filter(|k| !after_outer.contains_key(*k))).collect();
            rep.oracle_failure(
                &format!("C13|outside-modified|{entry:?}"),
                &format!("{entry:?}({raw:?}) changed something outside the workspace root: {diff:?}; outcome {out}"),
                case.clone(),
            );
        }
        if got != "ok" && before_ws != after_ws {
            let diff: Vec<&String> = after_ws.keys().filter(|k| before_ws.get(*k) != after_ws.get(*k)).collect();
            rep.oracle_failure(
                &format!("C13|refused-had-side-effect|{entry:?}"),
                &format!("{entry:?}({raw:?}) was refused ({got}) but left {diff:?}"),
                case.clone(),
            );
        }
        // accepted absolute / parent paths
        let has_parent = p.components().any(|c| matches!(c, Component::ParentDir));
        if got == "ok" && has_parent {
            rep.oracle_failure(&format!("C13|parent-accepted|{entry:?}"), &format!("{entry:?}({raw:?}) accepted a path with a parent-directory segment: {out}"), case.clone());
        }
        if got == "ok" && p.is_absolute() && !matches!(entry, Entry::CkptCreate | Entry::CkptCreateRewind) {
            rep.oracle_failure(&format!("C13|absolute-accepted|{entry:?}"), &format!("{entry:?}({raw:?}) accepted an absolute path"), case.clone());
        }
        // 3. reads do not depend on anything outside the root
        if matches!(entry, Entry::Read | Entry::Ls | Entry::Grep) {
            let tree_b = Tree::build(1);
            std::env::set_current_dir(if cwd_is_root { tree_b.ws() } else { tree_b.outer() }).unwrap();
            let r_b = runner(&tree_b.ws());
            std::env::set_var("XDG_CONFIG_HOME", tree_b.outer().join("xdg"));
            let out_b = invoke(&rt, &tree_b, &r_b, entry, &raw);
            std::env::remove_var("XDG_CONFIG_HOME");
            if out != out_b {
                rep.oracle_failure(
                    &format!("C13|outside-read|{entry:?}"),
                    &format!("{entry:?}({raw:?}) answered differently when only files outside the root differ: A={out} B={out_b}"),
                    case.clone(),
                );
            }
            std::env::set_current_dir(&start_cwd).unwrap();
        }
        std::env::set_current_dir(&start_cwd).unwrap();
        rep.count(&format!("entry_{entry:?}"));
        rep.count(&format!("decision_{got}"));
        if raw.matches('/').count() >= 1 {
            rep.nontrivial_case(&format!("{entry:?}|{raw}"));
        }
        rep.sample(case);
    }
    rep
}
