//! Scripted OpenResponses provider on a loopback socket: records every request body and answers
//! with the next scripted response (SSE body with controlled chunking, HTTP error, dropped
//! connection, empty body, missing [DONE]).
use serde_json::Value;
use std::io::{Read, Write};
use std::net::{TcpListener, TcpStream};
use std::sync::atomic::{AtomicBool, Ordering};
use std::sync::{Arc, Mutex};

#[derive(Clone, Debug)]
pub enum Resp {
    /// 200 text/event-stream; `body` is sent in pieces of `chunk` bytes (0 = one piece);
    /// `cut_at`: close the connection abruptly after that many body bytes
    Sse { body: Vec<u8>, chunk: usize, cut_at: Option<usize> },
    /// non-2xx with a body
    Http { status: u16, body: String },
    /// accept and close without answering
    Drop,
    /// non-2xx whose body echoes the request body it received
    EchoHttp { status: u16 },
}

pub struct ScriptedProvider {
    pub endpoint: String,
    pub requests: Arc<Mutex<Vec<(Vec<(String, String)>, Value)>>>,
    stop: Arc<AtomicBool>,
    addr: std::net::SocketAddr,
}

fn read_request(stream: &mut TcpStream) -> Option<(Vec<(String, String)>, Vec<u8>)> {
    let mut buf = Vec::new();
    let mut tmp = [0u8; 4096];
    let header_end;
    loop {
        let n = stream.read(&mut tmp).ok()?;
        if n == 0 {
            return None;
        }
        buf.extend_from_slice(&tmp[..n]);
        if let Some(p) = buf.windows(4).position(|w| w == b"\r\n\r\n") {
            header_end = p + 4;
            break;
        }
        if buf.len() > 1 << 20 {
            return None;
        }
    }
    let head = String::from_utf8_lossy(&buf[..header_end]).to_string();
    let headers: Vec<(String, String)> = head
        .lines()
        .skip(1)
        .filter_map(|l| l.split_once(':').map(|(k, v)| (k.trim().to_ascii_lowercase(), v.trim().to_string())))
        .collect();
    let len: usize = headers.iter().find(|(k, _)| k == "content-length").and_then(|(_, v)| v.parse().ok()).unwrap_or(0);
    let mut body = buf[header_end..].to_vec();
    while body.len() < len {
        let n = stream.read(&mut tmp).ok()?;
        if n == 0 {
            break;
        }
        body.extend_from_slice(&tmp[..n]);
    }
    Some((headers, body))
}

fn respond(stream: &mut TcpStream, resp: &Resp, request_body: &[u8]) {
    match resp {
        Resp::Drop => {}
        Resp::EchoHttp { status } => {
            let body = format!("{{\"error\":{{\"message\":\"bad request\",\"your_request\":{}}}}}", String::from_utf8_lossy(request_body));
            let _ = write!(stream, "HTTP/1.1 {status} ERR\r\ncontent-type: application/json\r\ncontent-length: {}\r\nconnection: close\r\n\r\n{body}", body.len());
        }
        Resp::Http { status, body } => {
            let _ = write!(stream, "HTTP/1.1 {status} ERR\r\ncontent-type: application/json\r\ncontent-length: {}\r\nconnection: close\r\n\r\n{body}", body.len());
        }
        Resp::Sse { body, chunk, cut_at } => {
            let _ = write!(stream, "HTTP/1.1 200 OK\r\ncontent-type: text/event-stream\r\ntransfer-encoding: chunked\r\nconnection: close\r\n\r\n");
            let limit = cut_at.unwrap_or(body.len()).min(body.len());
            let step = if *chunk == 0 { body.len().max(1) } else { *chunk };
            let mut sent = 0;
            while sent < limit {
                let end = (sent + step).min(limit);
                let piece = &body[sent..end];
                if write!(stream, "{:x}\r\n", piece.len()).is_err() {
                    return;
                }
                let _ = stream.write_all(piece);
                let _ = stream.write_all(b"\r\n");
                let _ = stream.flush();
                sent = end;
                if *chunk != 0 {
                    std::thread::sleep(std::time::Duration::from_micros(300));
                }
            }
            if cut_at.is_none() {
                let _ = stream.write_all(b"0\r\n\r\n");
            }
            // with cut_at: the connection is closed without the terminating chunk
        }
    }
    let _ = stream.flush();
    let _ = stream.shutdown(std::net::Shutdown::Both);
}

impl ScriptedProvider {
    pub fn start(script: Vec<Resp>) -> ScriptedProvider {
        let listener = TcpListener::bind("127.0.0.1:0").expect("bind loopback");
        let addr = listener.local_addr().unwrap();
        let requests = Arc::new(Mutex::new(Vec::new()));
        let stop = Arc::new(AtomicBool::new(false));
        let (reqs, stop2) = (requests.clone(), stop.clone());
        std::thread::spawn(move || {
            let mut script = script.into_iter();
            for conn in listener.incoming() {
                if stop2.load(Ordering::SeqCst) {
                    break;
                }
                let Ok(mut stream) = conn else { continue };
                let _ = stream.set_read_timeout(Some(std::time::Duration::from_secs(5)));
                let Some((headers, body)) = read_request(&mut stream) else { continue };
                let v: Value = serde_json::from_slice(&body).unwrap_or(Value::Null);
                reqs.lock().unwrap().push((headers, v));
                let resp = script.next().unwrap_or(Resp::Sse { body: b"data: [DONE]\n\n".to_vec(), chunk: 0, cut_at: None });
                respond(&mut stream, &resp, &body);
            }
        });
        ScriptedProvider { endpoint: format!("http://{addr}/v1/responses"), requests, stop, addr }
    }
    pub fn bodies(&self) -> Vec<Value> {
        self.requests.lock().unwrap().iter().map(|(_, b)| b.clone()).collect()
    }
}

impl Drop for ScriptedProvider {
    fn drop(&mut self) {
        self.stop.store(true, Ordering::SeqCst);
        let _ = TcpStream::connect(self.addr);
    }
}

/// SSE text of one event whose data is `v`
pub fn sse(v: &Value) -> String {
    format!("event: {}\ndata: {}\n\n", v["type"].as_str().unwrap_or("message"), v)
}
