//! C18: the authority lock protocol under controlled schedules vs the Lean LTS `Rip.AuthLTS`.
use crate::common::*;
use crate::sched::{self, Scheduler};
use ripd::{
    authority_dir, authority_lock_path, authority_meta_path, pid_liveness, read_authority_lock_record,
    try_cleanup_corrupt_lock_file, try_cleanup_stale_authority_files, AuthorityLockGuard, PidLiveness,
};
use serde_json::{json, Value};
use std::path::{Path, PathBuf};
use std::sync::atomic::{AtomicUsize, Ordering};
use std::sync::Arc;

fn dead_pid() -> u32 {
    let mut child = std::process::Command::new("true").spawn().expect("spawn true");
    let pid = child.id();
    let _ = child.wait();
    assert!(matches!(pid_liveness(pid), PidLiveness::Dead));
    pid
}

/// the recovery loop of ripd/src/server.rs (without the HTTP ping), one contender
fn contender(data_dir: PathBuf, ws: PathBuf, holders: Arc<AtomicUsize>, max_holders: Arc<AtomicUsize>) {
    loop {
        match AuthorityLockGuard::try_acquire(&data_dir, &ws) {
            Ok(guard) => {
                let now = holders.fetch_add(1, Ordering::SeqCst) + 1;
                max_holders.fetch_max(now, Ordering::SeqCst);
                sched::point("h.holding");
                // released by the scheduler; the guard's Drop has its own points, and the process
                // stops being an authority only when Drop has finished
                drop(guard);
                holders.fetch_sub(1, Ordering::SeqCst);
                return;
            }
            Err(_) => loop {
                sched::point("h.inspect");
                match read_authority_lock_record(&data_dir) {
                    Ok(Some(lock)) => {
                        if matches!(pid_liveness(lock.pid), PidLiveness::Dead) {
                            let _ = try_cleanup_stale_authority_files(&data_dir, lock.pid, lock.started_at_ms);
                            break;
                        } else {
                            return; // a live authority exists
                        }
                    }
                    Ok(None) => break,
                    Err(_) => {
                        // invalid json: the real loop waits out a 1 s grace period; here: someone is
                        // between create_new and the record write <=> a worker is parked there
                        if sched::parked_at("auth.acquire.write") > 0 {
                            continue;
                        }
                        let _ = try_cleanup_corrupt_lock_file(&data_dir);
                        break;
                    }
                }
            },
        }
    }
}

fn observe(data_dir: &Path, dead: u32, s: &Scheduler, holders: usize) -> String {
    let lock = match std::fs::read_to_string(authority_lock_path(data_dir)) {
        Err(_) => "none".to_string(),
        Ok(text) => match serde_json::from_str::<Value>(&text) {
            Ok(v) if v["pid"].as_u64() == Some(dead as u64) => "dead".into(),
            Ok(v) if v["pid"].is_u64() => "live".into(),
            _ => "invalid".into(),
        },
    };
    let meta = match std::fs::read_to_string(authority_meta_path(data_dir)) {
        Err(_) => "none".to_string(),
        Ok(text) => match serde_json::from_str::<Value>(&text) {
            Ok(v) if v["pid"].as_u64() == Some(dead as u64) => "dead".into(),
            _ => "live".into(),
        },
    };
    let at: Vec<String> = (0..s.finished.len())
        .map(|i| {
            let w = s.where_is(i);
            if w == "start" { "auth.acquire.create".to_string() } else { w }
        })
        .collect();
    format!("lock={lock} meta={meta} holders={holders} at={}", at.join(","))
}

pub struct Outcome {
    pub states: Vec<String>,
    pub max_holders: usize,
}

pub fn run_schedule(init: &str, n: usize, acts: &mut Vec<String>) -> Outcome {
    let scratch = Scratch::new("c18");
    let data_dir = scratch.path().join("data");
    let ws = scratch.path().join("ws");
    std::fs::create_dir_all(authority_dir(&data_dir)).unwrap();
    std::fs::create_dir_all(&ws).unwrap();
    let dead = dead_pid();
    let rec = json!({"pid": dead, "started_at_ms": 1, "workspace_root": ws.to_string_lossy()});
    match init {
        "none" => {}
        "stale" => std::fs::write(authority_lock_path(&data_dir), format!("{rec}\n")).unwrap(),
        "stalemeta" => {
            std::fs::write(authority_lock_path(&data_dir), format!("{rec}\n")).unwrap();
            let meta = json!({"endpoint": "http://127.0.0.1:1", "pid": dead, "started_at_ms": 1, "workspace_root": ws.to_string_lossy()});
            std::fs::write(authority_meta_path(&data_dir), meta.to_string()).unwrap();
        }
        _ => std::fs::write(authority_lock_path(&data_dir), "").unwrap(),
    }
    let holders = Arc::new(AtomicUsize::new(0));
    let max_holders = Arc::new(AtomicUsize::new(0));
    let workers: Vec<Box<dyn FnOnce() + Send>> = (0..n)
        .map(|_| {
            let (d, w, h, m) = (data_dir.clone(), ws.clone(), holders.clone(), max_holders.clone());
            Box::new(move || contender(d, w, h, m)) as Box<dyn FnOnce() + Send>
        })
        .collect();
    let mut s = Scheduler::new(workers);
    // every worker is parked at "start"; its first grant takes it to auth.acquire.create
    for i in 0..n {
        s.step(i);
    }
    let mut states = vec![observe(&data_dir, dead, &s, holders.load(Ordering::SeqCst))];
    let mut k = 0;
    let mut drained = false;
    loop {
        if k == acts.len() {
            if drained {
                break;
            }
            // drain: let everybody run on (round robin) so that the whole execution is recorded and
            // compared; holders are released at the very end
            let mut extra = Vec::new();
            for round in 0..60 {
                for i in 0..n {
                    extra.push(if round >= 40 { format!("r{i}") } else { format!("s{i}") });
                    if round >= 40 {
                        extra.push(format!("s{i}"));
                        extra.push(format!("s{i}"));
                    }
                }
            }
            acts.extend(extra);
            drained = true;
        }
        let a = acts[k].clone();
        k += 1;
        let (kind, idx) = a.split_at(1);
        let i: usize = idx.parse().unwrap();
        if i < n {
            match kind {
                "s" => {
                    // a holder stays where it is until released
                    if s.where_is(i) != "h.holding" {
                        s.step(i);
                    }
                }
                "r" => {
                    if s.where_is(i) == "h.holding" {
                        s.step(i);
                    }
                }
                _ => {}
            }
        }
        states.push(observe(&data_dir, dead, &s, holders.load(Ordering::SeqCst)));
    }
    s.finish();
    Outcome { states, max_holders: max_holders.load(Ordering::SeqCst) }
}

fn gen_sched(rng: &mut Rng, n: usize, len: usize) -> Vec<String> {
    let mut acts = Vec::new();
    // bursts make the interesting windows (one contender runs several calls in a row) likely
    while acts.len() < len {
        let i = rng.below(n as u64);
        let burst = match rng.below(4) {
            0 => 1,
            1 => 2,
            2 => 4,
            _ => rng.range(1, 6),
        };
        for _ in 0..burst {
            acts.push(if rng.chance(1, 12) { format!("r{i}") } else { format!("s{i}") });
        }
    }
    acts
}

/// "Recovery removes only the files of an authority that is really gone", with three parties: the
/// leftovers of a crashed authority (lock + meta of a dead pid), a recoverer inside the stale
/// cleanup, and a newcomer that becomes the authority and publishes its endpoint while the recoverer
/// is parked at one of the cleanup's yield points. Whatever the recoverer does afterwards, the
/// newcomer - alive, holding the lock - keeps its lock.json and its meta.json.
fn live_files_case(rep: &mut Report, park_at: &'static str) {
    let scratch = Scratch::new("c18live");
    let data_dir = scratch.path().join("data");
    let ws = scratch.path().join("ws");
    std::fs::create_dir_all(authority_dir(&data_dir)).unwrap();
    std::fs::create_dir_all(&ws).unwrap();
    let dead = dead_pid();
    let rec = json!({"pid": dead, "started_at_ms": 1, "workspace_root": ws.to_string_lossy()});
    std::fs::write(authority_lock_path(&data_dir), format!("{rec}\n")).unwrap();
    let meta = json!({"endpoint": "http://127.0.0.1:1", "pid": dead, "started_at_ms": 1, "workspace_root": ws.to_string_lossy()});
    std::fs::write(authority_meta_path(&data_dir), meta.to_string()).unwrap();
    let holding = Arc::new(AtomicUsize::new(0));
    let (d0, d1, w1, h1) = (data_dir.clone(), data_dir.clone(), ws.clone(), holding.clone());
    let workers: Vec<Box<dyn FnOnce() + Send>> = vec![
        Box::new(move || {
            let _ = try_cleanup_stale_authority_files(&d0, dead, 1);
        }),
        Box::new(move || {
            if let Ok(guard) = AuthorityLockGuard::try_acquire(&d1, &w1) {
                let _ = guard.write_meta("http://127.0.0.1:9");
                h1.store(1, Ordering::SeqCst);
                sched::point("h.holding");
                drop(guard);
            }
        }),
    ];
    let mut s = Scheduler::new(workers);
    for _ in 0..30 {
        if s.where_is(0) == park_at || s.finished[0] {
            break;
        }
        s.step(0);
    }
    for _ in 0..30 {
        if s.where_is(1) == "h.holding" || s.finished[1] {
            break;
        }
        s.step(1);
    }
    for _ in 0..30 {
        if s.finished[0] {
            break;
        }
        s.step(0);
    }
    let held = holding.load(Ordering::SeqCst) == 1 && s.where_is(1) == "h.holding";
    let me = std::process::id() as u64;
    let pid_in = |p: PathBuf| -> Option<u64> { std::fs::read_to_string(p).ok().and_then(|t| serde_json::from_str::<Value>(&t).ok()).and_then(|v| v["pid"].as_u64()) };
    let (lock_pid, meta_pid) = (pid_in(authority_lock_path(&data_dir)), pid_in(authority_meta_path(&data_dir)));
    rep.evaluations += 1;
    rep.traces_validated += 1;
    rep.count(&format!("live_files_cases_newcomer_{}", if held { "became_authority" } else { "was_refused" }));
    rep.nontrivial_case(&format!("live-files|{park_at}|{held}"));
    if held {
        for (file, pid) in [("lock.json", lock_pid), ("meta.json", meta_pid)] {
            if pid != Some(me) {
                rep.oracle_failure(
                    &format!("C18|recovery-removed-a-file-of-a-live-authority|{file}|recoverer-parked-at-{park_at}"),
                    &format!("a recoverer of dead pid {dead} was parked at {park_at} while a newcomer became the authority and published its endpoint; after the recoverer finished, the live authority's {file} holds pid {pid:?} (expected {me})"),
                    json!({"init": "stalemeta", "recoverer_parked_at": park_at, "file": file}),
                );
            }
        }
    }
    for _ in 0..30 {
        if s.finished[1] {
            break;
        }
        s.step(1);
    }
    s.finish();
}

pub fn run(opts: &Opts) -> Report {
    let mut rep = Report::new(
        "C18",
        "controlled schedules of 2-3 contenders running the real acquire / inspect / stale-cleanup / corrupt-cleanup / release code (one file-system call per step) from each leftover state {no files, stale lock, stale lock+meta, half-written lock}; the Lean LTS runs the same schedule; non-trivial = schedule in which >=2 contenders take >=3 steps each, distinct by (init, schedule)",
    );
    let mut model = Model::spawn();
    let mut rng = Rng::new(opts.seed);
    for park_at in ["start", "auth.stale.reread", "auth.stale.rename", "auth.stale.meta"] {
        live_files_case(&mut rep, park_at);
    }
    // corpus: the counterexample of Rip.Cex.C18.two_authorities, replayed on the real functions
    let cex: Vec<String> = "s0 s1 s0 s1 s0 s1 s0 s0 s0 s0 s1 s1 s1 s1".split(' ').map(|s| s.to_string()).collect();
    let mut cases: Vec<(String, usize, Vec<String>)> = vec![("stale".into(), 2, cex.clone()), ("stalemeta".into(), 2, cex)];
    let n_cases = if opts.thorough { 1500 } else { 150 } * opts.scale;
    for _ in 0..n_cases {
        let init = rng.pick(&["none", "stale", "stalemeta", "half"]).to_string();
        let n = rng.range(2, 3) as usize;
        let len = rng.range(8, 40) as usize;
        cases.push((init, n, gen_sched(&mut rng, n, len)));
    }
    for (init, n, mut acts) in cases {
        rep.evaluations += 1;
        let out = run_schedule(&init, n, &mut acts);
        rep.traces_validated += 1;
        let line = out.states.join(" ; ");
        let m = model.ask(&format!("c18 0 {} {} {} {}", init, n, acts.len(), acts.join(" ")));
        let case = json!({"init": init, "contenders": n, "schedule": acts.join(" ")});
        if m != line {
            // first differing step, for the report
            let (ms, is): (Vec<&str>, Vec<&str>) = (m.split(" ; ").collect(), line.split(" ; ").collect());
            let k = ms.iter().zip(is.iter()).position(|(a, b)| a != b).unwrap_or(0);
            rep.disagreement(
                &format!("state after step {k}"),
                case.clone(),
                is.get(k).unwrap_or(&"?"),
                ms.get(k).unwrap_or(&"?"),
            );
        }
        if out.max_holders > 1 {
            // the signature names the window, not the particular schedule: the first cleanup rename
            // that removed a lock file belonging to a live contender
            let mut sig = "C18|two-authorities|other".to_string();
            let ats = |st: &str| -> Vec<String> { st.split("at=").nth(1).unwrap_or("").split(',').map(|x| x.to_string()).collect() };
            // what each contender's last re-read (stale cleanup) / check (corrupt cleanup) found on disk
            let mut saw: Vec<String> = vec![String::new(); n];
            for k in 1..out.states.len() {
                let (prev, cur) = (&out.states[k - 1], &out.states[k]);
                let (pa, ca) = (ats(prev), ats(cur));
                for i in 0..n {
                    if (pa[i] == "auth.stale.reread" || pa[i] == "auth.corrupt.check") && ca[i] != pa[i] {
                        saw[i] = prev.split(' ').next().unwrap_or("").to_string(); // lock=dead | lock=invalid | lock=live | lock=none
                    }
                    let renaming = pa[i] == "auth.stale.rename" || pa[i] == "auth.corrupt.rename";
                    if !renaming || ca[i] == pa[i] {
                        continue;
                    }
                    // whose file was at the path when contender i renamed it?
                    let someone_owns = (0..n).any(|j| j != i && matches!(pa[j].as_str(), "auth.acquire.write" | "h.holding" | "auth.drop.meta" | "auth.drop.lock"));
                    let foreign = prev.starts_with("lock=live") || (prev.starts_with("lock=invalid") && someone_owns);
                    if foreign && sig.ends_with("other") {
                        // the two recorded windows: the re-read really saw the dead authority's record (stale
                        // cleanup) / the check really saw a lock without meta (corrupt cleanup) and the file was
                        // replaced before the rename. A cleanup that goes ahead after seeing anything else is a
                        // different failure.
                        sig = if pa[i] == "auth.stale.rename" && saw[i] == "lock=dead" {
                            "C18|two-authorities|stale-cleanup-reread-rename-gap".to_string()
                        } else if pa[i] == "auth.stale.rename" {
                            format!("C18|two-authorities|stale-cleanup-went-ahead-after-reading-{}", saw[i].replace('=', "-"))
                        } else {
                            // the corrupt-cleanup check looks at existence only (lock present, meta absent), so
                            // whatever the file held by then the window is the same
                            "C18|two-authorities|corrupt-cleanup-check-rename-gap".to_string()
                        };
                    }
                }
            }
            rep.oracle_failure(&sig, &format!("{} processes held the authority role at the same time", out.max_holders), case.clone());
        }
        let busy: Vec<usize> = (0..n).map(|i| acts.iter().filter(|a| a[1..] == i.to_string()).count()).collect();
        if busy.iter().filter(|c| **c >= 3).count() >= 2 {
            rep.nontrivial_case(&format!("{init}|{}", acts.join(" ")));
        }
        rep.count(&format!("init_{init}"));
        if out.max_holders > 1 {
            rep.count("schedules_with_two_authorities");
        }
        rep.sample(case);
    }
    rep
}
