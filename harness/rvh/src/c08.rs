//! C08: the compiled context is a pure function of thread truth up to the cut point.
//! Thread histories are written frame by frame into a real log (any mix of message, run,
//! side-effect, cursor, job and checkpoint frames — cumulative and legacy kinds, any to_seq), session
//! streams with reply text beside them; the real run-time compile entry point is then evaluated
//!   (A) with no caches at all (truth replay), (B) with the caches the first read rebuilt,
//!   (C) with subsets of the cache files removed, (D) after more frames were appended behind a
//!   fixed cut point (through the store API, incl. checkpoints summarising before the cut),
//!   (E) while a writer appends concurrently,
//! and every result is compared with the Lean model `Rip.Context.compile` run on the truth frames
//! read back from the log; results for one fixed cut point must also equal each other.
use crate::common::*;
use crate::store::read_frames;
use rip_kernel::{Event, EventKind};
use rip_log::EventLog;
use ripd::{CompactionCheckpointCumulativeV1Request, ContinuityRunLink, ContinuityStore};
use serde_json::{json, Value};
use std::collections::BTreeMap;
use std::path::{Path, PathBuf};
use std::sync::Arc;

struct Names {
    map: BTreeMap<String, usize>,
}

impl Names {
    fn id(&mut self, s: &str) -> usize {
        if s.is_empty() {
            return 0;
        }
        let n = self.map.len() + 1;
        *self.map.entry(s.to_string()).or_insert(n)
    }
}

struct Rig {
    _scratch: Scratch,
    data_dir: PathBuf,
    ws: PathBuf,
    log: Arc<EventLog>,
    store: Arc<ContinuityStore>,
    thread: String,
    artifacts: Vec<String>,
}

fn ev(stream: &str, seq: u64, id: String, kind: EventKind) -> Event {
    Event { id, session_id: stream.to_string(), timestamp_ms: 1_700_000_000_000 + seq, seq, kind }
}

fn build_rig(rng: &mut Rng, case_no: u64, n_frames: usize, big: bool) -> Rig {
    let scratch = Scratch::new("c08");
    let data_dir = scratch.path().join("data");
    let ws = scratch.path().join("ws");
    std::fs::create_dir_all(&ws).unwrap();
    let log = Arc::new(EventLog::new(data_dir.join("events.jsonl")).expect("log"));
    let store = Arc::new(ContinuityStore::new(data_dir.clone(), ws.clone(), log.clone()).expect("store"));
    // a helper thread mints real summary artifacts
    let helper = store.ensure_default().unwrap();
    let mut artifacts = Vec::new();
    for i in 0..3 {
        let m = store.append_message(&helper, "u".into(), "cli".into(), format!("helper {i}")).unwrap();
        if let Ok((_, art, _, _, _)) = store.compaction_checkpoint_cumulative_v1(&helper, CompactionCheckpointCumulativeV1Request { summary_markdown: Some(format!("summary {i}")), summary_artifact_id: None, to_message_id: Some(m), to_seq: None, stride_messages: None, actor_id: "u".into(), origin: "cli".into() }) {
            artifacts.push(art);
        }
    }
    // the thread under test, written frame by frame
    let thread = format!("00000000-0000-4000-8000-{:012x}", case_no + 1);
    let mut seq = 0u64;
    let mut push = |kind: EventKind, seq: &mut u64| -> String {
        // UUID-shaped ids: the message seek indexes key on the parsed UUID, any other id shape
        // silently disables the windowed read paths
        let id = format!("{:08x}-0000-4000-8000-{:012x}", case_no as u32, *seq);
        log.append(&ev(&thread, *seq, id.clone(), kind)).unwrap();
        *seq += 1;
        id
    };
    push(EventKind::ContinuityCreated { workspace: ws.display().to_string(), title: Some("t".into()) }, &mut seq);
    let mut messages: Vec<String> = Vec::new();
    let mut sessions = 0u64;
    for _ in 0..n_frames {
        match rng.below(20) {
            0..=7 => {
                // big: many 8-20 kB messages (the messages+runs sidecar outgrows the first tail window while
                // that window still holds more than the message limit) and a few very large ones
                let content = if big && rng.chance(1, 12) {
                    format!("big {} {}", seq, "x".repeat(rng.range(60_000, 400_000) as usize))
                } else if big && rng.chance(2, 3) {
                    format!("mid {} {}", seq, "y".repeat(rng.range(8_000, 20_000) as usize))
                } else {
                    format!("message {} {}", seq, rng.below(1000))
                };
                let id = push(EventKind::ContinuityMessageAppended { actor_id: "user".into(), origin: "cli".into(), content }, &mut seq);
                messages.push(id);
            }
            8..=10 if !messages.is_empty() => {
                // a run for an earlier (usually the latest) message: spawned, session stream, ended
                let m = if rng.chance(3, 4) { messages.last().unwrap().clone() } else { rng.pick(&messages).clone() };
                sessions += 1;
                let sid = format!("s-{case_no}-{sessions}");
                push(EventKind::ContinuityRunSpawned { run_session_id: sid.clone(), message_id: m.clone(), actor_id: Some("user".into()), origin: Some("cli".into()) }, &mut seq);
                let chunks = rng.below(4);
                let mut sseq = 0u64;
                let mut sess: Vec<Event> = vec![ev(&sid, sseq, format!("{sid}-0"), EventKind::SessionStarted { input: "x".into() })];
                for c in 0..chunks {
                    sseq += 1;
                    sess.push(ev(&sid, sseq, format!("{sid}-{sseq}"), EventKind::OutputTextDelta { delta: format!("reply{sessions}.{c} ") }));
                }
                sseq += 1;
                sess.push(ev(&sid, sseq, format!("{sid}-{sseq}"), EventKind::SessionEnded { reason: "completed".into() }));
                for e in &sess {
                    log.append(e).unwrap();
                }
                if rng.chance(1, 2) {
                    let _ = rip_log::write_snapshot(&data_dir.join("snapshots"), &sid, &sess);
                }
                if rng.chance(5, 6) {
                    push(EventKind::ContinuityRunEnded { run_session_id: sid, message_id: m, reason: "completed".into(), actor_id: Some("user".into()), origin: Some("cli".into()) }, &mut seq);
                }
            }
            11..=14 if seq > 2 && !artifacts.is_empty() => {
                let cumulative = rng.chance(5, 6);
                let to_seq = match rng.below(5) {
                    0 => rng.below(seq),
                    1 => seq / 2,
                    2 => seq.saturating_sub(1),
                    3 => 0,
                    _ => rng.below(seq),
                };
                push(
                    EventKind::ContinuityCompactionCheckpointCreated {
                        checkpoint_id: format!("cp-{case_no}-{seq}"),
                        cut_rule_id: "stride_messages/v1".into(),
                        summary_kind: if cumulative { "cumulative_v1".into() } else { "legacy_v0".into() },
                        summary_artifact_id: rng.pick(&artifacts).clone(),
                        from_seq: 0,
                        from_message_id: None,
                        to_seq,
                        to_message_id: None,
                        actor_id: "u".into(),
                        origin: "cli".into(),
                    },
                    &mut seq,
                );
            }
            15 => {
                push(EventKind::ContinuityToolSideEffects { run_session_id: "s".into(), tool_id: "t".into(), tool_name: "write".into(), affected_paths: Some(vec!["a".into()]), checkpoint_id: None, actor_id: "u".into(), origin: "cli".into() }, &mut seq);
            }
            16 => {
                push(EventKind::ContinuityProviderCursorUpdated { provider: "openresponses".into(), endpoint: None, model: None, cursor: Some(json!({"previous_response_id": "r"})), action: "set".into(), reason: None, run_session_id: None, actor_id: "u".into(), origin: "cli".into() }, &mut seq);
            }
            17 => {
                push(EventKind::ContinuityJobSpawned { job_id: format!("j{seq}"), job_kind: "k".into(), details: None, actor_id: "u".into(), origin: "cli".into() }, &mut seq);
            }
            _ => {
                push(EventKind::ContinuityJobEnded { job_id: format!("j{seq}"), job_kind: "k".into(), status: "completed".into(), result: None, error: None, actor_id: "u".into(), origin: "cli".into() }, &mut seq);
            }
        }
    }
    if messages.is_empty() {
        push(EventKind::ContinuityMessageAppended { actor_id: "user".into(), origin: "cli".into(), content: "only".into() }, &mut seq);
    }
    // a fresh store over the directory: it knows nothing but the log
    drop(store);
    let store = Arc::new(ContinuityStore::new(data_dir.clone(), ws.clone(), log.clone()).expect("store"));
    Rig { _scratch: scratch, data_dir, ws, log, store, thread, artifacts }
}

/// the model's input, from the truth log
fn model_line(rig: &Rig, anchor: &str, names: &mut Names, strict: bool) -> String {
    let frames = read_frames(&rig.data_dir.join("events.jsonl"));
    let mut toks: Vec<String> = Vec::new();
    let mut replies: BTreeMap<String, String> = BTreeMap::new();
    for f in &frames {
        let stream = f["session_id"].as_str().unwrap_or("");
        if f["type"] == "output_text_delta" {
            replies.entry(stream.to_string()).or_default().push_str(f["delta"].as_str().unwrap_or(""));
        }
        if stream != rig.thread {
            continue;
        }
        let seq = f["seq"].as_u64().unwrap_or(0);
        let id = names.id(f["id"].as_str().unwrap_or(""));
        let k = match f["type"].as_str().unwrap_or("") {
            "continuity_message_appended" => format!("m {}", names.id(f["content"].as_str().unwrap_or(""))),
            "continuity_run_ended" => format!("r {} {}", names.id(f["message_id"].as_str().unwrap_or("")), names.id(f["run_session_id"].as_str().unwrap_or(""))),
            "continuity_compaction_checkpoint_created" => format!(
                "k {} {} {} {}",
                names.id(f["checkpoint_id"].as_str().unwrap_or("")),
                f["to_seq"].as_u64().unwrap_or(0),
                (f["summary_kind"] == "cumulative_v1") as u8,
                names.id(f["summary_artifact_id"].as_str().unwrap_or(""))
            ),
            _ => "o".to_string(),
        };
        toks.push(format!("{seq} {id} {k}"));
    }
    let rp: Vec<String> = replies.iter().filter(|(_, t)| !t.is_empty()).map(|(s, t)| format!("{} {}", names.id(s), names.id(t))).collect();
    format!("c08 {} {} {} {} {}{}{}", strict as u8, names.id(anchor), toks.len(), toks.join(" "), rp.len(), if rp.is_empty() { "" } else { " " }, rp.join(" "))
}

fn compile_real(rig: &Rig, anchor: &str, names: &mut Names) -> String {
    let link = ContinuityRunLink { continuity_id: rig.thread.clone(), message_id: anchor.to_string(), actor_id: "user".into(), origin: "cli".into() };
    match ripd::verif_export::session::compile_for_run(&rig.store, &rig.log, &rig.data_dir.join("snapshots"), &link, "run-under-test") {
        Err(e) => {
            if e.contains("message not found") || e.contains("does not exist") {
                "none".to_string()
            } else {
                format!("error {e}")
            }
        }
        Ok(d) => {
            let art = d["bundle_artifact_id"].as_str().unwrap_or("");
            let bundle: Value = std::fs::read(rig.ws.join(".rip/artifacts/blobs").join(art)).ok().and_then(|b| serde_json::from_slice(&b).ok()).unwrap_or(Value::Null);
            let strat = match d["compiler_strategy"].as_str().unwrap_or("") {
                "recent_messages_v1" => "recent",
                "summaries_recent_messages_v1" => "summaries",
                "hierarchical_summaries_recent_messages_v1" => "hierarchical",
                other => other,
            }
            .to_string();
            let sel: Vec<String> = d["compaction_checkpoints"].as_array().map(|a| a.iter().map(|c| names.id(c["checkpoint_id"].as_str().unwrap_or("")).to_string()).collect()).unwrap_or_default();
            let items: Vec<String> = bundle["items"]
                .as_array()
                .map(|a| {
                    a.iter()
                        .map(|it| match it["type"].as_str() {
                            Some("summary_ref") => {
                                let to_seq = it["note"].as_str().and_then(|n| n.rsplit('=').next()).unwrap_or("?").to_string();
                                format!("s:{}:{}", names.id(it["artifact_id"].as_str().unwrap_or("")), to_seq)
                            }
                            _ if it["role"] == "user" => format!("u:{}:{}:{}", names.id(it["content"].as_str().unwrap_or("")), it["thread_seq"].as_u64().map(|s| s.to_string()).unwrap_or("?".into()), names.id(it["thread_event_id"].as_str().unwrap_or(""))),
                            _ => format!("a:{}", names.id(it["content"].as_str().unwrap_or(""))),
                        })
                        .collect()
                })
                .unwrap_or_default();
            let consistent = bundle["source"]["from_seq"] == d["from_seq"] && bundle["compiler"]["strategy"] == d["compiler_strategy"] && bundle["source"]["from_message_id"].as_str() == Some(anchor);
            format!(
                "from={} strat={} cause={} reset={} sel=[{}] items=[{}]{}",
                d["from_seq"].as_u64().unwrap_or(u64::MAX),
                strat,
                d["reason"]["cause"].as_str().unwrap_or("?"),
                (d["resets"].as_array().map(|a| !a.is_empty()).unwrap_or(false)) as u8,
                sel.join(","),
                items.join(","),
                if consistent { "" } else { " INCONSISTENT-BUNDLE-HEADER" }
            )
        }
    }
}

fn cache_files(data_dir: &Path, thread: &str) -> Vec<PathBuf> {
    let dir = data_dir.join("continuity_streams");
    std::fs::read_dir(&dir).map(|rd| rd.flatten().map(|e| e.path()).filter(|p| p.file_name().map(|n| n.to_string_lossy().starts_with(thread)).unwrap_or(false)).collect()).unwrap_or_default()
}

fn one_case(rep: &mut Report, model: &mut Model, rng: &mut Rng, case_no: u64, big: bool, strict: bool) {
    one_case_sized(rep, model, rng, case_no, big, false, strict)
}

/// `long`: threads of several hundred frames, so that seek indexes have more than one entry and
/// the last messages straddle an index stride
fn one_case_sized(rep: &mut Report, model: &mut Model, rng: &mut Rng, case_no: u64, big: bool, long: bool, strict: bool) {
    let n_frames = if long { rng.range(190, 520) as usize } else if big { rng.range(90, 220) as usize } else { rng.range(3, 70) as usize };
    let rig = build_rig(rng, case_no, n_frames, big);
    let mut names = Names { map: BTreeMap::new() };
    let frames = read_frames(&rig.data_dir.join("events.jsonl"));
    let msgs: Vec<String> = frames.iter().filter(|f| f["session_id"].as_str() == Some(rig.thread.as_str()) && f["type"] == "continuity_message_appended").map(|f| f["id"].as_str().unwrap().to_string()).collect();
    // anchors: the tail, mid-thread, the first message, an unknown id
    let mut anchors: Vec<String> = vec![msgs.last().unwrap().clone(), msgs[msgs.len() / 2].clone(), msgs[0].clone()];
    if rng.chance(1, 5) {
        anchors.push("no-such-message".into());
    }
    // a few messages behind the head: inside the first tail window, with fewer than the limit at or
    // before the cut but more than the limit in the window
    for back in [rng.range(3, 10) as usize, rng.range(10, 20) as usize] {
        if msgs.len() > back + 1 {
            anchors.push(msgs[msgs.len() - 1 - back].clone());
        }
    }
    anchors.dedup();
    rep.evaluations += 1;
    rep.count(if long { "long_histories" } else if big { "big_histories" } else { "histories" });
    rep.count_n("frames", frames.len() as u64);
    for anchor in &anchors {
        let line = model_line(&rig, anchor, &mut names, strict);
        let m = model.ask(&line);
        let case = json!({"case": case_no, "anchor": anchor, "thread": rig.thread, "line": if line.len() < 6000 { line.clone() } else { format!("{}…", &line[..6000]) }});
        let mut results: Vec<(&str, String)> = Vec::new();
        // (A) no caches at all
        let _ = std::fs::remove_dir_all(rig.data_dir.join("continuity_streams"));
        results.push(("no caches (truth replay)", compile_real(&rig, anchor, &mut names)));
        // (B) caches as the first read rebuilt them
        results.push(("rebuilt caches", compile_real(&rig, anchor, &mut names)));
        // (C) a random subset of cache files removed
        let files = cache_files(&rig.data_dir, &rig.thread);
        let mut removed = Vec::new();
        for f in &files {
            if rng.chance(1, 2) {
                let _ = std::fs::remove_file(f);
                removed.push(f.file_name().unwrap().to_string_lossy().replace(&rig.thread, "<t>"));
            }
        }
        results.push(("some cache files removed", compile_real(&rig, anchor, &mut names)));
        // (E) the messages+runs sidecar present but damaged at its end (a torn or garbage last line):
        // the reader has to leave the fast paths for the bounded read over the full sidecar
        {
            let _ = std::fs::remove_dir_all(rig.data_dir.join("continuity_streams"));
            let _ = compile_real(&rig, anchor, &mut names);
            let mr = rig.data_dir.join("continuity_streams").join(format!("{}.mr.v1.jsonl", rig.thread));
            if let Ok(mut bytes) = std::fs::read(&mr) {
                let how = match rng.below(3) {
                    0 => {
                        bytes.extend_from_slice(b"{\"id\":\"torn-fragment\",\"sess");
                        "torn fragment appended"
                    }
                    1 => {
                        bytes.extend_from_slice(b"this is not a frame\n");
                        "garbage line appended"
                    }
                    _ => {
                        let cut = rng.range(1, 30) as usize;
                        let keep = bytes.len().saturating_sub(cut);
                        // never on a line boundary: that is a well-formed prefix, a different fault class
                        if keep > 0 && bytes[keep - 1] != b'\n' {
                            bytes.truncate(keep);
                        } else {
                            bytes.extend_from_slice(b"{\"to");
                        }
                        "last line torn"
                    }
                };
                std::fs::write(&mr, &bytes).unwrap();
                rep.count(&format!("mr_sidecar_damaged_{}", how.replace(' ', "_")));
                results.push(("messages+runs sidecar damaged at its end", compile_real(&rig, anchor, &mut names)));
            }
        }
        // (F) the checkpoint sidecar and its index unreadable: checkpoint selection has to come from the log
        {
            let _ = std::fs::remove_dir_all(rig.data_dir.join("continuity_streams"));
            let _ = compile_real(&rig, anchor, &mut names);
            let dir = rig.data_dir.join("continuity_streams");
            let mut hit = false;
            for suffix in ["comp.v1.jsonl", "comp.idx.v1.jsonl"] {
                let f = dir.join(format!("{}.{suffix}", rig.thread));
                if f.exists() {
                    let _ = std::fs::write(&f, b"this is not a cache file\n");
                    hit = true;
                }
            }
            if hit {
                rep.count("checkpoint_caches_overwritten");
                results.push(("checkpoint sidecar and index overwritten with garbage", compile_real(&rig, anchor, &mut names)));
            }
        }
        rep.traces_validated += results.len() as u64;
        for (what, r) in &results {
            if r.contains("INCONSISTENT") {
                rep.oracle_failure("C08|bundle-header-vs-decision", "the bundle's source/compiler header differs from the logged decision", case.clone());
            }
            if *r != m {
                rep.disagreement(&format!("compile ({what})"), json!({"case": case, "removed": removed}), r, &m);
            }
        }
        if results.iter().any(|(_, r)| *r != results[0].1) {
            let sig = "C08|depends-on-cache-state";
            rep.oracle_failure(sig, &format!("the compiled context differs between cache states: {:?}", results.iter().map(|(w, r)| format!("{w}: {}", &r[..r.len().min(200)])).collect::<Vec<_>>()), case.clone());
        }
        if m != "none" {
            rep.nontrivial_case(&m);
            for s in ["strat=recent", "strat=summaries", "strat=hierarchical", "reset=1"] {
                if m.contains(s) {
                    rep.count(&format!("model_{}", s.replace('=', "_")));
                }
            }
            if m.contains(",a:") {
                rep.count("bundles_with_replies");
            }
        } else {
            rep.count("anchor_not_found");
        }
        rep.sample(json!({"anchor": anchor, "impl": results[0].1, "model": m}));
    }
    // (D) frames appended behind a fixed cut point must not matter
    if msgs.len() >= 2 {
        let anchor = msgs[rng.below(msgs.len() as u64 - 1) as usize].clone();
        let before = compile_real(&rig, &anchor, &mut names);
        let cut: u64 = before.strip_prefix("from=").and_then(|r| r.split(' ').next()).and_then(|x| x.parse().ok()).unwrap_or(0);
        let mut appended = Vec::new();
        for _ in 0..rng.range(1, 5) {
            match rng.below(3) {
                0 => {
                    let _ = rig.store.append_message(&rig.thread, "user".into(), "cli".into(), format!("later {}", rng.below(1000)));
                    appended.push("message".to_string());
                }
                1 => {
                    // a checkpoint appended now that summarises up to a message at or before the cut
                    let target = frames.iter().filter(|f| f["session_id"].as_str() == Some(rig.thread.as_str()) && f["type"] == "continuity_message_appended" && f["seq"].as_u64().unwrap_or(u64::MAX) <= cut).map(|f| f["id"].as_str().unwrap().to_string()).last();
                    if let Some(t) = target {
                        let r = rig.store.compaction_checkpoint_cumulative_v1(&rig.thread, CompactionCheckpointCumulativeV1Request { summary_markdown: Some("late summary".into()), summary_artifact_id: None, to_message_id: Some(t), to_seq: None, stride_messages: None, actor_id: "u".into(), origin: "cli".into() });
                        appended.push(format!("checkpoint-before-cut:{}", r.is_ok()));
                    }
                }
                _ => {
                    let link = ContinuityRunLink { continuity_id: rig.thread.clone(), message_id: anchor.clone(), actor_id: "u".into(), origin: "cli".into() };
                    let _ = rig.store.append_tool_side_effects(&link, "s", ripd::ToolSideEffects { tool_id: "t".into(), tool_name: "write".into(), affected_paths: None, checkpoint_id: None });
                    appended.push("side-effects".to_string());
                }
            }
        }
        let after = compile_real(&rig, &anchor, &mut names);
        let line = model_line(&rig, &anchor, &mut names, strict);
        let m = model.ask(&line);
        rep.count("later_append_rounds");
        let case = json!({"case": case_no, "anchor": anchor, "cut": cut, "appended_after_cut": appended});
        if after != before {
            let sig = if appended.iter().any(|a| a.starts_with("checkpoint-before-cut:true")) { "C08|depends-on-frames-after-cut|late-checkpoint" } else { "C08|depends-on-frames-after-cut" };
            rep.oracle_failure(sig, &format!("frames appended after the cut point {cut} changed the compiled context: before {} / after {}", &before[..before.len().min(300)], &after[..after.len().min(300)]), case.clone());
        }
        if after != m {
            rep.disagreement("compile after later appends", case, &after, &m);
        }
    }
    // (E) a writer appends while compilation runs (fixed cut)
    if msgs.len() >= 2 && rng.chance(1, 3) {
        let anchor = msgs[0].clone();
        let want = compile_real(&rig, &anchor, &mut names);
        let store = rig.store.clone();
        let thread = rig.thread.clone();
        let stop = Arc::new(std::sync::atomic::AtomicBool::new(false));
        let stop2 = stop.clone();
        let writer = std::thread::spawn(move || {
            let mut i = 0;
            while !stop2.load(std::sync::atomic::Ordering::SeqCst) && i < 400 {
                let _ = store.append_message(&thread, "user".into(), "cli".into(), format!("racing {i}"));
                i += 1;
            }
        });
        let mut got = Vec::new();
        for _ in 0..12 {
            got.push(compile_real(&rig, &anchor, &mut names));
        }
        stop.store(true, std::sync::atomic::Ordering::SeqCst);
        let _ = writer.join();
        rep.count("racing_rounds");
        // late checkpoints are not appended here, so every result must be the pre-race one
        if let Some(bad) = got.iter().find(|g| **g != want) {
            rep.oracle_failure("C08|racing-append-changes-result", &format!("compiling while a writer appends gave {} instead of {}", &bad[..bad.len().min(300)], &want[..want.len().min(300)]), json!({"case": case_no, "anchor": anchor}));
        }
    }
    let _ = &rig.artifacts;
}

/// A frame's append is in flight while a context is compiled: the writer has put the body of a frame
/// larger than its buffer into the log and not yet the newline (parked at the real append's
/// `log.newline` point). Replies are read from the log (snapshots removed). The compiled context
/// must be the one compiled before the append started: the frame is not part of the log yet.
fn inflight_append_case(rep: &mut Report, rng: &mut Rng, case_no: u64) {
    use std::sync::{Condvar, Mutex};
    static GATE: (Mutex<u8>, Condvar) = (Mutex::new(0), Condvar::new()); // 0 idle, 1 armed, 2 parked, 3 released
    let n_frames = rng.range(12, 50) as usize;
    let rig = build_rig(rng, 3_000_000 + case_no, n_frames, false);
    let mut names = Names { map: BTreeMap::new() };
    let frames = read_frames(&rig.data_dir.join("events.jsonl"));
    let msgs: Vec<String> = frames.iter().filter(|f| f["session_id"].as_str() == Some(rig.thread.as_str()) && f["type"] == "continuity_message_appended").map(|f| f["id"].as_str().unwrap().to_string()).collect();
    let _ = std::fs::remove_dir_all(rig.data_dir.join("snapshots"));
    let anchor = msgs.last().unwrap().clone();
    let want = compile_real(&rig, &anchor, &mut names);
    // (B) what a reader racing the writer's write call (or a machine that lost power) can see: only
    // the first bytes of the frame's body are in the file yet
    if case_no % 2 == 1 {
        let path = rig.data_dir.join("events.jsonl");
        let before = std::fs::read(&path).unwrap_or_default();
        let body = serde_json::to_vec(&ev("some-other-session", 0, "inflight-frame".into(), EventKind::SessionStarted { input: "y".repeat(rng.range(10, 30_000) as usize) })).unwrap();
        let cut = rng.range(1, body.len() as u64 - 1) as usize;
        let mut with = before.clone();
        with.extend_from_slice(&body[..cut]);
        std::fs::write(&path, &with).unwrap();
        let got = compile_real(&rig, &anchor, &mut names);
        // the reader itself (Rip.LogBytes.linesOf_inflight): exactly the frames of the log before the append
        let whole_lines = before.iter().filter(|b| **b == b'\n').count();
        match rig.log.replay() {
            Ok(evs) if evs.len() == whole_lines => {}
            other => rep.oracle_failure("C08|depends-on-append-in-flight|replay", &format!("EventLog::replay on a log of {whole_lines} whole lines followed by the first {cut} bytes of another frame: {}", match other { Ok(e) => format!("{} frames", e.len()), Err(e) => format!("Err({e})") }), json!({"case": case_no, "bytes_of_the_inflight_body_visible": cut})),
        }
        std::fs::write(&path, &before).unwrap();
        rep.evaluations += 1;
        rep.traces_validated += 1;
        rep.count("inflight_append_cases");
        rep.count("inflight_append_partial_body_visible");
        if want.contains(",a:") {
            rep.count("inflight_append_cases_with_replies_read_from_the_log");
        }
        if got != want {
            rep.oracle_failure("C08|depends-on-append-in-flight", &format!("compiled while the first {cut} bytes of another frame's body were in the log: {} instead of {}", &got[..got.len().min(300)], &want[..want.len().min(300)]), json!({"case": case_no, "anchor": anchor, "bytes_of_the_inflight_body_visible": cut, "body_bytes": body.len()}));
        }
        return;
    }
    // (A) park the writer between body and newline
    *GATE.0.lock().unwrap() = 1;
    rip_kernel::verif::install(Some(std::sync::Arc::new(|name: &str| {
        if name == "log.newline" {
            let mut g = GATE.0.lock().unwrap();
            if *g == 1 {
                *g = 2;
                GATE.1.notify_all();
                while *g != 3 {
                    g = GATE.1.wait(g).unwrap();
                }
            }
        }
    })));
    let log = rig.log.clone();
    let big = ev("some-other-session", 0, "inflight-frame".into(), EventKind::SessionStarted { input: "x".repeat(rng.range(20_000, 60_000) as usize) });
    let writer = std::thread::spawn(move || {
        let _ = log.append(&big);
    });
    {
        let mut g = GATE.0.lock().unwrap();
        let deadline = std::time::Instant::now() + std::time::Duration::from_secs(5);
        while *g != 2 && std::time::Instant::now() < deadline {
            g = GATE.1.wait_timeout(g, std::time::Duration::from_millis(50)).unwrap().0;
        }
    }
    let parked = *GATE.0.lock().unwrap() == 2;
    let dangling = std::fs::read(rig.data_dir.join("events.jsonl")).map(|b| b.last() != Some(&b'\n')).unwrap_or(false);
    // compile on a helper thread so that a compile that needs the log's write lock cannot hang the run
    let got = {
        let (tx, rx) = std::sync::mpsc::channel();
        let (store, log, dd, thread, anchor2) = (rig.store.clone(), rig.log.clone(), rig.data_dir.clone(), rig.thread.clone(), anchor.clone());
        std::thread::spawn(move || {
            let link = ContinuityRunLink { continuity_id: thread, message_id: anchor2, actor_id: "user".into(), origin: "cli".into() };
            let r = ripd::verif_export::session::compile_for_run(&store, &log, &dd.join("snapshots"), &link, "run-under-test");
            let _ = tx.send(r.is_ok());
        });
        if rx.recv_timeout(std::time::Duration::from_secs(10)).is_ok() {
            compile_real(&rig, &anchor, &mut names)
        } else {
            "blocked".to_string()
        }
    };
    {
        *GATE.0.lock().unwrap() = 3;
        GATE.1.notify_all();
    }
    let _ = writer.join();
    rip_kernel::verif::install(None);
    *GATE.0.lock().unwrap() = 0;
    rep.evaluations += 1;
    rep.traces_validated += 1;
    rep.count("inflight_append_cases");
    if parked && dangling {
        rep.count("inflight_append_body_on_disk_without_newline");
    }
    if want.contains(",a:") {
        rep.count("inflight_append_cases_with_replies_read_from_the_log");
    }
    if got == "blocked" {
        rep.count("inflight_append_compile_waited_for_the_writer");
    } else if got != want {
        rep.oracle_failure("C08|depends-on-append-in-flight", &format!("compiled while the body of another frame was in the log without its newline: {} instead of {}", &got[..got.len().min(300)], &want[..want.len().min(300)]), json!({"case": case_no, "anchor": anchor, "writer_parked_between_body_and_newline": parked, "log_ends_without_newline": dangling}));
    }
}

pub fn run(opts: &Opts) -> Report {
    let mut rep = Report::new(
        "C08",
        "thread histories of 3-70 frames (thorough: also 60-160 frames with 60-400 kB messages so that sidecars exceed the tail windows) written frame by frame: messages, runs with session streams and reply text (snapshots present or not), cumulative and legacy checkpoints of any to_seq, side-effect / cursor / job frames; anchors at the tail, mid-thread, first message and unknown; each compiled with no caches, rebuilt caches, random cache files removed, after later appends (messages, checkpoints summarising before the cut, side effects) and under a racing writer; non-trivial = distinct model outputs",
    );
    let mut rng = Rng::new(opts.seed);
    let mut model = Model::spawn();
    // which internal read path produced each compile input (markers in the code under test)
    static PATHS: std::sync::Mutex<BTreeMap<String, u64>> = std::sync::Mutex::new(BTreeMap::new());
    rip_kernel::verif::install(Some(std::sync::Arc::new(|name: &str| {
        if name.starts_with("path.") {
            *PATHS.lock().unwrap().entry(name.to_string()).or_insert(0) += 1;
        }
    })));
    // the model runs with the semantics of the code as it is (a late checkpoint is eligible); the
    // repaired semantics (strictCut) is the subject of a theorem, not of this run
    let strict = std::env::var("C08_MODEL_STRICT_CUT").map(|v| v == "1").unwrap_or(false);
    let n = if opts.thorough { 1200 } else { 160 } * opts.scale;
    for case_no in 0..n {
        one_case(&mut rep, &mut model, &mut rng, case_no, false, strict);
    }
    let nl = if opts.thorough { 150 } else { 16 } * opts.scale;
    for case_no in 0..nl {
        one_case_sized(&mut rep, &mut model, &mut rng, 2_000_000 + case_no, false, true, strict);
    }
    let nb = if opts.thorough { 60 } else { 8 } * opts.scale;
    for case_no in 0..nb {
        one_case(&mut rep, &mut model, &mut rng, 1_000_000 + case_no, true, strict);
    }
    rip_kernel::verif::install(None);
    let ni = if opts.thorough { 200 } else { 24 } * opts.scale;
    for case_no in 0..ni {
        inflight_append_case(&mut rep, &mut rng, case_no);
    }
    for (k, v) in PATHS.lock().unwrap().iter() {
        rep.count_n(&format!("read_{}", k.replace('.', "_")), *v);
    }
    rep
}
