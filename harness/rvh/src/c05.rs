//! C05: a crash at any write boundary leaves a store that restarts gap-free.
//! A deterministic workload runs against a real store with a callback installed on the named
//! crash points (cfg rip_verif) of the append path: at each point the on-disk state (data dir +
//! workspace .rip) is copied — the state a process death between two file-system effects leaves
//! behind. Every copy is then reopened with a fresh log and store and checked:
//!  (1) the whole store replays validated and every stream is numbered 0,1,2,… in file order;
//!  (2) everything acknowledged before the crash is still there, byte for byte, as a prefix;
//!  (3) further appends on every thread continue the numbering (replay still validates);
//!  (4) the caches found are reconciled or ignored: read capabilities answer the same with caches
//!      as found and with them removed (the C04 comparison), before and after the further appends.
//! The observed sequence of points per operation is also compared with the Lean model's effect list.
use crate::common::*;
use crate::store::read_frames;
use rip_log::EventLog;
use ripd::{CompactionAutoV1Request, CompactionCheckpointCumulativeV1Request, ContinuityRunLink, ContinuityStore, ToolSideEffects};
use serde_json::{json, Value};
use std::collections::BTreeMap;
use std::path::{Path, PathBuf};
use std::sync::{Arc, Mutex};

fn copy_dir(from: &Path, to: &Path) {
    std::fs::create_dir_all(to).unwrap();
    if let Ok(rd) = std::fs::read_dir(from) {
        for e in rd.flatten() {
            let p = e.path();
            let t = to.join(e.file_name());
            if p.is_dir() {
                copy_dir(&p, &t);
            } else {
                let _ = std::fs::copy(&p, &t);
            }
        }
    }
}

#[derive(Clone, Debug)]
enum Op {
    Message(usize), // content bytes
    Run,
    Cursor,
    SideEffects,
    Checkpoint,
    Auto,
    Branch,
    Handoff,
    Compile,
}

struct Snap {
    k: usize,
    point: String,
    op_index: usize,
    op: String,
    dir: PathBuf,
}

struct Recorder {
    armed: bool,
    count: usize,
    cur_op: usize,
    cur_op_name: String,
    data_dir: PathBuf,
    ws: PathBuf,
    snap_root: PathBuf,
    every: usize,
    snaps: Vec<Snap>,
    trace: Vec<(usize, String)>,
}

fn open(data_dir: &Path, ws: &Path) -> (Arc<EventLog>, Arc<ContinuityStore>) {
    let log = Arc::new(EventLog::new(data_dir.join("events.jsonl")).expect("log"));
    let store = Arc::new(ContinuityStore::new(data_dir.to_path_buf(), ws.to_path_buf(), log.clone()).expect("store"));
    (log, store)
}

/// per-stream numbering straight on the file + the store's own validated replay
fn check_log(path: &Path) -> Result<usize, String> {
    let text = std::fs::read_to_string(path).unwrap_or_default();
    let mut next: BTreeMap<(String, String), u64> = BTreeMap::new();
    let mut n = 0;
    for (i, line) in text.lines().enumerate() {
        if line.trim().is_empty() {
            continue;
        }
        let f: Value = serde_json::from_str(line).map_err(|e| format!("line {i} is not a JSON frame ({e}): {}…", &line[..line.len().min(60)]))?;
        let key = (f["stream_kind"].as_str().unwrap_or("?").to_string(), f["stream_id"].as_str().unwrap_or("?").to_string());
        let seq = f["seq"].as_u64().unwrap_or(u64::MAX);
        let e = next.entry(key.clone()).or_insert(0);
        if seq != *e {
            return Err(format!("stream {}/{}: frame at line {i} ({}) has seq {seq}, expected {}", key.0, &key.1[..key.1.len().min(8)], f["type"].as_str().unwrap_or("?"), *e));
        }
        *e += 1;
        n += 1;
    }
    EventLog::new(path).map_err(|e| e.to_string())?.replay_validated().map_err(|e| format!("replay_validated: {e}"))?;
    Ok(n)
}

fn threads_in(path: &Path) -> Vec<String> {
    let mut v: Vec<String> = read_frames(path).iter().filter(|f| f["type"] == "continuity_created").filter_map(|f| f["session_id"].as_str().map(|s| s.to_string())).collect();
    v.dedup();
    v
}

fn run_op(store: &ContinuityStore, log: &EventLog, data_dir: &Path, thread: &str, op: &Op, msgs: &mut Vec<String>, runs: &mut u64) {
    match op {
        Op::Message(n) => {
            if let Ok(id) = store.append_message(thread, "user".into(), "cli".into(), format!("m{} {}", msgs.len(), "x".repeat(*n))) {
                msgs.push(id);
            }
        }
        Op::Run => {
            if let Some(m) = msgs.last().cloned() {
                *runs += 1;
                let sid = format!("run-{runs}");
                let _ = store.append_run_spawned(thread, &m, &sid, "user".into(), "cli".into());
                let _ = ripd::verif_export::continuities::append_selection_decided(store, thread, &sid, &m, "recent_messages_v1", vec![], None);
                let _ = store.append_run_ended(thread, &m, &sid, "completed".into(), "user".into(), "cli".into());
            }
        }
        Op::Cursor => {
            let _ = ripd::verif_export::continuities::append_cursor_updated(store, thread, "openresponses", None, Some("m".into()), Some(json!({"previous_response_id": "r"})), "set", None);
        }
        Op::SideEffects => {
            let link = ContinuityRunLink { continuity_id: thread.to_string(), message_id: msgs.last().cloned().unwrap_or_default(), actor_id: "user".into(), origin: "cli".into() };
            let _ = store.append_tool_side_effects(&link, "s", ToolSideEffects { tool_id: "t".into(), tool_name: "write".into(), affected_paths: Some(vec!["a".into()]), checkpoint_id: None });
        }
        Op::Checkpoint => {
            if let Some(m) = msgs.first().cloned() {
                let _ = store.compaction_checkpoint_cumulative_v1(thread, CompactionCheckpointCumulativeV1Request { summary_markdown: Some("summary".into()), summary_artifact_id: None, to_message_id: Some(m), to_seq: None, stride_messages: None, actor_id: "u".into(), origin: "cli".into() });
            }
        }
        Op::Auto => {
            let _ = store.compaction_auto_v1(thread, CompactionAutoV1Request { stride_messages: Some(2), max_new_checkpoints: Some(1), dry_run: Some(false), actor_id: "u".into(), origin: "cli".into() });
        }
        Op::Branch => {
            let _ = store.branch(thread, Some("b".into()), None, None, "u".into(), "cli".into());
        }
        Op::Handoff => {
            let _ = store.handoff(thread, None, (Some("handoff summary".into()), None), None, None, ("u".into(), "cli".into()));
        }
        Op::Compile => {
            if let Some(m) = msgs.last().cloned() {
                let link = ContinuityRunLink { continuity_id: thread.to_string(), message_id: m, actor_id: "user".into(), origin: "cli".into() };
                let _ = ripd::verif_export::session::compile_for_run(store, log, &data_dir.join("snapshots"), &link, "run-c");
            }
        }
    }
}

fn op_name(op: &Op) -> String {
    match op {
        Op::Message(n) if *n >= 9000 => "message>=9k".into(),
        Op::Message(_) => "message".into(),
        o => format!("{o:?}").to_lowercase(),
    }
}

fn one_history(rep: &mut Report, rng: &mut Rng, case_no: u64, nops: usize, every: usize) {
    let scratch = Scratch::new("c05");
    let data_dir = scratch.path().join("data");
    let ws = scratch.path().join("ws");
    std::fs::create_dir_all(&ws).unwrap();
    let ops: Vec<Op> = (0..nops)
        .map(|i| match if i < 2 { 0 } else { rng.below(16) } {
            0..=4 => Op::Message(if rng.chance(1, 4) { rng.range(9_000, 40_000) as usize } else { rng.below(40) as usize }),
            5 | 6 => Op::Run,
            7 => Op::Cursor,
            8 => Op::SideEffects,
            9 | 10 => Op::Checkpoint,
            11 => Op::Auto,
            12 => Op::Branch,
            13 => Op::Handoff,
            _ => Op::Compile,
        })
        .collect();
    let rec = Arc::new(Mutex::new(Recorder { armed: false, count: 0, cur_op: 0, cur_op_name: String::new(), data_dir: data_dir.clone(), ws: ws.clone(), snap_root: scratch.path().join("snaps"), every, snaps: Vec::new(), trace: Vec::new() }));
    let rec2 = rec.clone();
    rip_kernel::verif::install(Some(Arc::new(move |name: &str| {
        let mut r = rec2.lock().unwrap();
        if !r.armed {
            return;
        }
        r.count += 1;
        let (op_i, k) = (r.cur_op, r.count);
        r.trace.push((op_i, name.to_string()));
        if k % r.every == 0 {
            let dir = r.snap_root.join(format!("{k}"));
            copy_dir(&r.data_dir, &dir.join("data"));
            copy_dir(&r.ws.join(".rip"), &dir.join("ws").join(".rip"));
            let op = r.cur_op_name.clone();
            r.snaps.push(Snap { k, point: name.to_string(), op_index: op_i, op, dir });
        }
    })));
    // ---- the workload
    let (log, store) = open(&data_dir, &ws);
    let mut msgs: Vec<String> = Vec::new();
    let mut runs = 0u64;
    let mut acked_len: Vec<u64> = Vec::new(); // log length after op i completed
    rec.lock().unwrap().armed = true;
    rec.lock().unwrap().cur_op_name = "ensure_default".into();
    let thread = store.ensure_default().unwrap();
    acked_len.push(std::fs::metadata(data_dir.join("events.jsonl")).map(|m| m.len()).unwrap_or(0));
    for (i, op) in ops.iter().enumerate() {
        {
            let mut r = rec.lock().unwrap();
            r.cur_op = i + 1;
            r.cur_op_name = op_name(op);
        }
        run_op(&store, &log, &data_dir, &thread, op, &mut msgs, &mut runs);
        acked_len.push(std::fs::metadata(data_dir.join("events.jsonl")).map(|m| m.len()).unwrap_or(0));
    }
    rec.lock().unwrap().armed = false;
    rip_kernel::verif::install(None);
    drop(store);
    drop(log);
    let final_log = std::fs::read(data_dir.join("events.jsonl")).unwrap_or_default();
    let r = rec.lock().unwrap();
    rep.evaluations += 1;
    rep.count("histories");
    rep.count_n("crash_points_reached", r.count as u64);
    rep.count_n("crash_states_examined", r.snaps.len() as u64);
    let mut by_point: BTreeMap<String, u64> = BTreeMap::new();
    for (_, p) in &r.trace {
        *by_point.entry(p.clone()).or_insert(0) += 1;
    }
    for (p, n) in by_point {
        rep.count_n(&format!("point_{p}"), n);
    }
    // ---- every crash state
    for s in &r.snaps {
        let d = s.dir.join("data");
        let w = s.dir.join("ws");
        std::fs::create_dir_all(&w).unwrap();
        let lp = d.join("events.jsonl");
        let class = format!("{}@{}", s.point, s.op);
        let case = json!({"case": case_no, "crash_point": s.point, "during_op": s.op, "op_index": s.op_index, "k": s.k});
        rep.traces_validated += 1;
        rep.nontrivial_case(&format!("{case_no}|{}|{}", s.k, s.point));
        // (2) acknowledged content is a prefix (ops before the current one had returned)
        let acked = acked_len[s.op_index.min(acked_len.len() - 1).saturating_sub(if s.op_index == 0 { 0 } else { 0 })];
        let acked = if s.op_index == 0 { 0 } else { acked_len[s.op_index - 1] } as usize;
        let _ = acked_len.len();
        let snap_log = std::fs::read(&lp).unwrap_or_default();
        if snap_log.len() < acked || snap_log[..acked] != final_log[..acked] {
            rep.oracle_failure(&format!("C05|acknowledged-frames-lost|{}", s.point), &format!("crash at {class}: the log on disk ({} bytes) does not start with the {acked} bytes acknowledged before", snap_log.len()), case.clone());
            continue;
        }
        let _ = acked;
        // (1) restart: the store replays validated, gap-free
        if let Err(e) = check_log(&lp) {
            rep.oracle_failure(&format!("C05|unreplayable-after-crash|{}", s.point), &format!("crash at {class}: {e}"), case.clone());
            continue;
        }
        // (4a) caches as found vs removed, right after the restart
        let threads = threads_in(&lp);
        let msgs_now: Vec<String> = read_frames(&lp).iter().filter(|f| f["type"] == "continuity_message_appended" && f["session_id"].as_str() == Some(thread.as_str())).filter_map(|f| f["id"].as_str().map(|x| x.to_string())).collect();
        let q = crate::c04::Queries { stride: 2, limit: 10, anchors: msgs_now.last().cloned().into_iter().collect(), rotate_endpoint: None };
        let mut stale: Vec<String> = Vec::new();
        if threads.contains(&thread) {
            let (a, b) = crate::c04::compare(&s.dir, "cmp", &d, &w, &thread, &q, None);
            for name in ["replay", "cut_points", "compaction_status", "cursor_status", "selection_status", "compile"] {
                if a.get(name).is_some() && b.get(name).is_some() && a.get(name) != b.get(name) {
                    stale.push(name.to_string());
                }
            }
        }
        if !stale.is_empty() {
            rep.oracle_failure(&format!("C05|caches-stale-after-crash|{}|before-first-append", s.point), &format!("crash at {class}: after the restart {:?} answer differently with caches as found and with caches removed", stale), case.clone());
        }
        // (3) further appends continue the numbering
        {
            let (_l, st) = open(&d, &w);
            // (3a) the store is usable again as a client finds it: the default thread the restarted
            // authority hands out accepts a message, and every thread it lists exists in the log
            match st.ensure_default() {
                Ok(t) => {
                    if let Err(e) = st.append_message(&t, "user".into(), "cli".into(), "to the default thread after restart".into()) {
                        rep.oracle_failure(&format!("C05|default-thread-unusable-after-crash|{}", s.point), &format!("crash at {class}: after the restart the default thread {t} refuses a message: {e}"), case.clone());
                    }
                }
                Err(e) => rep.oracle_failure(&format!("C05|default-thread-unusable-after-crash|{}", s.point), &format!("crash at {class}: after the restart ensure_default fails: {e}"), case.clone()),
            }
            let in_log = threads_in(&lp);
            for meta in st.list() {
                if !in_log.contains(&meta.continuity_id) {
                    rep.oracle_failure(&format!("C05|listed-thread-not-in-the-log|{}", s.point), &format!("crash at {class}: after the restart the store lists thread {} which has no frame in the log", meta.continuity_id), case.clone());
                }
            }
            for t in &threads {
                let _ = st.append_message(t, "user".into(), "cli".into(), "after restart 1".into());
                let _ = ripd::verif_export::continuities::append_cursor_updated(&st, t, "openresponses", None, None, None, "set", None);
                let _ = st.append_message(t, "user".into(), "cli".into(), "after restart 2".into());
            }
        }
        if let Err(e) = check_log(&lp) {
            rep.oracle_failure(&format!("C05|numbering-broken-by-next-append|{}", s.point), &format!("crash at {class}, restart, three more appends per thread: {e}"), case.clone());
            continue;
        }
        // (4b) and the caches after those appends
        if threads.contains(&thread) {
            let (a, b) = crate::c04::compare(&s.dir, "cmp2", &d, &w, &thread, &q, None);
            let mut bad = Vec::new();
            for name in ["replay", "cut_points", "compaction_status", "cursor_status", "selection_status", "compile"] {
                if a.get(name).is_some() && b.get(name).is_some() && a.get(name) != b.get(name) {
                    bad.push(name);
                }
            }
            if !bad.is_empty() {
                rep.oracle_failure(&format!("C05|caches-stale-after-crash|{}|after-further-appends", s.point), &format!("crash at {class}, restart, further appends: {:?} still answer differently with caches as found and with caches removed", bad), case.clone());
            }
        }
        // (4c) "reconciled with the log or ignored", looked at directly: the messages+runs sidecar has
        // sparse seqs by design, so no reader can notice a missing frame in its middle - a hole is
        // neither reconciled nor ignored. Every message / run_ended frame of the thread at or below the
        // sidecar's last seq has to be in it (a missing or unparseable sidecar is fine: it is ignored).
        for t in &threads {
            let mr = d.join("continuity_streams").join(format!("{t}.mr.v1.jsonl"));
            let Ok(text) = std::fs::read_to_string(&mr) else { continue };
            let parsed: Vec<Option<Value>> = text.lines().filter(|l| !l.trim().is_empty()).map(|l| serde_json::from_str::<Value>(l).ok()).collect();
            if parsed.iter().any(|v| v.is_none()) {
                continue;
            }
            let have: std::collections::BTreeSet<u64> = parsed.iter().filter_map(|v| v.as_ref().and_then(|v| v["seq"].as_u64())).collect();
            let Some(last) = have.iter().next_back().cloned() else { continue };
            let missing: Vec<(u64, String)> = read_frames(&lp)
                .iter()
                .filter(|f| f["session_id"].as_str() == Some(t.as_str()) && (f["type"] == "continuity_message_appended" || f["type"] == "continuity_run_ended"))
                .filter_map(|f| f["seq"].as_u64().map(|q| (q, f["type"].as_str().unwrap_or("?").to_string())))
                .filter(|(q, _)| *q <= last && !have.contains(q))
                .collect();
            if !missing.is_empty() {
                rep.oracle_failure(
                    &format!("C05|derived-cache-has-a-hole|{}|mr.v1.jsonl", s.point),
                    &format!("crash at {class}, restart, further appends: the messages+runs sidecar of {t} reaches seq {last} but lacks {missing:?}, which the log holds"),
                    case.clone(),
                );
            }
        }
        let _ = std::fs::remove_dir_all(&s.dir);
    }
    // ---- the observed effect order of a plain message append vs the model's list
    let first_msg_points: Vec<String> = r.trace.iter().filter(|(i, _)| *i == 1).map(|(_, p)| p.clone()).collect();
    rep.sample(json!({"ops": ops.iter().map(op_name).collect::<Vec<_>>(), "points_of_first_message_append": first_msg_points}));
}


/// plain histories (one frame per operation on one thread): the raw disk state at every crash point
/// is compared with the Lean model's `partialAppend`, and the recovered + continued state with `story`
fn plain_history(rep: &mut Report, model: &mut Model, rng: &mut Rng, case_no: u64) {
    let scratch = Scratch::new("c05p");
    let data_dir = scratch.path().join("data");
    let ws = scratch.path().join("ws");
    std::fs::create_dir_all(&ws).unwrap();
    let nops = rng.range(2, 7) as usize;
    // (big, mr)
    let flags: Vec<(bool, bool)> = (0..nops).map(|_| match rng.below(4) { 0 => (true, true), 1 | 2 => (false, true), _ => (false, false) }).collect();
    let rec: Arc<Mutex<(bool, usize, Vec<(usize, String, PathBuf)>)>> = Arc::new(Mutex::new((false, 0, Vec::new())));
    let rec2 = rec.clone();
    let (dd, root) = (data_dir.clone(), scratch.path().join("snaps"));
    rip_kernel::verif::install(Some(Arc::new(move |name: &str| {
        let mut r = rec2.lock().unwrap();
        if !r.0 {
            return;
        }
        let dir = root.join(format!("{}", r.2.len()));
        copy_dir(&dd, &dir);
        let op = r.1;
        r.2.push((op, name.to_string(), dir));
    })));
    let (_log, store) = open(&data_dir, &ws);
    let thread = store.ensure_default().unwrap();
    let mut last_msg: Option<String> = None;
    for (i, (big, mr)) in flags.iter().enumerate() {
        {
            let mut r = rec.lock().unwrap();
            r.0 = true;
            r.1 = i;
        }
        if *mr && !*big && last_msg.is_some() && rng.chance(1, 3) {
            // the other kind of frame the messages+runs sidecar holds: a run's end
            rep.count("plain_run_ended_frames");
            let _ = store.append_run_ended(&thread, last_msg.as_deref().unwrap(), &format!("run-{i}"), "completed".into(), "user".into(), "cli".into());
        } else if *mr {
            if let Ok(id) = store.append_message(&thread, "user".into(), "cli".into(), format!("m{i} {}", "x".repeat(if *big { 12_000 } else { 5 }))) {
                last_msg = Some(id);
            }
        } else {
            let _ = ripd::verif_export::continuities::append_cursor_updated(&store, &thread, "openresponses", None, None, Some(json!({"previous_response_id": "r"})), "set", None);
        }
        rec.lock().unwrap().0 = false;
    }
    rip_kernel::verif::install(None);
    drop(store);
    let snaps = rec.lock().unwrap().2.clone();
    rep.evaluations += 1;
    rep.count("plain_histories");
    let fl = |(b, m): &(bool, bool)| format!("{} {}", *b as u8, *m as u8);
    let seqs_of = |path: &Path| -> (Vec<String>, Option<u64>) {
        let bytes = std::fs::read(path).unwrap_or_default();
        let text = String::from_utf8_lossy(&bytes).to_string();
        let ends_nl = text.is_empty() || text.ends_with('\n');
        let mut lines: Vec<&str> = text.lines().filter(|l| !l.trim().is_empty()).collect();
        let mut dangling = None;
        if !ends_nl {
            if let Some(last) = lines.pop() {
                dangling = serde_json::from_str::<Value>(last).ok().filter(|v| v["session_id"].as_str() == Some(thread.as_str())).and_then(|v| v["seq"].as_u64());
            }
        }
        let seqs = lines.iter().filter_map(|l| match serde_json::from_str::<Value>(l) { Ok(v) => if v["session_id"].as_str() == Some(thread.as_str()) { Some(v["seq"].as_u64().map(|s| s.to_string()).unwrap_or("x".into())) } else { None }, Err(_) => Some("x".into()) }).collect();
        (seqs, dangling)
    };
    let show = |d: &Path| -> String {
        let (log, dangling) = seqs_of(&d.join("events.jsonl"));
        let (side, _) = seqs_of(&d.join("continuity_streams").join(format!("{thread}.jsonl")));
        let (mr, _) = seqs_of(&d.join("continuity_streams").join(format!("{thread}.mr.v1.jsonl")));
        format!("log=[{}] dangling={} side=[{}] mr=[{}]", log.join(","), dangling.map(|s| s.to_string()).unwrap_or("_".into()), side.join(","), mr.join(","))
    };
    for (op, point, dir) in &snaps {
        let f = flags[*op];
        let tail = if f.1 { 7 } else { 5 };
        let k = match point.as_str() {
            "store.lock" | "store.log_append" | "log.body" => 0,
            "log.newline" => 1,
            "log.flush" => 2,
            "log.done" | "store.cache_append" => 3,
            "cache.full" => 4,
            "cache.indexes" => 5,
            "cache.mr.line" => 6,
            "cache.mr" | "cache.comp" | "cache.comp.line" | "store.publish" => tail,
            "store.bump" => tail + 1,
            _ => continue,
        };
        // the thread's creation frame is history entry 0 (small, not in the messages+runs sidecar)
        let hist: Vec<String> = std::iter::once("0 0".to_string()).chain(flags[..*op].iter().map(fl)).collect();
        let more = [(false, true), (false, false), (false, true)];
        let line = |stage: u32, with_more: bool| format!("c05 1 1 {} {} {} {} {} {}{}", hist.len(), hist.join(" "), fl(&f), k, stage, if with_more { more.len() } else { 0 }, if with_more { format!(" {}", more.iter().map(fl).collect::<Vec<_>>().join(" ")) } else { String::new() });
        rep.traces_validated += 1;
        rep.count("plain_crash_states");
        rep.nontrivial_case(&format!("plain|{case_no}|{op}|{point}"));
        // the raw crash state
        let raw = show(dir);
        let m0 = model.ask(&line(0, false));
        if raw != m0 {
            rep.disagreement(&format!("disk state at crash point {point}"), json!({"case": case_no, "op": op, "point": point, "flags": flags.iter().map(fl).collect::<Vec<_>>(), "line": line(0, false)}), &raw, &m0);
            continue;
        }
        // restart and three further appends (message, cursor, message)
        {
            let (_l, st) = open(dir, &ws);
            let _ = st.append_message(&thread, "user".into(), "cli".into(), "after 1".into());
            let _ = ripd::verif_export::continuities::append_cursor_updated(&st, &thread, "openresponses", None, None, None, "set", None);
            let _ = st.append_message(&thread, "user".into(), "cli".into(), "after 2".into());
        }
        let cont = show(dir);
        let m2 = model.ask(&line(2, true));
        if cont != m2 {
            rep.disagreement(&format!("disk state after crash at {point}, restart and three appends"), json!({"case": case_no, "op": op, "point": point, "line": line(2, true)}), &cont, &m2);
        }
        let _ = std::fs::remove_dir_all(dir);
    }
    rep.sample(json!({"plain_flags": flags.iter().map(fl).collect::<Vec<_>>(), "crash_states": snaps.len()}));
}

pub fn run(opts: &Opts) -> Report {
    let mut rep = Report::new(
        "C05",
        "deterministic workloads of 8-16 store operations (messages incl. frames larger than the writer buffer, runs with selection frames, cursor updates, side effects, manual and automatic checkpoints with summary artifacts, branch, handoff, context compile with its bundle artifact) on a fresh store; the on-disk state is copied at every named crash point (quick: every 2nd) between the file-system effects of the log, the seven cache files, index.json and artifact writes; each copy is reopened and checked (replay validated, numbering, acknowledged prefix, three further appends per thread, caches as found vs removed); non-trivial = every examined crash state",
    );
    let mut rng = Rng::new(opts.seed);
    let mut model = Model::spawn();
    let np = if opts.thorough { 120 } else { 12 } * opts.scale;
    for case_no in 0..np {
        plain_history(&mut rep, &mut model, &mut rng, case_no);
    }
    let n = if opts.thorough { 40 } else { 5 } * opts.scale;
    for case_no in 0..n {
        let nops = rng.range(8, 16) as usize;
        one_history(&mut rep, &mut rng, case_no, nops, if opts.thorough { 1 } else { 2 });
    }
    rep
}
