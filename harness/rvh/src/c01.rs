//! C01: per-stream total order (seq 0,1,2,… no gap, no duplicate, in file order) under any schedule.
use crate::common::*;
use crate::sched::{self, Scheduler};
use crate::store::*;
use rip_log::EventLog;
use ripd::{ContinuityRunLink, SessionEngine, ToolSideEffects};
use serde_json::{json, Value};
use std::collections::BTreeMap;
use std::sync::{Arc, Mutex};

/// per-stream check straight on the file: every stream's frames carry 0,1,2,… in file order
fn check_log(path: &std::path::Path) -> Result<usize, String> {
    let frames = read_frames(path);
    let mut next: BTreeMap<(String, String), u64> = BTreeMap::new();
    for (i, f) in frames.iter().enumerate() {
        if f.is_null() {
            return Err(format!("line {i} is not a JSON frame"));
        }
        let key = (f["stream_kind"].as_str().unwrap_or("?").to_string(), f["stream_id"].as_str().unwrap_or("?").to_string());
        let seq = f["seq"].as_u64().unwrap_or(u64::MAX);
        let e = next.entry(key.clone()).or_insert(0);
        if seq != *e {
            return Err(format!("stream {}/{}: frame at line {i} ({}) has seq {seq}, expected {}", key.0, &key.1[..key.1.len().min(8)], f["type"].as_str().unwrap_or("?"), *e));
        }
        *e += 1;
    }
    // and the store's own validated replay must agree
    EventLog::new(path).map_err(|e| e.to_string())?.replay_validated().map_err(|e| format!("replay_validated: {e}"))?;
    Ok(frames.len())
}

// ---------------------------------------------------------------- (a) real concurrency stress
fn stress_case(rep: &mut Report, rng: &mut Rng, nthreads: usize, nops: usize, with_restart: bool) {
    let scratch = Scratch::new("c01s");
    let data_dir = scratch.path().join("data");
    let ws = scratch.path().join("ws");
    std::fs::create_dir_all(&ws).unwrap();
    let rt = tokio::runtime::Builder::new_multi_thread().worker_threads(4).enable_all().build().unwrap();
    let seeds: Vec<u64> = (0..nthreads).map(|_| rng.next()).collect();
    let rounds = if with_restart { 2 } else { 1 };
    let mut t0 = String::new();
    for round in 0..rounds {
        let engine = Arc::new(SessionEngine::new(data_dir.clone(), ws.clone(), None).expect("engine"));
        let store = engine.continuities();
        t0 = store.ensure_default().unwrap();
        let handles: Vec<_> = seeds
            .iter()
            .enumerate()
            .map(|(w, seed)| {
                let (engine, store, t0) = (engine.clone(), store.clone(), t0.clone());
                let mut rng = Rng::new(*seed ^ (round as u64) << 32);
                let rt_handle = rt.handle().clone();
                std::thread::spawn(move || {
                    let mut mine = t0.clone();
                    let mut msgs: Vec<Msg> = Vec::new();
                    for _ in 0..nops {
                        let target = if rng.chance(1, 2) { t0.clone() } else { mine.clone() };
                        // now and then an append addressed to an id that names no thread but — as a
                        // file name in the cache directory — coincides with one of a real thread's
                        // cache files or with the store's own files: it must not start a stream
                        if rng.chance(1, 10) {
                            let alias = match rng.below(6) {
                                0 => format!("{target}.mr.v1"),
                                1 => format!("{target}.comp.v1"),
                                2 => format!("{target}.seek.v1"),
                                3 => "../events".to_string(),
                                4 => format!("../continuity_streams/{target}"),
                                _ => format!("{target}.mr.idx.v1"),
                            };
                            let _ = store.append_message(&alias, "u".into(), "cli".into(), "to an alias".into());
                            let _ = store.append_run_spawned(&alias, "m", "run-a", "u".into(), "cli".into());
                            continue;
                        }
                        match rng.below(12) {
                            0..=4 => random_history(&store, &target, &mut rng, 1, &mut msgs),
                            5 => {
                                if let Ok((c, _, _)) = store.branch(&target, None, None, None, "u".into(), "cli".into()) {
                                    mine = c;
                                }
                            }
                            6 => {
                                if let Ok((c, _, _)) = store.handoff(&target, None, (Some("# s".into()), None), None, None, ("u".into(), "cli".into())) {
                                    mine = c;
                                }
                            }
                            7 => {
                                let _ = store.compaction_auto_v1(&target, ripd::CompactionAutoV1Request { stride_messages: Some(2), max_new_checkpoints: Some(2), dry_run: Some(false), actor_id: "u".into(), origin: "cli".into() });
                            }
                            8 => {
                                let _ = store.compaction_auto_schedule_v1(&target, ripd::CompactionAutoScheduleV1Request { stride_messages: Some(3), max_new_checkpoints: Some(1), block_on_inflight: Some(rng.chance(1, 2)), execute: Some(true), dry_run: Some(false), actor_id: "u".into(), origin: "cli".into() });
                            }
                            9 => {
                                let _ = store.provider_cursor_rotate_v1(&target, ripd::ProviderCursorRotateV1Request { provider: Some("openresponses".into()), endpoint: None, model: None, reason: None, actor_id: "u".into(), origin: "cli".into() });
                            }
                            _ => {
                                // a session run linked to the thread (tool envelope or prompt without provider)
                                let input = match rng.below(3) {
                                    0 => json!({"tool": "write", "args": {"path": format!("f{w}.txt"), "content": "x"}}).to_string(),
                                    1 => json!({"tool": "ls", "args": {}}).to_string(),
                                    _ => "hello".to_string(),
                                };
                                let link = store.append_message(&target, "u".into(), "cli".into(), "run".into()).ok().map(|m| ContinuityRunLink { continuity_id: target.clone(), message_id: m, actor_id: "u".into(), origin: "cli".into() });
                                let h = engine.create_session();
                                let _g = rt_handle.enter();
                                engine.spawn_session(h, input, link, None);
                            }
                        }
                    }
                })
            })
            .collect();
        for h in handles {
            let _ = h.join();
        }
        // let spawned sessions finish: wait until the log stops growing
        let log_path = data_dir.join("events.jsonl");
        let mut last = 0;
        for _ in 0..100 {
            std::thread::sleep(std::time::Duration::from_millis(40));
            let len = std::fs::metadata(&log_path).map(|m| m.len()).unwrap_or(0);
            if len == last {
                break;
            }
            last = len;
        }
        drop(store);
        drop(engine);
    }
    drop(rt);
    rep.evaluations += 1;
    rep.traces_validated += 1;
    let _ = t0;
    match check_log(&data_dir.join("events.jsonl")) {
        Ok(n) => {
            rep.count_n("stress_frames", n as u64);
            rep.nontrivial_case(&format!("stress|{nthreads}|{nops}|{}|{n}", seeds[0]));
        }
        Err(e) => rep.oracle_failure(
            "C01|stress|seq-order",
            &format!("{nthreads} concurrent writers x {nops} ops (restart={with_restart}): {e}"),
            json!({"threads": nthreads, "ops": nops, "restart": with_restart, "seeds": seeds}),
        ),
    }
    rep.count("stress_cases");
}


// ---------------------------------------------------------------- (a') cold-start race after a restart
/// Histories that cross an authority restart: the first writes to a thread after the restart (when
/// the in-memory seq table is still empty) are released together through a barrier.
fn cold_race_case(rep: &mut Report, rng: &mut Rng) {
    let mut ts = TestStore::new("c01c");
    let t0 = ts.store.ensure_default().unwrap();
    let mut msgs: Vec<Msg> = Vec::new();
    let n0 = rng.range(2, 6) as usize;
    random_history(&ts.store, &t0, rng, n0, &mut msgs);
    let branch = ts.store.branch(&t0, None, None, None, "u".into(), "cli".into()).ok().map(|b| b.0);
    for _ in 0..rng.range(1, 3) {
        ts.reopen();
        let n = rng.range(2, 5) as usize;
        let barrier = Arc::new(std::sync::Barrier::new(n));
        let hs: Vec<_> = (0..n)
            .map(|w| {
                let store = ts.store.clone();
                let barrier = barrier.clone();
                let target = if w % 3 == 2 { branch.clone().unwrap_or(t0.clone()) } else { t0.clone() };
                let mut rng = rng.fork();
                let mut msgs = msgs.clone();
                std::thread::spawn(move || {
                    barrier.wait();
                    // the first write is a message for most writers, any other append kind otherwise
                    if rng.chance(2, 3) {
                        let _ = store.append_message(&target, "u".into(), "cli".into(), "cold".into());
                    } else {
                        random_history(&store, &target, &mut rng, 1, &mut msgs);
                    }
                    random_history(&store, &target, &mut rng, 1, &mut msgs);
                })
            })
            .collect();
        for h in hs {
            let _ = h.join();
        }
        let _ = ts.store.append_message(&t0, "u".into(), "cli".into(), "after".into());
    }
    rep.evaluations += 1;
    rep.traces_validated += 1;
    rep.count("cold_race_cases");
    if let Err(e) = check_log(&ts.log_path()) {
        rep.oracle_failure("C01|cold-start-race|seq-order", &format!("first writes after a restart released together: {e}"), json!({}));
    }
}

// ---------------------------------------------------------------- (b) controlled schedules vs the LTS
#[derive(Clone, Debug, PartialEq)]
enum Op {
    AppendShared,      // append to the default thread (model stream 0)
    AppendOwn(usize),  // append to the k-th thread this writer created (model stream 100+10*w+k)
    Create,            // branch from the default thread
    AppendForeign(usize, usize), // (race corpus only) append to writer w's k-th created thread as soon as it is visible
}

struct Outcome {
    log: Vec<(usize, u64)>,
    model_acts: Vec<String>,
    valid: Result<usize, String>,
}

fn run_schedule(progs: &[Vec<Op>], acts: &[usize]) -> Outcome {
    let ts = TestStore::new("c01");
    let store = ts.store.clone();
    let t0 = store.ensure_default().unwrap();
    // one message so that branch has something to cut at (frames 0,1 of stream 0 precede the run)
    let _ = store.append_message(&t0, "u".into(), "cli".into(), "m".into());
    let children: Arc<Mutex<BTreeMap<(usize, usize), String>>> = Arc::new(Mutex::new(BTreeMap::new()));
    let workers: Vec<Box<dyn FnOnce() + Send>> = progs
        .iter()
        .enumerate()
        .map(|(w, prog)| {
            let (store, t0, prog, children) = (store.clone(), t0.clone(), prog.clone(), children.clone());
            Box::new(move || {
                let mut created = 0usize;
                for op in prog {
                    match op {
                        Op::AppendShared => {
                            sched::note("op:append");
                            let _ = store.append_message(&t0, "u".into(), "cli".into(), format!("w{w}"));
                        }
                        Op::AppendOwn(k) => {
                            sched::note("op:append");
                            let id = children.lock().unwrap().get(&(w, k)).cloned();
                            if let Some(id) = id {
                                let _ = store.append_message(&id, "u".into(), "cli".into(), format!("w{w}"));
                            }
                        }
                        Op::Create => {
                            sched::note("op:create");
                            if let Ok((c, _, _)) = store.branch(&t0, None, None, None, "u".into(), "cli".into()) {
                                children.lock().unwrap().insert((w, created), c);
                            }
                            created += 1;
                        }
                        Op::AppendForeign(ow, ok) => {
                            // a client that learns the new thread's id from the index
                            let known: Vec<String> = vec![t0.clone()];
                            let id = loop {
                                let ids: Vec<String> = store.list().into_iter().map(|m| m.continuity_id).filter(|i| !known.contains(i)).collect();
                                if let Some(i) = ids.first() {
                                    break i.clone();
                                }
                                sched::point("h.wait_child");
                            };
                            let _ = (ow, ok);
                            sched::note("op:append");
                            let _ = store.append_message(&id, "u".into(), "cli".into(), "early".into());
                        }
                    }
                }
            }) as Box<dyn FnOnce() + Send>
        })
        .collect();
    let n = progs.len();
    let mut s = Scheduler::new(workers);
    let mut model_acts: Vec<String> = Vec::new();
    let mut blocked = vec![false; n];
    let mut in_create = vec![false; n];
    let mut create_phase = vec![0usize; n]; // log_appends seen in the current create
    let mut publish_seen = vec![0usize; n];
    let mut note_idx = vec![0usize; n];
    let refresh_ops = |s: &Scheduler, in_create: &mut Vec<bool>, create_phase: &mut Vec<usize>, publish_seen: &mut Vec<usize>, note_idx: &mut Vec<usize>| {
        for i in 0..n {
            while note_idx[i] < s.notes[i].len() {
                in_create[i] = s.notes[i][note_idx[i]] == "op:create";
                create_phase[i] = 0;
                publish_seen[i] = 0;
                note_idx[i] += 1;
            }
        }
    };
    let mut pending = vec![0usize; n]; // model steps owed by a worker that is blocked on a mutex
    let mut do_step = |s: &mut Scheduler, i: usize, model_acts: &mut Vec<String>, blocked: &mut Vec<bool>, in_create: &mut Vec<bool>, create_phase: &mut Vec<usize>, publish_seen: &mut Vec<usize>, note_idx: &mut Vec<usize>| {
        if i >= n || s.finished[i] {
            return;
        }
        let settle = |s: &mut Scheduler, model_acts: &mut Vec<String>, blocked: &mut Vec<bool>, pending: &mut Vec<usize>| {
            // workers that were blocked on a mutex proceed on their own once it is released
            for j in 0..n {
                if blocked[j] {
                    s.drain();
                    if s.finished[j] || s.parked[j].is_some() {
                        blocked[j] = false;
                        for _ in 0..pending[j] {
                            model_acts.push(j.to_string());
                        }
                        pending[j] = 0;
                    }
                }
            }
        };
        if blocked[i] {
            settle(s, model_acts, blocked, &mut pending);
            return;
        }
        let at = s.where_is(i);
        let steps = match (at.as_str(), in_create[i]) {
            ("store.lock", _) => 1,
            ("store.log_append", false) => 1,
            ("store.bump", false) => 2,
            ("store.log_append", true) => 1,
            ("store.publish", true) => 1,
            _ => 0,
        };
        if s.step_or_block(i, 50) == "blocked" {
            blocked[i] = true;
            pending[i] = steps;
        } else {
            for _ in 0..steps {
                model_acts.push(i.to_string());
            }
        }
        let _ = (&create_phase, &publish_seen);
        settle(s, model_acts, blocked, &mut pending);
        refresh_ops(s, in_create, create_phase, publish_seen, note_idx);
    };
    // leave "start"
    for i in 0..n {
        s.step(i);
    }
    refresh_ops(&s, &mut in_create, &mut create_phase, &mut publish_seen, &mut note_idx);
    for a in acts {
        do_step(&mut s, *a, &mut model_acts, &mut blocked, &mut in_create, &mut create_phase, &mut publish_seen, &mut note_idx);
    }
    for _ in 0..400 {
        let mut any = false;
        for i in 0..n {
            if !s.finished[i] {
                any = true;
                do_step(&mut s, i, &mut model_acts, &mut blocked, &mut in_create, &mut create_phase, &mut publish_seen, &mut note_idx);
            }
        }
        if !any {
            break;
        }
    }
    s.finish();
    // canonical log: stream 0 = default thread (frames after the two set-up frames, renumbered from 0),
    // children = 100 + 10*w + k
    let frames = ts.frames();
    let kids = children.lock().unwrap().clone();
    let mut log = Vec::new();
    let mut foreign: BTreeMap<String, usize> = BTreeMap::new();
    for f in frames.iter().skip(2) {
        let sid = f["session_id"].as_str().unwrap_or("?").to_string();
        let seq = f["seq"].as_u64().unwrap_or(0);
        if sid == t0 {
            log.push((0usize, seq - 2));
        } else if let Some(((w, k), _)) = kids.iter().find(|(_, v)| **v == sid) {
            log.push((100 + 10 * w + k, seq));
        } else {
            let nfor = foreign.len();
            let idx = *foreign.entry(sid).or_insert(100 + nfor);
            log.push((idx, seq));
        }
    }
    Outcome { log, model_acts, valid: check_log(&ts.log_path()) }
}

fn prog_tokens(w: usize, prog: &[Op]) -> String {
    let mut created = 0;
    let mut toks = Vec::new();
    for op in prog {
        match op {
            Op::AppendShared => toks.push("a 0".to_string()),
            Op::AppendOwn(k) => toks.push(format!("a {}", 100 + 10 * w + k)),
            Op::Create => {
                toks.push(format!("c {}", 100 + 10 * w + created));
                created += 1;
            }
            Op::AppendForeign(ow, ok) => toks.push(format!("a {}", 100 + 10 * ow + ok)),
        }
    }
    format!("{} {}", toks.len(), toks.join(" "))
}

// ---------------------------------------------------------------- (c) session streams of provider runs
/// Session streams are numbered by the run itself while it threads one counter through the provider
/// read loop, the tool loop and the rejection of barred tools. Each case is one run against a
/// scripted provider: 1-4 responses with 0-3 function calls each, under a random tool choice (so
/// some calls are executed and some refused), as a plain session or as the answer to a later
/// message of a thread; afterwards the whole log is checked stream by stream.
fn provider_loop_cases(rep: &mut Report, rng: &mut Rng, n: u64) {
    use crate::c16::{build_sse, gen_response, run_e2e, run_e2e_thread, E2eConfig, TOOLS};
    use crate::provider::Resp;
    for case_no in 0..n {
        let prior = if rng.chance(1, 4) { 1 } else { 0 };
        let tool_choice = if prior > 0 {
            json!("auto")
        } else {
            match rng.below(6) {
                0 | 1 => json!("auto"),
                2 => json!("none"),
                3 => json!({"type": "function", "name": *rng.pick(&["ls", "write", "grep"])}),
                4 => json!({"type": "allowed_tools", "mode": "auto", "tools": [{"type": "function", "name": "ls"}]}),
                _ => json!({"type": "allowed_tools", "mode": "none", "tools": [{"type": "function", "name": "write"}]}),
            }
        };
        let nresp = rng.range(1, 4);
        let mut serial = 0u64;
        let mut calls = 0usize;
        let script: Vec<Resp> = (0..nresp)
            .map(|r| {
                let ncalls = if r + 1 == nresp && rng.chance(1, 2) { 0 } else { rng.below(4) as usize };
                calls += ncalls;
                let events = gen_response(rng, &mut serial, ncalls, false, TOOLS);
                let body = build_sse(rng, &events, Some(&format!("resp_{r}")), true, &[]);
                Resp::Sse { body, chunk: *rng.pick(&[0usize, 7, 64]), cut_at: None }
            })
            .collect();
        let cfg = E2eConfig { stateless: rng.chance(1, 2), followup: None, tool_choice: tool_choice.clone(), parallel: rng.chance(1, 2) };
        let res = if prior > 0 { run_e2e_thread(&cfg, prior, script, "hello") } else { run_e2e(&cfg, script, "hello") };
        let scratch = Scratch::new("c01p");
        let path = scratch.path().join("events.jsonl");
        std::fs::write(&path, &res.log).unwrap();
        rep.evaluations += 1;
        rep.traces_validated += 1;
        rep.count("provider_loop_cases");
        let rejected = res.frames.iter().filter(|f| f["type"] == "tool_started" && f["tool_id"].as_str().unwrap_or("").starts_with("tool_denied_")).count();
        let executed = res.frames.iter().filter(|f| f["type"] == "tool_started").count() - rejected;
        rep.count_n("provider_loop_tools_executed", executed as u64);
        rep.count_n("provider_loop_tools_refused", rejected as u64);
        if executed + rejected >= 2 {
            rep.nontrivial_case(&format!("p {case_no} {tool_choice} {calls} {executed} {rejected}"));
        }
        if let Err(e) = check_log(&path) {
            let sig = if rejected > 0 { "C01|session-stream-numbering|provider-run-with-refused-tool" } else { "C01|session-stream-numbering|provider-run" };
            rep.oracle_failure(sig, &format!("after one provider run: {e}"), json!({"case": case_no, "tool_choice": tool_choice, "thread_turns_before": prior, "function_calls_scripted": calls, "tools_executed": executed, "tools_refused": rejected, "session_frames": res.frames.iter().map(|f| format!("{}@{}", f["type"].as_str().unwrap_or("?"), f["seq"])).collect::<Vec<_>>()}));
        }
    }
}

pub fn run(opts: &Opts) -> Report {
    let mut rep = Report::new(
        "C01",
        "(a) real-concurrency stress: 2-6 OS threads x 8-40 operations (all public append kinds, branch, handoff, auto compaction jobs, scheduler, cursor rotation, linked session runs with tool envelopes) on shared and own threads, optionally across an authority restart; the whole log must replay validated and every stream be numbered 0,1,2,… in file order; (b) controlled schedules: 2-3 writers with programs over {append shared, create (branch), append own child} single-stepped between the effects of the real append/branch functions; final log (stream, seq) sequence compared with the Lean LTS run on the same schedule; the branch-race witness is replayed on the real store; non-trivial = >=2 writers each with >=2 effects interleaved, distinct by (programs, schedule)",
    );
    let t_start = std::time::Instant::now();
    let mut model = Model::spawn();
    let mut rng = Rng::new(opts.seed);
    let n_stress = if opts.thorough { 40 } else { 6 } * opts.scale;
    for k in 0..n_stress {
        let nt = rng.range(2, 6) as usize;
        let nops = rng.range(8, 40) as usize;
        stress_case(&mut rep, &mut rng, nt, nops, k % 3 == 2);
    }
    eprintln!("c01: stress done at {:?}", t_start.elapsed());
    let n_cold = if opts.thorough { 800 } else { 80 } * opts.scale;
    for _ in 0..n_cold {
        cold_race_case(&mut rep, &mut rng);
    }
    eprintln!("c01: cold race done at {:?}", t_start.elapsed());
    let n_loop = if opts.thorough { 600 } else { 60 } * opts.scale;
    provider_loop_cases(&mut rep, &mut rng, n_loop);
    eprintln!("c01: provider loops done at {:?}", t_start.elapsed());
    // corpus: the branch race of Rip.Cex.C01.branch_race
    let mut cases: Vec<(Vec<Vec<Op>>, Vec<usize>)> = vec![(vec![vec![Op::Create], vec![Op::AppendForeign(0, 0)]], vec![0, 0, 0, 0, 1, 1, 1, 1, 1, 1, 0, 0, 0])];
    let n_sched = if opts.thorough { 600 } else { 60 } * opts.scale;
    for _ in 0..n_sched {
        let nw = rng.range(2, 3) as usize;
        let progs: Vec<Vec<Op>> = (0..nw)
            .map(|_| {
                let mut p = Vec::new();
                let mut created = 0;
                for _ in 0..rng.range(1, 3) {
                    match rng.below(4) {
                        0 | 1 => p.push(Op::AppendShared),
                        2 => {
                            p.push(Op::Create);
                            created += 1;
                        }
                        _ => {
                            if created > 0 {
                                p.push(Op::AppendOwn(rng.below(created as u64) as usize));
                            } else {
                                p.push(Op::AppendShared);
                            }
                        }
                    }
                }
                p
            })
            .collect();
        let len = rng.range(4, 30) as usize;
        let acts: Vec<usize> = (0..len).map(|_| rng.below(nw as u64) as usize).collect();
        cases.push((progs, acts));
    }
    for (progs, acts) in cases {
        rep.evaluations += 1;
        let out = run_schedule(&progs, &acts);
        rep.traces_validated += 1;
        let is_race = progs.iter().flatten().any(|o| matches!(o, Op::AppendForeign(..)));
        let line = format!(
            "c01 {} {} {} {}",
            progs.len(),
            progs.iter().enumerate().map(|(w, p)| prog_tokens(w, p)).collect::<Vec<_>>().join(" "),
            out.model_acts.len(),
            out.model_acts.join(" ")
        );
        let m = model.ask(&line);
        let impl_log = format!("log=[{}]", out.log.iter().map(|(s, q)| format!("{s}:{q}")).collect::<Vec<_>>().join(","));
        let case = json!({"programs": progs.iter().map(|p| format!("{p:?}")).collect::<Vec<_>>(), "schedule": acts, "effective_schedule": out.model_acts.join(" ")});
        if !m.starts_with(&impl_log) || !m.contains("done=1") {
            rep.disagreement("final log under the schedule", case.clone(), &impl_log, &m);
        }
        if let Err(e) = &out.valid {
            let sig = if is_race { "C01|creation-race|lineage-seq-hardcoded" } else { "C01|sched|seq-order" };
            rep.oracle_failure(sig, &format!("after the controlled schedule the store does not replay: {e}"), case.clone());
        }
        if progs.iter().filter(|p| p.len() >= 1).count() >= 2 && acts.len() >= 6 {
            rep.nontrivial_case(&line);
        }
        rep.count(if is_race { "race_corpus" } else { "schedule_cases" });
        rep.sample(case);
    }
    // (c) task streams: two or three emitters on one task (the stdout pump, the stderr pump, status
    // frames) single-stepped between the effects of the real TaskEmitter::emit under random schedules;
    // the task stream's frames must stand in the log as 0,1,2,… in file order
    let n_two = if opts.thorough { 200 } else { 20 } * opts.scale;
    for _ in 0..n_two {
        let (logged, _late, total, case, key) = crate::c06::two_emitter_run(&mut rng);
        rep.evaluations += 1;
        rep.traces_validated += 1;
        rep.count("task_stream_two_emitter_schedules");
        rep.nontrivial_case(&key);
        let want: Vec<u64> = (0..total).collect();
        if logged != want {
            rep.oracle_failure("C01|task-stream|file-order-under-concurrent-emitters", &format!("several emitters on one task stream: the log holds the stream's seqs in the order {logged:?}, expected {want:?} (a validated replay fails)"), case);
        }
    }
    let _ = ToolSideEffects { tool_id: String::new(), tool_name: String::new(), affected_paths: None, checkpoint_id: None };
    rep
}
