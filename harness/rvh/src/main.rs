mod common;
mod c01;
mod c02;
mod c03;
mod c04;
mod c05;
mod c06;
mod c07;
mod c08;
mod c09;
mod c10;
mod c11;
mod c12;
mod c13;
mod c14;
mod c15;
mod c16;
mod provider;
mod c17;
mod c18;
mod c19;
mod sched;
mod store;
mod http;
mod c20;

use common::*;

fn main() {
    let args: Vec<String> = std::env::args().collect();
    if args.len() < 2 {
        eprintln!("usage: rvh <property> [--seed N] [--tier quick|thorough] [--out file] [--replay file]");
        std::process::exit(2);
    }
    let prop = args[1].to_lowercase();
    let mut opts = Opts {
        seed: std::env::var("VERIF_SEED").ok().and_then(|s| s.parse().ok()).unwrap_or(1),
        thorough: std::env::var("VERIF_TIER").map(|t| t == "thorough").unwrap_or(false),
        out: None,
        replay: None,
        scale: 1,
    };
    let mut i = 2;
    while i < args.len() {
        match args[i].as_str() {
            "--seed" => {
                opts.seed = args[i + 1].parse().expect("seed");
                i += 1;
            }
            "--tier" => {
                opts.thorough = args[i + 1] == "thorough";
                i += 1;
            }
            "--out" => {
                opts.out = Some(args[i + 1].clone());
                i += 1;
            }
            "--replay" => {
                opts.replay = Some(args[i + 1].clone());
                i += 1;
            }
            "--scale" => {
                opts.scale = args[i + 1].parse().expect("scale");
                i += 1;
            }
            other => panic!("unknown argument {other}"),
        }
        i += 1;
    }
    // keep panics of the code under test out of the output stream
    std::panic::set_hook(Box::new(|info| {
        if std::env::var("RVH_QUIET_PANICS").is_err() {
            eprintln!("panic: {info}");
        }
    }));
    let rep = match prop.as_str() {
        "c01" => c01::run(&opts),
        "c02" => c02::run(&opts),
        "c03" => c03::run(&opts),
        "c04" => c04::run(&opts),
        "c05" => c05::run(&opts),
        "c06" => c06::run(&opts),
        "c07" => c07::run(&opts),
        "c08" => c08::run(&opts),
        "c09" => c09::run(&opts),
        "c10" => c10::run(&opts),
        "c11" => c11::run(&opts),
        "c12" => c12::run(&opts),
        "c13" => c13::run(&opts),
        "c14" => c14::run(&opts),
        "c15" => c15::run(&opts),
        "c16" => c16::run(&opts),
        "c17" => c17::run(&opts),
        "c18" => c18::run(&opts),
        "c19" => c19::run(&opts),
        "c19child" => c19::run_child(&opts),
        "c20" => c20::run(&opts),
        other => {
            eprintln!("unknown property {other}");
            std::process::exit(2);
        }
    };
    let text = serde_json::to_string_pretty(&rep.to_json()).unwrap();
    match &opts.out {
        Some(p) => std::fs::write(p, text).unwrap(),
        None => println!("{text}"),
    }
}
