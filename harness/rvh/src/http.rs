//! In-process HTTP against the real axum Router (no sockets).
use axum::body::Body;
use axum::http::{Request, StatusCode};
use axum::Router;
use http_body_util::BodyExt;
use serde_json::Value;
use tower::ServiceExt;

pub async fn call(app: &Router, method: &str, uri: &str, body: Option<Value>) -> (StatusCode, Vec<u8>) {
    let mut req = Request::builder().method(method).uri(uri);
    let body = match body {
        Some(v) => {
            req = req.header("content-type", "application/json");
            Body::from(serde_json::to_vec(&v).unwrap())
        }
        None => Body::empty(),
    };
    let resp = app.clone().oneshot(req.body(body).unwrap()).await.unwrap();
    let status = resp.status();
    let bytes = resp.into_body().collect().await.map(|b| b.to_bytes().to_vec()).unwrap_or_default();
    (status, bytes)
}

pub async fn call_json(app: &Router, method: &str, uri: &str, body: Option<Value>) -> (StatusCode, Value) {
    let (s, b) = call(app, method, uri, body).await;
    (s, serde_json::from_slice(&b).unwrap_or(Value::Null))
}

/// Opens an SSE endpoint and reads `data:` payloads until `stop` says so or `timeout_ms` passes.
pub async fn sse_collect(
    app: &Router,
    uri: &str,
    timeout_ms: u64,
    mut stop: impl FnMut(&Value) -> bool,
) -> Vec<Value> {
    let req = Request::builder().method("GET").uri(uri).body(Body::empty()).unwrap();
    let resp = app.clone().oneshot(req).await.unwrap();
    let mut body = resp.into_body();
    let mut buf = String::new();
    let mut out = Vec::new();
    let deadline = tokio::time::Instant::now() + std::time::Duration::from_millis(timeout_ms);
    loop {
        let frame = tokio::time::timeout_at(deadline, body.frame()).await;
        let Ok(Some(Ok(frame))) = frame else { break };
        if let Some(data) = frame.data_ref() {
            buf.push_str(&String::from_utf8_lossy(data));
            while let Some(pos) = buf.find("\n\n") {
                let block: String = buf.drain(..pos + 2).collect();
                let mut payload = String::new();
                for line in block.lines() {
                    if let Some(rest) = line.strip_prefix("data:") {
                        payload.push_str(rest.trim_start());
                    }
                }
                if payload.is_empty() {
                    continue;
                }
                if let Ok(v) = serde_json::from_str::<Value>(&payload) {
                    let done = stop(&v);
                    out.push(v);
                    if done {
                        return out;
                    }
                }
            }
        }
    }
    out
}
