//! C04: caches are transparent — losing or corrupting them never changes an answer; every read
//! terminates.
//! A thread history is built through the store API (so the caches are written as the authority
//! writes them); cache files are then deleted / truncated at a byte / overwritten with garbage /
//! rolled back to an earlier version, interleaved with further appends and restarts. Every read
//! capability is evaluated twice — caches as found vs. `continuity_streams/` removed — under a
//! per-call time cap; a difference is shrunk to a single fault where possible. The truth answers of
//! the tail-scanning queries are also compared with the Lean specification `Rip.Cache`.
use crate::common::*;
use crate::store::read_frames;
use rip_log::EventLog;
use ripd::{
    CompactionAutoV1Request, CompactionCheckpointCumulativeV1Request, CompactionCutPointsV1Request, CompactionStatusV1Request, ContextSelectionStatusV1Request, ContinuityRunLink,
    ContinuityStore, CompactionAutoScheduleV1Request, ProviderCursorRotateV1Request, ProviderCursorStatusV1Request, ToolSideEffects,
};
use serde_json::{json, Value};
use std::collections::BTreeMap;
use std::path::{Path, PathBuf};
use std::sync::Arc;

const CALL_CAP_MS: u64 = 20_000;

fn copy_dir(from: &Path, to: &Path) {
    std::fs::create_dir_all(to).unwrap();
    if let Ok(rd) = std::fs::read_dir(from) {
        for e in rd.flatten() {
            let p = e.path();
            let t = to.join(e.file_name());
            if p.is_dir() {
                copy_dir(&p, &t);
            } else {
                let _ = std::fs::copy(&p, &t);
            }
        }
    }
}

fn open(data_dir: &Path, ws: &Path) -> (Arc<EventLog>, Arc<ContinuityStore>) {
    let log = Arc::new(EventLog::new(data_dir.join("events.jsonl")).expect("log"));
    let store = Arc::new(ContinuityStore::new(data_dir.to_path_buf(), ws.to_path_buf(), log.clone()).expect("store"));
    (log, store)
}

fn cache_files(data_dir: &Path, thread: &str) -> Vec<PathBuf> {
    let dir = data_dir.join("continuity_streams");
    let mut v: Vec<PathBuf> = std::fs::read_dir(&dir).map(|rd| rd.flatten().map(|e| e.path()).filter(|p| p.is_file() && p.file_name().map(|n| n.to_string_lossy().starts_with(thread)).unwrap_or(false)).collect()).unwrap_or_default();
    v.sort();
    v
}

fn kind_of(path: &Path, thread: &str) -> String {
    path.file_name().unwrap().to_string_lossy().replacen(thread, "", 1).trim_start_matches('.').to_string()
}

#[derive(Clone, Debug)]
enum Fault {
    Delete(String),
    Truncate(String, u64), // per-mille of the length
    Garbage(String),
    Rollback(String, usize), // to saved version k
    /// a seek index (`seek.v1.jsonl`) that is well-formed line by line, monotonic, right in its LAST
    /// entry (the one the loader validates) and wrong in the one before it: that entry's offset is the
    /// start of a later frame's line
    Skew(String),
}

impl Fault {
    /// `prefix-only`: the file is left holding a well-formed prefix of what it should hold (rolled
    /// back to an earlier version, or cut exactly on a line boundary incl. to nothing); `torn`: cut
    /// inside a line / record
    fn class(&self) -> String {
        match self {
            Fault::Delete(f) => format!("delete:{f}"),
            Fault::Truncate(f, pm) if *pm >= 4000 => format!("torn:{f}"),
            Fault::Truncate(f, pm) if *pm >= 2000 => format!("prefix-only:{f}"),
            Fault::Truncate(f, _) => format!("torn:{f}"),
            Fault::Garbage(f) => format!("garbage:{f}"),
            Fault::Rollback(f, _) => format!("prefix-only:{f}"),
            Fault::Skew(f) => format!("skew:{f}"),
        }
    }
}

type Versions = Vec<BTreeMap<String, Vec<u8>>>;

/// Applies the fault and says what it did to the file as it was: the class depends on the content
/// the fault met (a "cut at 0.8 % of the length" of a 37-byte file leaves an empty file, which is a
/// well-formed prefix, not a torn one). `noop` = nothing to damage.
fn apply_fault(data_dir: &Path, thread: &str, f: &Fault, versions: &Versions) -> String {
    let dir = data_dir.join("continuity_streams");
    let path = |k: &str| dir.join(format!("{thread}.{k}"));
    if let Fault::Truncate(k, pm) = f {
        if *pm < 2000 {
            let Ok(b) = std::fs::read(path(k)) else { return "noop".into() };
            let mut n = (b.len() as u64 * pm / 1000) as usize;
            if k.ends_with(".jsonl") {
                // torn = strictly inside a line; a file too small to be cut inside a line is left alone
                if b.len() < 3 {
                    return "noop".into();
                }
                n = n.clamp(1, b.len() - 1);
                while n > 1 && (b[n - 1] == b'\n' || b[n] == b'\n') {
                    n -= 1;
                }
                if b[n - 1] == b'\n' || b[n] == b'\n' {
                    return "noop".into();
                }
                let _ = std::fs::write(path(k), &b[..n]);
                return format!("torn:{k}");
            }
            // binary ordinal index: 32-byte header, 24-byte records
            let _ = std::fs::write(path(k), &b[..n.min(b.len())]);
            let on_boundary = n == 0 || (n >= 32 && (n - 32) % 24 == 0);
            return if on_boundary { format!("prefix-only:{k}") } else { format!("torn:{k}") };
        }
    }
    match f {
        Fault::Delete(k) => {
            if !path(k).exists() {
                return "noop".into();
            }
            let _ = std::fs::remove_file(path(k));
        }
        Fault::Truncate(k, pm) => {
            if let Ok(b) = std::fs::read(path(k)) {
                let n = if *pm >= 4000 {
                    32 + (*pm - 4000) as usize // torn: inside a record of the ordinal index
                } else if *pm >= 3000 {
                    32 + 24 * (*pm - 3000) as usize // prefix-only: after that many records
                } else if *pm >= 2000 {
                    // cut exactly after (pm - 2000) lines
                    let want = (*pm - 2000) as usize;
                    let mut seen = 0;
                    let mut pos = 0;
                    for (i, c) in b.iter().enumerate() {
                        if seen == want {
                            break;
                        }
                        if *c == b'\n' {
                            seen += 1;
                            pos = i + 1;
                        }
                    }
                    pos
                } else {
                    b.len() // (cuts below 2000 are handled above)
                };
                let _ = std::fs::write(path(k), &b[..n.min(b.len())]);
            }
        }
        Fault::Garbage(k) => {
            if path(k).exists() {
                let _ = std::fs::write(path(k), b"\x00\xffnot a cache file\n{\"seq\": \"x\"}\n\n\n");
            }
        }
        Fault::Rollback(k, v) => {
            if let Some(old) = versions.get(*v).and_then(|m| m.get(k)) {
                let _ = std::fs::write(path(k), old);
            }
        }
        Fault::Skew(k) => {
            let Ok(text) = std::fs::read_to_string(path(k)) else { return "noop".into() };
            let mut entries: Vec<Value> = text.lines().filter_map(|l| serde_json::from_str(l).ok()).collect();
            let n = entries.len();
            if n < 2 || entries.iter().any(|e| e.get("offset").is_none()) {
                return "noop".into();
            }
            let last_off = entries[n - 1]["offset"].clone();
            entries[n - 2]["offset"] = last_off;
            let out: String = entries.iter().map(|e| format!("{e}\n")).collect();
            let _ = std::fs::write(path(k), out);
        }
    }
    f.class()
}

fn save_version(data_dir: &Path, thread: &str, versions: &mut Versions) {
    let mut m = BTreeMap::new();
    for f in cache_files(data_dir, thread) {
        m.insert(kind_of(&f, thread), std::fs::read(&f).unwrap_or_default());
    }
    versions.push(m);
}

/// one query with a time cap; `Err(())` = did not return in time
fn capped<T: Send + 'static>(f: impl FnOnce() -> T + Send + 'static) -> Result<T, ()> {
    let (tx, rx) = std::sync::mpsc::channel();
    std::thread::spawn(move || {
        let _ = tx.send(f());
    });
    rx.recv_timeout(std::time::Duration::from_millis(CALL_CAP_MS)).map_err(|_| ())
}

pub struct Queries {
    pub stride: u64,
    pub limit: u32,
    pub anchors: Vec<String>,
    /// endpoint filter of the second rotate query
    pub rotate_endpoint: Option<String>,
}

const QUERY_NAMES: &[&str] = &["replay", "cut_points", "compaction_status", "cursor_status", "cursor_rotate", "selection_status", "compile", "branch_cut", "handoff_cut", "list_default"];

/// every read capability on a fresh store over `data_dir`; values are canonical JSON
fn answers(data_dir: &Path, ws: &Path, thread: &str, q: &Queries, only: Option<&str>) -> BTreeMap<String, Value> {
    let mut out = BTreeMap::new();
    let (log, store) = open(data_dir, ws);
    let want = |name: &str| only.map(|o| o == name).unwrap_or(true);
    let mut put = |name: &str, r: Result<Value, ()>, out: &mut BTreeMap<String, Value>| -> bool {
        match r {
            Ok(v) => {
                out.insert(name.to_string(), v);
                true
            }
            Err(()) => {
                out.insert(name.to_string(), json!("DIVERGES"));
                false
            }
        }
    };
    let t = thread.to_string();
    if want("replay") {
        let s = store.clone();
        let t = t.clone();
        if !put("replay", capped(move || s.replay_events(&t).map(|e| json!(e.iter().map(|x| json!([x.seq, x.id])).collect::<Vec<_>>())).unwrap_or_else(|e| json!({"error": e.to_string()}))), &mut out) {
            return out;
        }
    }
    if want("cut_points") {
        let (s, t, stride, limit) = (store.clone(), t.clone(), q.stride, q.limit);
        if !put("cut_points", capped(move || s.compaction_cut_points_v1(&t, CompactionCutPointsV1Request { stride_messages: Some(stride), limit: Some(limit) }).map(|r| serde_json::to_value(r).unwrap()).unwrap_or_else(|e| json!({"error": e}))), &mut out) {
            return out;
        }
    }
    if want("compaction_status") {
        let (s, t, stride) = (store.clone(), t.clone(), q.stride);
        if !put("compaction_status", capped(move || s.compaction_status_v1(&t, CompactionStatusV1Request { stride_messages: Some(stride) }).map(|r| serde_json::to_value(r).unwrap()).unwrap_or_else(|e| json!({"error": e}))), &mut out) {
            return out;
        }
    }
    if want("cursor_status") {
        let (s, t) = (store.clone(), t.clone());
        if !put("cursor_status", capped(move || s.provider_cursor_status_v1(&t, ProviderCursorStatusV1Request {}).map(|r| serde_json::to_value(r).unwrap()).unwrap_or_else(|e| json!({"error": e}))), &mut out) {
            return out;
        }
    }
    if want("cursor_rotate") {
        // the rotation target: which active cursor a rotate request would retire (it writes: this
        // directory is a scratch copy). Asked with a provider filter and with a provider + endpoint filter.
        let (s, t, ep) = (store.clone(), t.clone(), q.rotate_endpoint.clone());
        let r = capped(move || {
            let mut v = Vec::new();
            for endpoint in [None, ep] {
                let r = s.provider_cursor_rotate_v1(&t, ProviderCursorRotateV1Request { provider: Some("openresponses".into()), endpoint: endpoint.clone(), model: None, reason: Some("r".into()), actor_id: "u".into(), origin: "cli".into() });
                v.push(match r {
                    Ok(x) => json!({"rotated": x.rotated, "provider": x.provider, "endpoint": x.endpoint, "model": x.model}),
                    Err(e) => json!({"error": e}),
                });
            }
            Value::Array(v)
        });
        if !put("cursor_rotate", r, &mut out) {
            return out;
        }
    }
    if want("selection_status") {
        let (s, t, limit) = (store.clone(), t.clone(), q.limit);
        if !put("selection_status", capped(move || s.context_selection_status_v1(&t, ContextSelectionStatusV1Request { limit: Some(limit) }).map(|r| serde_json::to_value(r).unwrap()).unwrap_or_else(|e| json!({"error": e}))), &mut out) {
            return out;
        }
    }
    if want("compile") {
        let (s, l, t, dd, anchors) = (store.clone(), log.clone(), t.clone(), data_dir.to_path_buf(), q.anchors.clone());
        let wsp = ws.to_path_buf();
        let r = capped(move || {
            let mut v = Vec::new();
            for a in anchors {
                let link = ContinuityRunLink { continuity_id: t.clone(), message_id: a.clone(), actor_id: "user".into(), origin: "cli".into() };
                let r = ripd::verif_export::session::compile_for_run(&s, &l, &dd.join("snapshots"), &link, "run-under-test");
                v.push(match r {
                    Ok(mut d) => {
                        // the artifact id is fresh per call: replace it by the bundle's content
                        let art = d["bundle_artifact_id"].as_str().unwrap_or("").to_string();
                        let bundle: Value = std::fs::read(wsp.join(".rip/artifacts/blobs").join(&art)).ok().and_then(|b| serde_json::from_slice(&b).ok()).unwrap_or(Value::Null);
                        d["bundle_artifact_id"] = json!("<bundle>");
                        json!({"decision": d, "bundle": bundle})
                    }
                    Err(e) => json!({"error": e}),
                });
            }
            Value::Array(v)
        });
        if !put("compile", r, &mut out) {
            return out;
        }
    }
    // branch / handoff cut resolution (they write: this directory is a scratch copy)
    if want("branch_cut") {
        let (s, t, a) = (store.clone(), t.clone(), q.anchors.first().cloned());
        if !put("branch_cut", capped(move || json!([s.branch(&t, None, None, None, "u".into(), "cli".into()).map(|r| json!([r.1, r.2])).unwrap_or_else(|e| json!({"error": e})), s.branch(&t, None, a, None, "u".into(), "cli".into()).map(|r| json!([r.1, r.2])).unwrap_or_else(|e| json!({"error": e}))])), &mut out) {
            return out;
        }
    }
    if want("handoff_cut") {
        let (s, t) = (store.clone(), t.clone());
        if !put("handoff_cut", capped(move || s.handoff(&t, None, (Some("handoff summary".into()), None), None, None, ("u".into(), "cli".into())).map(|r| json!([r.1, r.2])).unwrap_or_else(|e| json!({"error": e}))), &mut out) {
            return out;
        }
    }
    if want("list_default") {
        let s = store.clone();
        let _ = put("list_default", capped(move || json!({"default": s.ensure_default().ok()})), &mut out);
    }
    out
}

/// as-found vs caches-removed, on scratch copies of `data_dir`
pub fn compare(scratch: &Path, tag: &str, data_dir: &Path, ws: &Path, thread: &str, q: &Queries, only: Option<&str>) -> (BTreeMap<String, Value>, BTreeMap<String, Value>) {
    let a_dir = scratch.join(format!("{tag}-asfound"));
    let b_dir = scratch.join(format!("{tag}-truth"));
    let _ = std::fs::remove_dir_all(&a_dir);
    let _ = std::fs::remove_dir_all(&b_dir);
    // every query on its OWN copy of the directory, on both sides. Several queries rebuild caches as a
    // side effect (a replay that falls back to the log rewrites all of them), so asking them one after
    // the other on one copy would show every later query a healed cache; and some append frames of
    // their own (cursor rotation, the compile's decision frames), so a later query on the same copy
    // would be asked about a longer thread than its counterpart on the other side.
    let mut a = BTreeMap::new();
    let mut b = BTreeMap::new();
    let names: Vec<&str> = match only {
        Some(n) => vec![n],
        None => QUERY_NAMES.to_vec(),
    };
    for name in names {
        let _ = std::fs::remove_dir_all(&b_dir);
        copy_dir(data_dir, &b_dir);
        let _ = std::fs::remove_dir_all(b_dir.join("continuity_streams"));
        b.extend(answers(&b_dir, ws, thread, q, Some(name)));
        let _ = std::fs::remove_dir_all(&a_dir);
        copy_dir(data_dir, &a_dir);
        let one = answers(&a_dir, ws, thread, q, Some(name));
        let diverged = one.get(name) == Some(&json!("DIVERGES"));
        a.extend(one);
        if diverged {
            break;
        }
    }
    let _ = std::fs::remove_dir_all(&b_dir);
    let _ = std::fs::remove_dir_all(&a_dir);
    (a, b)
}

struct Hist {
    msgs: Vec<String>,
    runs: u64,
}

fn grow(store: &ContinuityStore, thread: &str, rng: &mut Rng, n: usize, h: &mut Hist, fat: bool) {
    for _ in 0..n {
        match rng.below(16) {
            0..=4 => {
                let pad = if fat && rng.chance(1, 3) { "p".repeat(rng.range(20_000, 90_000) as usize) } else { String::new() };
                if let Ok(id) = store.append_message(thread, "user".into(), "cli".into(), format!("message {} {}{}", h.msgs.len(), rng.below(1000), pad)) {
                    h.msgs.push(id);
                }
            }
            5 | 6 if !h.msgs.is_empty() => {
                // a run: spawned, selection decided, compiled, side effects, cursor, ended
                let m = h.msgs.last().unwrap().clone();
                h.runs += 1;
                let sid = format!("run-{}", h.runs);
                let _ = store.append_run_spawned(thread, &m, &sid, "user".into(), "cli".into());
                let _ = ripd::verif_export::continuities::append_selection_decided(store, thread, &sid, &m, *rng.pick(&["recent_messages_v1", "summaries_recent_messages_v1"]), vec![], Some(json!({"cause": "x", "n": h.runs})));
                let _ = ripd::verif_export::continuities::append_compiled(store, thread, &sid, &format!("bundle-{}", h.runs), "recent_messages_v1", 0, Some(m.clone()));
                if rng.chance(1, 2) {
                    let link = ContinuityRunLink { continuity_id: thread.to_string(), message_id: m.clone(), actor_id: "user".into(), origin: "cli".into() };
                    let _ = store.append_tool_side_effects(&link, &sid, ToolSideEffects { tool_id: "t".into(), tool_name: "write".into(), affected_paths: Some(vec!["a.txt".into()]), checkpoint_id: None });
                }
                if rng.chance(2, 3) {
                    let _ = ripd::verif_export::continuities::append_cursor_updated(store, thread, "openresponses", Some(format!("http://e{}", rng.below(3))), Some(format!("m{}", rng.below(2))), Some(json!({"previous_response_id": format!("resp-{}", h.runs)})), "set", Some(sid.clone()));
                }
                if rng.chance(5, 6) {
                    let _ = store.append_run_ended(thread, &m, &sid, "completed".into(), "user".into(), "cli".into());
                }
            }
            7 => {
                let _ = ripd::verif_export::continuities::append_cursor_updated(store, thread, *rng.pick(&["openresponses", "other"]), None, Some(format!("m{}", rng.below(4))), if rng.chance(1, 4) { None } else { Some(json!({"previous_response_id": format!("r{}", rng.below(100))})) }, *rng.pick(&["set", "cleared", "rotated"]), None);
            }
            8 | 9 if h.msgs.len() >= 2 => {
                let m = rng.pick(&h.msgs).clone();
                let _ = store.compaction_checkpoint_cumulative_v1(thread, CompactionCheckpointCumulativeV1Request { summary_markdown: Some(format!("summary up to {m}")), summary_artifact_id: None, to_message_id: Some(m), to_seq: None, stride_messages: None, actor_id: "u".into(), origin: "cli".into() });
            }
            11 if h.msgs.len() >= 3 => {
                // a schedule decision (and possibly a job left in flight): compaction status reports the last one
                let _ = store.compaction_auto_schedule_v1(thread, CompactionAutoScheduleV1Request { stride_messages: Some(rng.range(1, 3)), max_new_checkpoints: Some(1), block_on_inflight: Some(rng.chance(1, 2)), execute: Some(rng.chance(1, 2)), dry_run: Some(false), actor_id: "u".into(), origin: "cli".into() });
            }
            10 if h.msgs.len() >= 4 => {
                let _ = store.compaction_auto_v1(thread, CompactionAutoV1Request { stride_messages: Some(rng.range(2, 4)), max_new_checkpoints: Some(2), dry_run: Some(false), actor_id: "u".into(), origin: "cli".into() });
            }
            _ => {
                let link = ContinuityRunLink { continuity_id: thread.to_string(), message_id: h.msgs.last().cloned().unwrap_or_default(), actor_id: "user".into(), origin: "cli".into() };
                let _ = store.append_tool_side_effects(&link, "s", ToolSideEffects { tool_id: "t".into(), tool_name: "write".into(), affected_paths: None, checkpoint_id: None });
            }
        }
    }
}

fn describe(v: &Value) -> String {
    let s = v.to_string();
    if s.len() > 360 {
        format!("{}… ({} bytes)", &s[..360], s.len())
    } else {
        s
    }
}

fn one_case(rep: &mut Report, model: &mut Model, rng: &mut Rng, case_no: u64, size: &str) {
    let scratch = Scratch::new("c04");
    let data_dir = scratch.path().join("data");
    let ws = scratch.path().join("ws");
    std::fs::create_dir_all(&ws).unwrap();
    let (_log, store) = open(&data_dir, &ws);
    let thread = store.ensure_default().unwrap();
    let mut h = Hist { msgs: Vec::new(), runs: 0 };
    let mut versions: Versions = Vec::new();
    let (n1, fat) = match size {
        "small" => (rng.range(4, 60) as usize, false),
        "chatty" => (rng.range(80, 300) as usize, false), // many messages: more than the compile window's limit before most anchors
        "fat" => (rng.range(30, 90) as usize, true), // sidecars beyond the first tail window(s)
        _ => (0, false),
    };
    let mut store = store;
    if size == "long" {
        // longer than every bounded tail window: > 10^4 frames; sparse cursors and decisions
        let _ = store.append_message(&thread, "user".into(), "cli".into(), "first".into()).map(|m| h.msgs.push(m));
        let _ = ripd::verif_export::continuities::append_cursor_updated(&store, &thread, "openresponses", Some("http://old".into()), Some("old".into()), Some(json!({"previous_response_id": "ancient"})), "set", None);
        let _ = ripd::verif_export::continuities::append_selection_decided(&store, &thread, "run-old", &h.msgs[0], "recent_messages_v1", vec![], None);
        for i in 0..10_060u64 {
            if i % 40 == 0 {
                let _ = store.append_message(&thread, "user".into(), "cli".into(), format!("m{i}")).map(|m| h.msgs.push(m));
            } else {
                let link = ContinuityRunLink { continuity_id: thread.clone(), message_id: h.msgs[0].clone(), actor_id: "user".into(), origin: "cli".into() };
                let _ = store.append_tool_side_effects(&link, "s", ToolSideEffects { tool_id: "t".into(), tool_name: "write".into(), affected_paths: None, checkpoint_id: None });
            }
        }
        grow(&store, &thread, rng, 12, &mut h, false);
    } else {
        let parts = 3;
        for _ in 0..parts {
            grow(&store, &thread, rng, n1 / parts + 1, &mut h, fat);
            save_version(&data_dir, &thread, &mut versions);
        }
    }
    if h.msgs.is_empty() {
        let _ = store.append_message(&thread, "user".into(), "cli".into(), "only".into()).map(|m| h.msgs.push(m));
    }
    // a branch child exists in some histories (default-thread recovery after index loss)
    let with_child = rng.chance(1, 3);
    if with_child {
        let _ = store.branch(&thread, Some("child".into()), None, None, "u".into(), "cli".into());
    }
    let q = Queries { stride: rng.range(1, 4), limit: *rng.pick(&[1u32, 3, 5, 10, 50]), anchors: vec![h.msgs.last().unwrap().clone(), h.msgs[h.msgs.len() / 2].clone(), h.msgs[0].clone()], rotate_endpoint: Some(format!("http://e{}", rng.below(3))) };
    rep.evaluations += 1;
    rep.count(&format!("histories_{size}"));
    let frames_now = read_frames(&data_dir.join("events.jsonl")).len();
    rep.count_n("frames", frames_now as u64);
    let sidecar_len = std::fs::metadata(data_dir.join("continuity_streams").join(format!("{thread}.jsonl"))).map(|m| m.len()).unwrap_or(0);
    if sidecar_len > 256 * 1024 {
        rep.count("sidecar_beyond_first_window");
    }
    if sidecar_len > 8 * 1024 * 1024 {
        rep.count("sidecar_beyond_max_window");
    }
    // ---- round 0: no fault at all
    let mut rounds: Vec<(Vec<Fault>, bool)> = vec![(vec![], false)];
    // ---- fault rounds
    let kinds: Vec<String> = cache_files(&data_dir, &thread).iter().map(|f| kind_of(f, &thread)).collect();
    let nrounds = if size == "long" { 1 } else { 3 };
    for _ in 0..nrounds {
        let mut fs = Vec::new();
        for _ in 0..rng.range(1, 3) {
            if kinds.is_empty() {
                break;
            }
            let sidecars: Vec<String> = kinds.iter().filter(|k| k.ends_with("jsonl") && !k.contains("seek") && !k.contains("idx")).cloned().collect();
            let k = if !sidecars.is_empty() && rng.chance(1, 2) { rng.pick(&sidecars).clone() } else { rng.pick(&kinds).clone() };
            fs.push(match rng.below(4) {
                0 => Fault::Delete(k),
                1 => {
                    // a cut inside a line (torn) or exactly on a line boundary, incl. an empty file (prefix-only)
                    let path = data_dir.join("continuity_streams").join(format!("{thread}.{k}"));
                    let bytes = std::fs::read(&path).unwrap_or_default();
                    if k.ends_with("msgord.v1.bin") {
                        // binary ordinal index: 32-byte header + 24-byte records; a cut on a record boundary
                        // leaves a well-formed prefix, any other cut a torn record
                        let records = (bytes.len().saturating_sub(32) / 24) as u64;
                        if rng.chance(1, 2) || records == 0 {
                            Fault::Truncate(k, 3000 + rng.below(records + 1))
                        } else {
                            Fault::Truncate(k, 4000 + rng.below(records) * 24 + rng.range(1, 23))
                        }
                    } else if rng.chance(1, 3) || bytes.is_empty() {
                        let lines = bytes.iter().filter(|c| **c == b'\n').count() as u64;
                        Fault::Truncate(k, 2000 + rng.below(lines + 1))
                    } else {
                        // make sure the per-mille cut does not land on a boundary
                        let mut pm = rng.below(1000);
                        for _ in 0..20 {
                            let n = (bytes.len() as u64 * pm / 1000) as usize;
                            if n > 0 && n < bytes.len() && bytes[n - 1] != b'\n' {
                                break;
                            }
                            pm = rng.below(1000);
                        }
                        let n = (bytes.len() as u64 * pm / 1000) as usize;
                        if n == 0 || n >= bytes.len() || bytes[n - 1] == b'\n' { Fault::Truncate(k, 2000) } else { Fault::Truncate(k, pm) }
                    }
                }
                2 => Fault::Garbage(k),
                _ if !versions.is_empty() => Fault::Rollback(k, rng.below(versions.len() as u64) as usize),
                _ => Fault::Delete(k),
            });
        }
        rounds.push((fs, rng.chance(1, 2)));
    }
    // one more round per case: several cache files LOST together (a partial clean-up, a restore that
    // missed files): which files remain decides which read path answers, and each path has its own
    // idea of when to fall back to the log
    if !kinds.is_empty() {
        let want = rng.range(2, 3) as usize;
        let mut pool: Vec<String> = kinds.clone();
        let mut fs = Vec::new();
        // the sidecars first: losing two of the three sidecars is the interesting half
        pool.sort_by_key(|k| (!(k.ends_with("jsonl") && !k.contains("seek") && !k.contains("idx")), rng.below(1000)));
        for k in pool.into_iter().take(want) {
            fs.push(Fault::Delete(k));
        }
        rep.count("rounds_losing_several_cache_files");
        rounds.push((fs, false));
    }
    // the whole cache directory of the thread is lost (a clean-up, a restore of the log alone), the
    // authority restarts, and the first thing that happens to the thread is a write: the code rebuilds
    // every cache from the log before it appends, so every answer afterwards is the truth. This round
    // is reported under its own signature and never shrunk: a single lost derived cache followed by
    // appends is a recorded finding, the loss of ALL of them is handled and must stay so.
    if !kinds.is_empty() {
        rep.count("rounds_losing_every_cache_file_then_restart_and_appends");
        rounds.push((kinds.iter().map(|k| Fault::Delete(k.clone())).collect(), true));
    }
    // and one round for a seek index that is wrong where nobody looks when it is loaded: alone, and
    // with the messages+runs sidecar damaged so that the full-sidecar window read is the one that answers
    if frames_now > 256 && kinds.iter().any(|k| k == "seek.v1.jsonl") {
        let mut fs = vec![Fault::Skew("seek.v1.jsonl".into())];
        match rng.below(3) {
            0 => fs.push(Fault::Garbage("mr.v1.jsonl".into())),
            1 => fs.push(Fault::Truncate("mr.v1.jsonl".into(), 500)),
            _ => {}
        }
        rep.count("rounds_with_skewed_seek_index");
        rounds.push((fs, false));
    }
    drop(store);
    let base = scratch.path().join("base");
    copy_dir(&data_dir, &base);
    // ---- the thread index is lost: the default thread must be recovered from the log
    {
        let dir = scratch.path().join("noindex");
        copy_dir(&base, &dir);
        let _ = std::fs::remove_file(dir.join("continuities").join("index.json"));
        let (_l, s) = open(&dir, &ws);
        let got = s.ensure_default().ok();
        rep.count("index_loss_rounds");
        if with_child {
            rep.count("index_loss_rounds_with_branch_child");
        }
        if got.as_deref() != Some(thread.as_str()) {
            rep.oracle_failure(
                if with_child { "C04|default-thread|index.json-lost|branch-child-exists" } else { "C04|default-thread|index.json-lost" },
                &format!("after losing continuities/index.json the default thread is {got:?}, before it was {thread}"),
                json!({"case": case_no, "branch_child": with_child}),
            );
        }
        let _ = std::fs::remove_dir_all(&dir);
    }
    for (ri, (faults, append_after)) in rounds.iter().enumerate() {
        // start every round from the unfaulted directory
        let dir = scratch.path().join(format!("round{ri}"));
        copy_dir(&base, &dir);
        let append_seed = rng.next();
        // half of the rounds with later appends lose their caches while the authority is RUNNING (it
        // has appended to the thread before, so the next seq is in memory): the appends go on in the
        // same process. The other half restart the authority on the damaged caches first.
        let all_lost = *append_after && !kinds.is_empty() && faults.len() == kinds.len() && faults.iter().all(|f| matches!(f, Fault::Delete(_)));
        let live = *append_after && append_seed % 2 == 0 && !all_lost;
        let grow_more = |s: &ContinuityStore| {
            let mut h2 = Hist { msgs: h.msgs.clone(), runs: h.runs + 1000 };
            let mut arng = Rng::new(append_seed);
            grow(s, &thread, &mut arng, 3, &mut h2, false);
        };
        // applies the kept faults (and the appends) to `d`; returns what each fault did
        let run_round = |d: &Path, keep: &Vec<bool>, with_appends: bool| -> Vec<String> {
            let apply = |d: &Path| -> Vec<String> { faults.iter().zip(keep.iter()).filter(|(_, k)| **k).map(|(f, _)| apply_fault(d, &thread, f, &versions)).collect() };
            if with_appends && live {
                let (_l, s) = open(d, &ws);
                let _ = s.append_message(&thread, "user".into(), "cli".into(), "while the caches are intact".into());
                let classes = apply(d);
                grow_more(&s);
                classes
            } else {
                let classes = apply(d);
                if with_appends {
                    let (_l, s) = open(d, &ws);
                    grow_more(&s);
                }
                classes
            }
        };
        let all = vec![true; faults.len()];
        let effective: Vec<String> = run_round(&dir, &all, *append_after);
        for c in &effective {
            rep.count(&format!("fault_{}", c.split(':').next().unwrap().replace('-', "_")));
        }
        if *append_after {
            rep.count(if live { "rounds_with_appends_after_faults_same_process" } else { "rounds_with_appends_after_faults_after_restart" });
        }
        // the appends themselves must not have been affected by the damaged caches (C05 covers the
        // numbering; here only answers are compared)
        let (a, b) = compare(scratch.path(), &format!("r{ri}"), &dir, &ws, &thread, &q, None);
        rep.traces_validated += 1;
        for name in QUERY_NAMES {
            let (va, vb) = (a.get(*name), b.get(*name));
            rep.count("answers_compared");
            // termination is part of the property: a call that does not return is a failure even when
            // it does not return on either side
            if va.is_none() || vb.is_none() {
                continue; // not evaluated on one side (an earlier call did not return)
            }
            let div_a = va == Some(&json!("DIVERGES"));
            let div_b = vb == Some(&json!("DIVERGES"));
            if va == vb && !div_a {
                continue;
            }
            if div_a && div_b {
                let size_note = if frames_now > 10_000 { "thread longer than every tail window" } else { "short thread" };
                rep.oracle_failure(&format!("C04|{name}|does-not-terminate|any-cache-state"), &format!("{name} ({size_note}, {frames_now} frames, sidecar {sidecar_len} bytes) does not return within {CALL_CAP_MS} ms with caches as found nor after removing them"), json!({"case": case_no, "size": size, "frames": frames_now, "sidecar_bytes": sidecar_len}));
                continue;
            }
            // shrink: which single fault (without the later appends) already reproduces it?
            // shrink to a 1-minimal set of faults (and the later appends) that still reproduces it
            let mut minimal: Option<String> = None;
            if (faults.len() > 1 || *append_after) && !all_lost {
                let mut keep: Vec<bool> = vec![true; faults.len()];
                let mut keep_appends = *append_after;
                let reproduces = |keep: &Vec<bool>, keep_appends: bool| -> bool {
                    let d1 = scratch.path().join("shrink");
                    let _ = std::fs::remove_dir_all(&d1);
                    copy_dir(&base, &d1);
                    let _ = run_round(&d1, keep, keep_appends);
                    let (a1, b1) = compare(scratch.path(), "s", &d1, &ws, &thread, &q, Some(name));
                    let r = a1.get(*name) != b1.get(*name);
                    let _ = std::fs::remove_dir_all(&d1);
                    r
                };
                for i in 0..faults.len() {
                    keep[i] = false;
                    if !reproduces(&keep, keep_appends) {
                        keep[i] = true;
                    }
                }
                if keep_appends && reproduces(&keep, false) {
                    keep_appends = false;
                }
                // what the kept faults do when applied on their own, in order
                let mut cs: Vec<String> = {
                    let d2 = scratch.path().join("classify");
                    let _ = std::fs::remove_dir_all(&d2);
                    copy_dir(&base, &d2);
                    let v: Vec<String> = run_round(&d2, &keep, false).into_iter().filter(|c| c != "noop").collect();
                    let _ = std::fs::remove_dir_all(&d2);
                    v
                };
                cs.sort();
                cs.dedup();
                if !cs.is_empty() || keep_appends {
                    minimal = Some(format!("{}{}", cs.join("+"), if keep_appends { "+appends" } else { "" }));
                }
            }
            let cause = if faults.is_empty() {
                "no-fault".to_string()
            } else if all_lost {
                "every-cache-file-lost+restart+appends".to_string()
            } else if let Some(m) = minimal {
                m
            } else if faults.len() == 1 && !*append_after {
                effective[0].clone()
            } else {
                let mut cs: Vec<String> = effective.iter().filter(|c| *c != "noop").cloned().collect();
                cs.sort();
                cs.dedup();
                format!("{}{}", cs.join("+"), if *append_after { "+appends" } else { "" })
            };
            let diverges = va == Some(&json!("DIVERGES"));
            let sig = if diverges { format!("C04|{name}|does-not-terminate|{cause}") } else { format!("C04|{name}|{cause}") };
            let size_note = if sidecar_len > 8 * 1024 * 1024 || frames_now > 10_000 { "thread longer than every tail window" } else if sidecar_len > 256 * 1024 { "sidecar beyond the first tail window" } else { "short thread" };
            rep.oracle_failure(
                &sig,
                &format!("{name} ({size_note}): caches as found → {} ; caches removed → {}", va.map(describe).unwrap_or("<not evaluated>".into()), vb.map(describe).unwrap_or("<not evaluated>".into())),
                json!({"case": case_no, "size": size, "faults": faults.iter().map(|f| format!("{f:?}")).collect::<Vec<_>>(), "appends_after_faults": append_after, "appends_in_the_same_process": live, "frames": frames_now, "sidecar_bytes": sidecar_len, "stride": q.stride, "limit": q.limit}),
            );
        }
        // ---- truth answers vs the Lean specification (tail-scanning queries)
        if ri == 0 {
            model_check(rep, model, &dir, &thread, &q, &b, case_no);
        }
        let _ = std::fs::remove_dir_all(&dir);
    }
}

/// cursor status and selection status against `Rip.Cache`'s specification over the truth frames
fn model_check(rep: &mut Report, model: &mut Model, dir: &Path, thread: &str, q: &Queries, truth: &BTreeMap<String, Value>, case_no: u64) {
    let frames = read_frames(&dir.join("events.jsonl"));
    let mut names: BTreeMap<String, usize> = BTreeMap::new();
    let mut id = |s: String| -> usize {
        let n = names.len() + 1;
        *names.entry(s).or_insert(n)
    };
    let mut toks = Vec::new();
    for f in frames.iter().filter(|f| f["session_id"].as_str() == Some(thread)) {
        let seq = f["seq"].as_u64().unwrap_or(0);
        match f["type"].as_str().unwrap_or("") {
            "continuity_provider_cursor_updated" => toks.push(format!("{seq} c {}", id(format!("{}|{}|{}", f["provider"], f["endpoint"], f["model"])))),
            "continuity_context_selection_decided" => toks.push(format!("{seq} d")),
            _ => toks.push(format!("{seq} o")),
        }
    }
    if toks.len() > 4000 {
        return; // the specification is compared on the short and fat histories; long ones are compared as-found vs truth only
    }
    let line = format!("c04 {} {} {}", q.limit.min(50), toks.len(), toks.join(" "));
    let m = model.ask(&line);
    let cur = &truth["cursor_status"];
    let active = cur["active"]["seq"].as_u64().map(|s| s.to_string()).unwrap_or("_".into());
    let mut cursors: Vec<u64> = cur["cursors"].as_array().map(|a| a.iter().filter_map(|c| c["seq"].as_u64()).collect()).unwrap_or_default();
    cursors.sort();
    let sel: Vec<String> = truth["selection_status"]["decisions"].as_array().map(|a| a.iter().filter_map(|d| d["seq"].as_u64()).map(|s| s.to_string()).collect()).unwrap_or_default();
    let imp = format!("active={active} cursors=[{}] decisions=[{}]", cursors.iter().map(|s| s.to_string()).collect::<Vec<_>>().join(","), sel.join(","));
    if imp != m {
        rep.disagreement("truth answers vs specification", json!({"case": case_no, "line": if line.len() < 3000 { line } else { "…".into() }}), &imp, &m);
    }
    rep.nontrivial_case(&imp);
    rep.sample(json!({"impl": imp}));
}

/// (seek index) correspondence of the full-sidecar window read with `Rip.SeekIndex.window` over
/// ARBITRARY contents of the seek-index file, plus the model-free oracle "an answer is the kept
/// frames of one seq interval ending at the cut, and holds the newest `limit` messages at or below it"
fn seek_case(rep: &mut Report, model: &mut Model, rng: &mut Rng, case_no: u64, stride: u64) {
    let scratch = Scratch::new("c04seek");
    let data_dir = scratch.path().join("data");
    let ws = scratch.path().join("ws");
    std::fs::create_dir_all(&ws).unwrap();
    let (_log, store) = open(&data_dir, &ws);
    let thread = store.ensure_default().expect("default thread");
    let mut h = Hist { msgs: Vec::new(), runs: 0 };
    let ops = *rng.pick(&[12usize, 40, 150, 330, 600]);
    grow(&store, &thread, rng, ops, &mut h, false);
    if h.msgs.is_empty() {
        let _ = store.append_message(&thread, "user".into(), "cli".into(), "only".into()).map(|m| h.msgs.push(m));
    }
    let dir = data_dir.join("continuity_streams");
    let sidecar = dir.join(format!("{thread}.jsonl"));
    let idx = dir.join(format!("{thread}.seek.v1.jsonl"));
    let bytes = std::fs::read(&sidecar).unwrap_or_default();
    // (seq, msg, keep, start offset, size)
    let mut lines: Vec<(u64, bool, bool, u64, u64)> = Vec::new();
    let mut off = 0u64;
    for l in bytes.split_inclusive(|c| *c == b'\n') {
        let v: Value = serde_json::from_slice(l).unwrap_or(Value::Null);
        let t = v["type"].as_str().unwrap_or("");
        let msg = t == "continuity_message_appended";
        lines.push((v["seq"].as_u64().unwrap_or(0), msg, msg || t == "continuity_run_ended", off, l.len() as u64));
        off += l.len() as u64;
    }
    let n = lines.len() as u64;
    if n < 3 {
        return;
    }
    let right: Vec<(u64, u64)> = lines.iter().filter(|l| l.0 % stride == 0).map(|l| (l.0, l.3)).collect();
    rep.count_n("seek_frames", n);
    for variant in 0..8u32 {
        // the index file as found
        let (label, file): (&str, Option<Vec<(u64, u64)>>) = match variant {
            0 => ("right", Some(right.clone())),
            1 => ("missing", None),
            2 => {
                // one entry carries the line start of another frame (earlier or later)
                let mut e = right.clone();
                let i = rng.below(e.len() as u64) as usize;
                e[i].1 = lines[rng.below(n) as usize].3;
                ("one-offset-moved-to-a-line-start", Some(e))
            }
            3 => {
                let mut e = right.clone();
                let i = rng.below(e.len() as u64) as usize;
                let l = lines[rng.below(n) as usize];
                e[i].1 = l.3 + 1 + rng.below(l.4.saturating_sub(1).max(1));
                ("one-offset-inside-a-line", Some(e))
            }
            4 => {
                let mut e = right.clone();
                let i = rng.below(e.len() as u64) as usize;
                e[i].0 = rng.below(n + 3);
                ("one-seq-changed", Some(e))
            }
            5 => {
                // entries for arbitrary frames with their right offsets, then made monotonic: a dense or sparse but true index
                let mut e: Vec<(u64, u64)> = (0..rng.range(1, 6)).map(|_| { let l = lines[rng.below(n) as usize]; (l.0, l.3) }).collect();
                e.sort();
                ("true-entries-at-other-frames", Some(e))
            }
            6 => {
                // arbitrary pairs (seq of one frame, line start of another), sorted both ways
                let mut seqs: Vec<u64> = (0..rng.range(1, 5)).map(|_| rng.below(n + 2)).collect();
                let mut offs: Vec<u64> = seqs.iter().map(|_| if rng.chance(1, 6) { off + rng.below(50) } else { lines[rng.below(n) as usize].3 }).collect();
                seqs.sort();
                offs.sort();
                ("arbitrary-monotonic-pairs", Some(seqs.into_iter().zip(offs).collect()))
            }
            _ => {
                let mut e = right.clone();
                e.reverse();
                if e.len() < 2 {
                    e.clear();
                }
                ("rejected-by-the-loader", Some(e))
            }
        };
        for _ in 0..3 {
            let from_seq = if rng.chance(1, 8) { n + rng.below(5) } else { rng.below(n) };
            let limit = *rng.pick(&[1usize, 2, 5, 10, 50]);
            match &file {
                None => {
                    let _ = std::fs::remove_file(&idx);
                }
                Some(es) => {
                    let text: String = es.iter().map(|(s, o)| format!("{{\"version\":1,\"stride\":{stride},\"seq\":{s},\"offset\":{o}}}\n")).collect();
                    std::fs::write(&idx, text).unwrap();
                }
            }
            let got = ripd::verif_export::continuities::full_sidecar_window_from_seq(&store, &thread, from_seq, limit);
            let imp = match &got {
                Ok(Some(seqs)) => format!("ok [{}]", seqs.iter().map(|s| s.to_string()).collect::<Vec<_>>().join(",")),
                Ok(None) => "none".to_string(),
                Err(_) => "err".to_string(),
            };
            let es = file.clone().unwrap_or_default();
            let mut toks: Vec<String> = vec!["c04s".into(), "1".into(), stride.to_string(), "200000".into(), from_seq.to_string(), limit.to_string(), if file.is_some() { "1".into() } else { "0".into() }, es.len().to_string()];
            toks.extend(es.iter().flat_map(|(s, o)| [s.to_string(), o.to_string()]));
            toks.push(lines.len().to_string());
            toks.extend(lines.iter().flat_map(|l| [l.0.to_string(), (l.1 as u8).to_string(), (l.2 as u8).to_string(), (l.4 - 1).to_string()]));
            let line = toks.join(" ");
            let m = model.ask(&line);
            rep.evaluations += 1;
            rep.count(&format!("seek_index_{}", label.replace('-', "_")));
            rep.count(if imp.starts_with("ok") { "seek_window_answered" } else { "seek_window_refused" });
            if imp != m {
                rep.disagreement("full-sidecar window read vs Rip.SeekIndex.window", json!({"case": case_no, "index": label, "from_seq": from_seq, "limit": limit, "entries": es, "frames": n}), &imp, &m);
            }
            // model-free oracle on an answer
            if let Ok(Some(seqs)) = &got {
                let kept_below: Vec<u64> = lines.iter().filter(|l| l.2 && l.0 <= from_seq).map(|l| l.0).collect();
                let msgs_below: Vec<u64> = lines.iter().filter(|l| l.1 && l.0 <= from_seq).map(|l| l.0).collect();
                let want_msgs: Vec<u64> = msgs_below.iter().rev().take(limit).rev().cloned().collect();
                let is_suffix = kept_below.ends_with(seqs);
                let has_msgs = want_msgs.iter().all(|m| seqs.contains(m));
                if !is_suffix || !has_msgs {
                    rep.oracle_failure(
                        &format!("C04|full_sidecar_window|seek-index:{label}"),
                        &format!("the window read for cut {from_seq}, limit {limit} over a seek index that is {label} answered {seqs:?}; the newest {limit} messages at or below the cut are {want_msgs:?} (an answer must be a suffix of the kept frames at or below the cut that holds them)"),
                        json!({"case": case_no, "index": label, "entries": es, "from_seq": from_seq, "limit": limit, "frames": n}),
                    );
                }
            }
            rep.nontrivial_case(&format!("{label}|{imp}"));
        }
    }
    let _ = std::fs::remove_file(&idx);
}

pub fn run(opts: &Opts) -> Report {
    let mut rep = Report::new(
        "C04",
        "thread histories built through the store API (messages, runs with selection / compiled / side-effect / cursor frames, manual and automatic checkpoints, jobs, branch children): short (4-60 ops), chatty (80-160 ops: more messages than the compile window's limit), fat (30-90 ops with 20-90 kB messages: sidecars beyond the first and, in some, beyond the largest tail window) and — thorough — long (> 10^4 frames); per history one unfaulted round and three fault rounds of 1-2 faults (delete / truncate at a random byte / garbage / roll back to an earlier saved version) on any cache file of the thread, half of them followed by a restart and further appends; nine read capabilities compared caches-as-found vs caches-removed under a 20 s cap; differences shrunk to a single fault; cursor and selection status also compared with the Lean specification; non-trivial = distinct truth answers",
    );
    let mut rng = Rng::new(opts.seed);
    let mut model = Model::spawn();
    let k = if opts.thorough { 10 } else { 1 } * opts.scale;
    for c in 0..90 * k {
        one_case(&mut rep, &mut model, &mut rng, c, "small");
    }
    for c in 0..10 * k {
        one_case(&mut rep, &mut model, &mut rng, 10_000 + c, "fat");
    }
    for c in 0..16 * k {
        one_case(&mut rep, &mut model, &mut rng, 15_000 + c, "chatty");
    }
    let stride = std::fs::read_to_string("/verif/.build/gen.json")
        .ok()
        .and_then(|t| serde_json::from_str::<Value>(&t).ok())
        .and_then(|v| v["consts"].as_array().and_then(|a| a.iter().find(|c| c["name"].as_str().map(|n| n.ends_with("SEEK_INDEX_STRIDE_EVENTS_V1")).unwrap_or(false)).and_then(|c| c["value"].as_str().and_then(|s| s.parse::<u64>().ok()))))
        .unwrap_or(256);
    for c in 0..12 * k {
        seek_case(&mut rep, &mut model, &mut rng, 30_000 + c, stride);
    }
    let longs = if opts.thorough { 3 } else { 1 };
    for c in 0..longs {
        one_case(&mut rep, &mut model, &mut rng, 20_000 + c, "long");
    }
    rep
}
