//! Controlled scheduler: worker OS threads run real code; at every `rip_kernel::verif::point`
//! a worker parks until the scheduler grants it one step. One worker runs at a time, so the
//! execution is a deterministic function of the schedule.
use std::cell::Cell;
use std::sync::mpsc::{channel, Receiver, Sender};
use std::sync::{Arc, Mutex};

thread_local! {
    static WORKER: Cell<Option<usize>> = const { Cell::new(None) };
}

#[derive(Debug, Clone, PartialEq)]
pub enum Report {
    /// parked at a point, waiting for a grant
    At(String),
    /// the worker published a state change of its own (free-form)
    Note(String),
    /// the worker's closure returned
    Finished,
}

struct Shared {
    to_sched: Sender<(usize, Report)>,
    grants: Vec<Mutex<Option<Receiver<()>>>>,
}

static SHARED: Mutex<Option<Arc<Shared>>> = Mutex::new(None);

/// how many workers are currently parked at each point name (readable from worker code)
static PARKED_AT: Mutex<Vec<(String, usize)>> = Mutex::new(Vec::new());

pub fn parked_at(name: &str) -> usize {
    PARKED_AT.lock().unwrap().iter().find(|(n, _)| n == name).map(|(_, c)| *c).unwrap_or(0)
}

fn parked_delta(name: &str, up: bool) {
    let mut g = PARKED_AT.lock().unwrap();
    if let Some(e) = g.iter_mut().find(|(n, _)| n == name) {
        if up { e.1 += 1 } else { e.1 = e.1.saturating_sub(1) }
    } else if up {
        g.push((name.to_string(), 1));
    }
}

pub struct Scheduler {
    from_workers: Receiver<(usize, Report)>,
    grant_tx: Vec<Sender<()>>,
    pub parked: Vec<Option<String>>,
    pub finished: Vec<bool>,
    pub notes: Vec<Vec<String>>,
    handles: Vec<Option<std::thread::JoinHandle<()>>>,
}

fn point_cb(name: &str) {
    // the crash points of the append path (C05) are not yield points of the schedules
    if name.starts_with("log.") || name.starts_with("cache.") || name.starts_with("index.") || name.starts_with("artifact.") {
        return;
    }
    let Some(id) = WORKER.with(|w| w.get()) else { return };
    let shared = SHARED.lock().unwrap().clone();
    let Some(shared) = shared else { return };
    parked_delta(name, true);
    let _ = shared.to_sched.send((id, Report::At(name.to_string())));
    // wait for the grant
    let rx = shared.grants[id].lock().unwrap().take();
    if let Some(rx) = rx {
        let _ = rx.recv();
        *shared.grants[id].lock().unwrap() = Some(rx);
    }
    parked_delta(name, false);
}

/// worker-side: publish a note to the scheduler (does not park)
pub fn note(text: &str) {
    let Some(id) = WORKER.with(|w| w.get()) else { return };
    if let Some(shared) = SHARED.lock().unwrap().clone() {
        let _ = shared.to_sched.send((id, Report::Note(text.to_string())));
    }
}

/// worker-side: a yield point of the harness's own glue code
pub fn point(name: &str) {
    point_cb(name);
}

impl Scheduler {
    /// Spawns the workers; each runs until its first point (or to completion) before `new` returns.
    pub fn new(workers: Vec<Box<dyn FnOnce() + Send + 'static>>) -> Scheduler {
        let n = workers.len();
        let (to_sched, from_workers) = channel();
        let mut grant_tx = Vec::new();
        let mut grants = Vec::new();
        for _ in 0..n {
            let (tx, rx) = channel();
            grant_tx.push(tx);
            grants.push(Mutex::new(Some(rx)));
        }
        *SHARED.lock().unwrap() = Some(Arc::new(Shared { to_sched: to_sched.clone(), grants }));
        PARKED_AT.lock().unwrap().clear();
        rip_kernel::verif::install(Some(Arc::new(point_cb)));
        let mut s = Scheduler {
            from_workers,
            grant_tx,
            parked: vec![None; n],
            finished: vec![false; n],
            notes: vec![Vec::new(); n],
            handles: Vec::new(),
        };
        // start workers one at a time so that start-up is deterministic too
        for (id, w) in workers.into_iter().enumerate() {
            let tx = to_sched.clone();
            let h = std::thread::spawn(move || {
                WORKER.with(|c| c.set(Some(id)));
                // park before doing anything
                point_cb("start");
                w();
                let _ = tx.send((id, Report::Finished));
            });
            s.handles.push(Some(h));
            s.wait_for(id);
        }
        s
    }

    fn wait_for(&mut self, id: usize) {
        loop {
            let (wid, rep) = self.from_workers.recv_timeout(std::time::Duration::from_secs(20)).expect("worker stuck");
            match rep {
                Report::At(name) => {
                    self.parked[wid] = Some(name);
                    if wid == id {
                        return;
                    }
                }
                Report::Note(t) => self.notes[wid].push(t),
                Report::Finished => {
                    self.finished[wid] = true;
                    self.parked[wid] = None;
                    if wid == id {
                        return;
                    }
                }
            }
        }
    }

    /// Lets worker `id` run from its current point to its next one (or to completion).
    /// Returns false if the worker has already finished.
    pub fn step(&mut self, id: usize) -> bool {
        if self.finished[id] || self.parked[id].is_none() {
            return false;
        }
        self.parked[id] = None;
        let _ = self.grant_tx[id].send(());
        self.wait_for(id);
        true
    }

    /// Like `step`, but gives up waiting after `ms` milliseconds: the worker is then blocked on
    /// something another worker holds (e.g. an async mutex). It stays marked as running; its next
    /// report is picked up whenever the scheduler waits again.
    pub fn step_or_block(&mut self, id: usize, ms: u64) -> &'static str {
        if self.finished[id] {
            return "finished";
        }
        if self.parked[id].is_none() {
            // already blocked from an earlier grant: see whether it has moved meanwhile
            self.drain();
            return if self.finished[id] { "finished" } else if self.parked[id].is_some() { "parked" } else { "blocked" };
        }
        self.parked[id] = None;
        let _ = self.grant_tx[id].send(());
        let deadline = std::time::Instant::now() + std::time::Duration::from_millis(ms);
        loop {
            let left = deadline.saturating_duration_since(std::time::Instant::now());
            match self.from_workers.recv_timeout(left) {
                Ok((wid, rep)) => {
                    match rep {
                        Report::At(name) => self.parked[wid] = Some(name),
                        Report::Note(t) => self.notes[wid].push(t),
                        Report::Finished => {
                            self.finished[wid] = true;
                            self.parked[wid] = None;
                        }
                    }
                    if wid == id && (self.finished[id] || self.parked[id].is_some()) {
                        return if self.finished[id] { "finished" } else { "parked" };
                    }
                }
                Err(_) => return "blocked",
            }
        }
    }

    /// picks up reports that arrived while nobody was waiting
    pub fn drain(&mut self) {
        // give a just-unblocked worker a moment to reach its next point
        let deadline = std::time::Instant::now() + std::time::Duration::from_millis(30);
        loop {
            let left = deadline.saturating_duration_since(std::time::Instant::now());
            match self.from_workers.recv_timeout(left) {
                Ok((wid, rep)) => match rep {
                    Report::At(name) => self.parked[wid] = Some(name),
                    Report::Note(t) => self.notes[wid].push(t),
                    Report::Finished => {
                        self.finished[wid] = true;
                        self.parked[wid] = None;
                    }
                },
                Err(_) => return,
            }
        }
    }

    pub fn where_is(&self, id: usize) -> String {
        if self.finished[id] {
            "finished".into()
        } else {
            self.parked[id].clone().unwrap_or_else(|| "running".into())
        }
    }

    /// Runs every unfinished worker to completion (round robin) and uninstalls the callback.
    pub fn finish(mut self) {
        // a worker may be blocked on something another (parked) worker holds: never wait for one
        // worker unboundedly, and pick up workers that moved on after being unblocked
        let mut idle = 0;
        for _ in 0..100_000 {
            if self.finished.iter().all(|f| *f) {
                break;
            }
            let mut progressed = false;
            for id in 0..self.finished.len() {
                if !self.finished[id] && self.parked[id].is_some() && self.step_or_block(id, 50) != "blocked" {
                    progressed = true;
                }
            }
            self.drain();
            if progressed {
                idle = 0;
            } else {
                idle += 1;
                if idle > 100 {
                    if std::env::var("RVH_SCHED_DEBUG").is_ok() {
                        eprintln!("sched: giving up; workers: {:?}", (0..self.finished.len()).map(|i| self.where_is(i)).collect::<Vec<_>>());
                    }
                    break; // ~8 s without any progress: give up (the join below would hang)
                }
            }
        }
        rip_kernel::verif::install(None);
        *SHARED.lock().unwrap() = None;
        let all_done = self.finished.iter().all(|f| *f);
        for h in self.handles.iter_mut() {
            if let Some(h) = h.take() {
                if all_done {
                    let _ = h.join();
                }
            }
        }
    }
}
