#!/bin/sh
# Builds the framework from files on disk only (offline). Idempotent.
set -e
cd "$(dirname "$0")"
export CARGO_NET_OFFLINE=true
mkdir -p .build/run evidence replays
cp /repo/Cargo.lock harness/Cargo.lock
(cd harness && cargo build --offline -q)
if [ -x .build/cargo/debug/ripx ]; then
  .build/cargo/debug/ripx --repo /repo --out lean/Rip/Gen --json .build/gen.json
fi
(cd lean && lake build Rip ripmodel)
echo setup-ok
