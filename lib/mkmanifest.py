#!/usr/bin/env python3
"""Regenerates /verif/MANIFEST.json from lib/props.py (claimed checks) and properties.jsonl."""
import json, os, sys
VERIF = os.path.dirname(os.path.dirname(os.path.abspath(__file__)))
sys.path.insert(0, os.path.join(VERIF, "lib"))
from props import PROPS, NOT_APPLICABLE, HOOK_COMMITS

m = {
    "version": 1,
    "setup_cmd": "./setup.sh",
    "hooks": {
        "guard": "--cfg rip_verif (rustc cfg flag; set through [build] rustflags in /verif/harness/.cargo/config.toml)",
        "enable": "cd /verif/harness && cargo build --offline   (path dependencies on /repo/crates/*, rustflags --cfg rip_verif)",
        "baseline_off_cmd": "cd /repo && cargo nextest run --workspace --no-fail-fast --offline --test-threads 8 || cargo test --workspace --no-fail-fast --offline",
        "source_commits": HOOK_COMMITS,
        "add_only": True,
    },
    "engines": [
        {"name": "lean", "path": "lean", "serves_properties": sorted(PROPS),
         "kind_free_text": "Lean 4 project Rip: executable models (Rip/Model), regenerated fragments (Rip/Gen), lemmas, property theorems (Rip/Props), native model driver ripmodel"},
        {"name": "rvh", "path": "harness/rvh", "serves_properties": sorted(PROPS),
         "kind_free_text": "Rust correspondence harness linked against /repo crates (hooks on): runs implementation and Lean model on the same generated cases, plus implementation oracles"},
    ],
    "checks": [],
    "notes": "See DESIGN.md. `./check <id> --tier quick|thorough [--replay file]`; known findings in known_findings.json; seeded breaking changes in seeded/.",
    "not_applicable": [],
}
for pid in sorted(PROPS):
    c = PROPS[pid]
    m["checks"].append({
        "property_id": pid,
        "quick_cmd": f"./check {pid} --tier quick",
        "thorough_cmd": f"./check {pid} --tier thorough",
        "evidence_file": f"/verif/evidence/{pid}.json",
        "replay_cmd_template": f"./check {pid} --replay {{path}}",
        "engine": "lean+rvh",
        "level_claimed": {"category": "proof", "text": c["level_text"], "design_ref": c["design_ref"]},
        "level_note": c["level_note"],
        "technique": c["technique"],
    })
ids = [json.loads(l)["id"] for l in open(os.path.join(VERIF, "properties.jsonl"))]
for i in ids:
    if i not in PROPS:
        m["not_applicable"].append({"property_id": i, "reason": NOT_APPLICABLE.get(i, "not yet built; planned (DESIGN.md §5, §8): model, theorems and correspondence check to follow")})
json.dump(m, open(os.path.join(VERIF, "MANIFEST.json"), "w"), indent=1)
print("claimed:", sorted(PROPS), "unclaimed:", [x["property_id"] for x in m["not_applicable"]])
