"""Per-property configuration of the check driver."""

COMMON_TB = [
    "Lean 4.33.0 kernel (lake build); axioms allowed in property theorems: propext, Classical.choice, Quot.sound",
    "correspondence harness rvh (Rust, /verif/harness): generators, canonicalisers, oracles; SplitMix64 seeded by VERIF_SEED",
    "line protocol + model driver ripmodel (Lean, compiled natively from the same definitions the theorems are about)",
    "check driver (Python 3 stdlib)",
]

PROPS = {
    "C01": {
        "level_text": "Lean 4 theorem over a labelled transition system of concurrent writers of the truth log (one transition = one effect: take the seq mutex, choose the seq from the in-memory map or — after a restart — from the log and append, bump the map, release; thread creation by branch/handoff/ensure_default with its hard-coded seq 0 and 1 frames; authority restarts): for EVERY number of writers, every program with fresh thread ids and EVERY interleaving, every stream's frames carry seq 0,1,2,... in file order (a validated replay succeeds); the mutex is exclusive; appends to a thread still being created write nothing. The full statement was false before the repair (witness kept: a client addressing a new thread between its creation frame and its lineage frame duplicated seq 1) and is now proved without any assumption on addressing. Obligations re-proved by decide on the effect orders REGENERATED from the current source on every run: all eleven append functions are critical sections of the modelled shape; branch, handoff and ensure_default create inside the seq lock; the log file write is body+newline+flush under its own mutex. Tied further by (a) a real-concurrency stress (2-6 OS threads, all append kinds, branch, handoff, compaction jobs, scheduler, linked session runs, across a restart) whose log must replay validated, and (b) controlled-schedule correspondence: writers single-stepped between the effects of the real functions, final (stream, seq) sequence compared with the LTS run on the same schedule; the witness schedule is replayed on the real store on every run. The task emitter's lock nesting is re-decided in this property's own file as well (gen_task_emit_numbers_inside_its_lock), and two or three emitters on one task are single-stepped between the effects of the real TaskEmitter::emit under random schedules: the task stream stands in the log as 0,1,2,… in file order.",
        "level_note": "Lean kernel; std::sync::Mutex is a mutex; O_APPEND writes of one frame are not interleaved (EventLog's own mutex, generated obligation); session and task streams are covered by a second LTS (any number of concurrent emitters on one stream; Rip.Model.Emitters) whose tie is the regenerated emitter order (C06) and the two-emitter controlled schedules of the C06 check, plus the stress oracle here; frames numbered from a counter passed by reference (session, tool and task helpers) are covered by a numbering theorem over token lists (Rip.Model.SeqAcct) whose hypothesis is re-decided on the token lists ripx extracts from the current source (gen_seq_accounting), and by provider runs with executed and refused tool calls followed by the per-stream check; preemption inside one effect is outside the model.",
        "technique": "Lean 4 proof (inductive invariant over all interleavings incl. restarts) + decide over regenerated effect orders + stress and controlled-schedule correspondence",
        "design_ref": "§5 C01",
        "trusted_base": COMMON_TB + [
            "translator ripx (syn): effect orders of the 11 append functions, branch, handoff, create_continuity, ensure_default, EventLog::append; fails closed",
            "hooks: yield points store.lock / store.log_append / store.cache_append / store.publish / store.bump; controlled scheduler",
        ],
        "assumptions": [
            "thread ids are fresh UUIDs (a created id did not exist before and is created once)",
            "log-append I/O errors do not occur; crashes are the subject of C05",
        ],
        "gen": ["EffectOrder", "SeqAccounting"],
    },
    "C02": {
        "level_text": "Lean 4 theorems: (byte level) every append leaves the previous file content as an exact prefix and adds only whole newline-terminated frames — the lines of the new log are the old lines followed by exactly the appended frames; (static, regenerated on every run by the translator ripx) the truth file is only ever opened create+append and impl EventLog contains no truncating/seeking/renaming call; EventLog::append is lock / body / newline / flush / unlock; in the call graph of impl ContinuityStore none of the read-only capabilities (replay, cut points, compaction status, cursor status, selection status, list, get, subscribe, the compile-input loaders) can reach a function that appends to the event log, and no cache-layer file mentions the event log — decided by a reachability computation over the regenerated graph, for every argument value at once; (planner model of C09) auto and auto-schedule with nothing to do or as a dry run append nothing for every thread and parameter. Tied by an implementation oracle on bytes: operation histories over the store API and the HTTP router (valid, invalid, unknown-thread arguments, thread ids that as file names spell the store's own files; cache deletion; reopen; backlogs of cut points drained one checkpoint per call), whether a call is a no-op being decided from the log as it was before the call, after every call the previous bytes (length + SHA-256) are a prefix, the suffix splits into JSON frames, read-only and no-op calls add nothing. Histories also reopen the store over a last frame that is whole but unterminated (what a death between body and newline leaves): the bytes that are there stay a prefix.",
        "level_note": "Lean kernel; ripx is trusted to see every method call on self and every event_log.append in impl ContinuityStore (closures and nested blocks included; calls through trait objects or macros would be missed; none exist today); the OS honours O_APPEND; serde_json never emits a raw newline inside a frame (checked by the oracle on every appended line).",
        "technique": "Lean 4 proof (list lemmas on bytes; decide over regenerated call graph / open flags; planner model) + byte-level implementation oracle over operation histories",
        "design_ref": "§5 C02",
        "trusted_base": COMMON_TB + [
            "translator ripx (syn): call graph of impl ContinuityStore, OpenOptions chains and destructive calls in impl EventLog; fails closed when an entry point or shape is missing",
            "modelled, not verified: O_APPEND semantics of the OS; BufWriter flush",
        ],
        "assumptions": [
            "log-append I/O errors do not occur (a failed write could leave a partial line; crash points are the subject of C05)",
            "session and task emitters append through the same EventLog::append (C01/C03 cover their frames)",
        ],
        "gen": ["LogEffects", "CallGraph", "EffectOrder"],
    },
    "C03": {
        "level_text": "Lean 4 theorems over a schema interpreter for serde's wire form of rip-kernel's Event (envelope flattened beside an internally tagged kind; default / skip_serializing_if / alias attributes; stream_kind and stream_id recomputed by the writer and ignored by the reader): for EVERY well-formed schema and every typed frame, write-then-read yields a frame of the same variant (same stream) whose re-serialisation is byte-for-byte the same object, and reading ignores unknown keys. The full statement was found FALSE in exactly one case, characterised by an iff and kept as a checked witness: an Option field with skip_serializing_if holding Some(null) is written as an explicit null and read back as None (one trip normalises; proved stable afterwards). The schema of the CURRENT source (all variants, fields, aliases, attributes, stream assignment) is REGENERATED by the translator ripx on every run and its well-formedness re-proved by decide. Tied further by a correspondence run against real serde: for every variant, random typed payloads (unicode, 60 kB strings, u64 extremes, nested JSON, floats, unknown and alias keys) go through Event -> text -> Event -> text and through the Lean interpreter instantiated with the regenerated schema; plus an implementation oracle on histories: the frames a live subscriber saw, the log, replay_events and the per-continuity sidecar must be the same frames in the same order. A payload nested deeper than serde_json's recursion limit is written but cannot be read back: recorded known finding. EventLog::append's three write / flush calls are unconditional for every frame kind (re-decided on the regenerated source), and every accepted frame of the wire cases is appended through the real EventLog and looked for on disk at once: the file has grown by exactly its bytes.",
        "level_note": "Lean kernel; JSON values are opaque leaves of the model (serde_json's own value round trip, including float printing, is exercised by the correspondence run, not proved; the float_roundtrip repair is covered there); ripx is trusted to read the serde attributes it knows and fails closed on an attribute it does not know; nested payload structs are leaves.",
        "technique": "Lean 4 proof (schema-generic round trip; decide over the regenerated event schema; decide-checked counterexample for the full statement) + differential correspondence against serde + four-view history oracle",
        "design_ref": "§5 C03",
        "trusted_base": COMMON_TB + [
            "translator ripx (syn): EventKind variants, fields, serde attributes (tag, rename, alias, default, skip_serializing_if, flatten), stream_kind/stream_id assignment; fails closed on unknown attributes",
            "modelled, not verified: serde_json Value parsing/printing (leaves), serde's internally-tagged and flatten machinery (validated by the correspondence run)",
        ],
        "assumptions": [
            "no code path stores Some(Value::Null) in an Option<Value> field with skip_serializing_if (the proved exception; none found in the source today)",
            "known finding: payloads nested deeper than 127 levels are written but unreadable (known_findings.json)",
        ],
        "gen": ["EventSchema", "EffectOrder", "LogEffects"],
    },
    "C04": {
        "level_text": "Lean 4 theorems over an executable model of the tail-scanning read paths (provider cursor status, context selection status): truth answers as functions of the thread's frames, the bounded tail scan, the doubling-window loop and validate-then-fall-back, with the loop's features as switches so the code before and after the repairs can both be run — for EVERY cache content, limit, first window and maximum the loops end within max - w0 + 1 windows (FALSE before the repair: witness with a thread longer than the largest window); with a cache holding what it should the fast path equals the truth answer for every thread and window schedule (FALSE before the repair: duplicated decisions, partial cursor answers); a suffix-only cache file gave a wrong answer before scan_tail's head check and is harmless with it, for every valid thread, every non-empty suffix and every window schedule (proved for the shape regenerated from the current source); a rolled-back (prefix-only) file is undetectable even then (witness). A second model covers the windowed read of the full sidecar through its seek index at byte-offset level (loader, rebuild, validation, best entry, boundary scan, backward header scan with a budget, forward scan): for EVERY sidecar with increasing seqs, EVERY content of the index file (missing, rejected and rebuilt, stale, wrong in any entry), every cut, limit, stride and budget, a window read that answers at all answers what the index-free read answers, and that is exactly the kept frames between the window start and the cut (FALSE before the repair: an index right in its last entry and wrong before it was accepted and the window came back short; decide-checked witness). That best_offset_for_seq checks the entry it is about to use, with the failure propagated, before reading its offset, and that nobody else reads an entry's offset, is re-decided on the regenerated source on every run. The loop shapes, fall-back conditions and head check are REGENERATED from the current source on every run and the theorems are stated for the regenerated shape (genShape = current by decide). Tied by the property's own observation on every run: thread histories built through the store API (short; fat: sidecars beyond the first and the largest tail window; thorough: > 10^4 frames), per history an unfaulted round, an index-loss round and three fault rounds (delete / truncate at a byte / garbage / roll back to a saved earlier version on any cache file, half followed by a restart and further appends); nine read capabilities — replay, cut points, compaction status, cursor status, selection status, the context compiled for a run, branch and handoff cut, default-thread recovery — evaluated with caches as found vs continuity_streams/ removed under a 20 s cap; every difference shrunk to a 1-minimal fault set; every capability asked on its own copy of the faulted store (a replay heals the caches for whoever asks next); cursor and selection status also compared with the Lean specification; the real window read over eight kinds of seek-index file (right, missing, an offset moved to another line start or into a line, a seq changed, true entries elsewhere, arbitrary monotonic pairs, rejected by the loader) compared with the Lean model and judged by a model-free oracle. Five defect groups found and repaired (non-terminating / duplicating / partial tail scans; default thread after index loss; unvalidated seek entries; suffix-only full sidecar; cache-only in-flight job lookup), two recorded as known findings (stale prefix of any cache file, suffix-only derived cache files pass the validators).",
        "level_note": "Lean kernel; windows are counted in frames in the model (byte and event budgets are both monotone; theorems quantify over every first window and maximum); the two tail-scanning status queries and the seek-index window read are modelled — replay, cut points, compaction status, the other two read paths of the compiled context and the lineage cuts are covered by the as-found vs truth comparison (and by C08/C09/C10 on their truth semantics), not by a model of their seven cache formats; ripx recognises the loop shape textually and fails closed.",
        "technique": "Lean 4 proof (termination by a window measure, loop invariants, decide-checked counterexamples for the unrepaired and the faulty-cache cases) + decide over regenerated loop shapes + as-found vs truth differential with fault injection and shrinking",
        "design_ref": "§5 C04",
        "trusted_base": COMMON_TB + [
            "translator ripx (syn + text): doubling-window loops of continuities.rs, fall-back conditions, scan_tail head check; readers of a seek entry's offset and the token order of best_offset_for_seq",
            "a read that starts inside a frame line never parses as a frame header (assumption of Rip.Model.SeekIndex.linesFrom)",
            "hooks: ripd::verif_export::continuities::{append_selection_decided, append_compiled, append_cursor_updated, full_sidecar_window_from_seq}, session::compile_for_run",
        ],
        "assumptions": [
            "known findings: a cache file rolled back to an earlier well-formed version, and a derived cache file lost and recreated by later appends, are trusted by the readers (known_findings.json: C04|*|*prefix-only:*, C04|*|delete:comp.*+appends, C04|*|delete:mr.*+appends)",
            "only default-thread recovery is claimed for continuities/index.json loss",
        ],
        "gen": ["TailLoops", "SeekUse"],
    },
    "C05": {
        "level_text": "Lean 4 theorems over an executable model of a thread's on-disk state (truth log lines, a body written without its newline, the full sidecar, the messages+runs sidecar) while frames are appended effect by effect, a process death after any number of effects, reopening the log, and the first write after the restart: for EVERY history of acknowledged appends, EVERY further append (small or larger than the writer's buffer, message or not), EVERY crash point and EVERY number of further appends the log replays and is numbered 0,1,2,… without gap or duplicate, every acknowledged append is still where it was, the interrupted append is there at most once, and from the first further append on the thread's sidecar equals the log; a crashed disk always extends the disk before it. The statement is proved FALSE without each of the two repairs (duplicate seq from the sidecar's tail; unparseable merged line after a large frame) — regression witnesses. What the restarted authority's caches look like is characterised exactly: until the thread is written again its sidecar is a prefix at most one frame behind; the messages+runs sidecar is correct unless the crash fell between the sidecar line and the messages+runs line of a message frame, in which case exactly that frame is missing for ever (the two gaps are recorded known findings). EventLog::append's body / newline / flush order under its mutex is re-proved on the regenerated effect order. Tied on every run by crash points on the real code: a callback on the named points (cfg rip_verif) between the file-system effects of the log, the seven cache files, index.json and artifact writes copies the on-disk state; (a) plain histories: the raw state at every point, and the state after restart plus three appends, must equal the model's partialAppend / story; (b) mixed workloads (messages incl. frames larger than the writer buffer, runs, cursor updates, manual and automatic checkpoints with artifacts, branch, handoff, context compile) reopened at every point: validated replay, numbering, acknowledged bytes a prefix, further appends on every thread, and the C04 comparison (caches as found vs removed) before and after them. Two defects found and repaired. Plain histories contain run ends as well as messages (both kinds of frame of the messages+runs sidecar); the recovered messages+runs sidecar is also looked at directly: below its last seq it has no hole, except at the crash points of the recorded finding.",
        "level_note": "Lean kernel; crash = process death between system calls (tearing inside one write, and power loss reordering writes, are outside the model); the model has one thread and two of the seven cache files (the others follow the same two patterns and are covered by the crash-point run); artifacts, index.json and snapshots are covered by the crash-point run only (temp-file + rename).",
        "technique": "Lean 4 proof (case analysis over crash points, induction over histories and further appends; decide-checked counterexamples for the unrepaired code) + decide over the regenerated log-append order + crash-point snapshots on the real code with disk-state correspondence and recovery oracles",
        "design_ref": "§5 C05",
        "trusted_base": COMMON_TB + [
            "hooks: crash points log.* / cache.* / index.* / artifact.* and store.* (cfg rip_verif); the harness's directory copy at a point is the crash state",
            "translator ripx (syn): effect order of EventLog::append",
        ],
        "assumptions": [
            "process death between system calls; the OS keeps completed writes",
            "known findings: caches one frame behind between the restart and the thread's first write; derived caches one frame short for ever after a crash between the cache files of one append (known_findings.json)",
        ],
        "gen": ["EffectOrder", "LogEffects"],
    },
    "C06": {
        "level_text": "Lean 4 theorems over a two-actor transition system (producer emitting n frames with a micro-program over lock / publish / record / unlock; subscriber doing subscribe, then snapshot under the same lock, then history ++ live filtered by seq): for each join-safe emit order, every n and EVERY interleaving, the subscriber delivers 0..n-1 exactly once in order; the producer is independent of subscribers; the snapshot is never blocked forever. The emit orders and handler orders are REGENERATED from the current source by the translator ripx on every run, and the obligations 'the session emitter / task emitter / every continuity append has a join-safe shape' and 'every handler subscribes before its snapshot' are re-proved by decide on the regenerated tables. Tied further by controlled-schedule correspondence: the real emitters and the real GET .../events handlers are single-stepped through yield points (cfg rip_verif) for every (subscribe, snapshot) position on short streams and random schedules on longer ones, all three stream kinds; delivered seqs must equal the model's and the observed point trace must match the generated order. A subscriber lagging more than the channel capacity loses frames: recorded known finding. A second LTS (Rip.Model.Rebuild) covers readers that fall back from an unreadable sidecar to the log and rewrite the sidecar while appenders append: with the rewrite under the seq lock no broadcast frame is ever missing from a readable sidecar, for every number of processes and every schedule (the witness for the code as it was is replayed on the real store each run); its tie is the regenerated order of replay_events / its helper, the regenerated list of functions that call rebuild_best_effort, and the scheduled reader-rebuild race on the real store. A subscriber of one thread is also watched while a neighbour thread of the same store (same broadcast channel, its own seq space) appends frames with higher seqs.",
        "level_note": "Lean kernel; tokio broadcast (FIFO delivery to receivers subscribed at send time) and tokio Mutex are modelled, not verified; the model's channel is unbounded (capacity is the known finding); ripx is trusted to report the order of the effect calls it recognises (cross-checked dynamically against the yield-point trace on every run).",
        "technique": "Lean 4 proof (inductive invariant over all interleavings) + decide over regenerated effect-order tables + controlled-schedule correspondence",
        "design_ref": "§5 C06",
        "trusted_base": COMMON_TB + [
            "translator ripx (syn): effect-order extraction for emit_event, TaskEmitter::emit, the 11 continuity append functions and the 3 SSE handlers; fails closed",
            "modelled, not verified: tokio::sync::broadcast semantics, tokio::sync::Mutex",
            "hooks: yield points emit.lock/emit.publish/emit.record, store.*, sse.subscribe/sse.snapshot; VerifApp export",
        ],
        "assumptions": [
            "the subscriber does not lag more than the broadcast channel capacity (16 384 frames) — violated executions are the known finding C06|lag>capacity",
            "no preemption inside one effect call",
        ],
        "gen": ["EffectOrder", "Consts", "CallGraph"],
    },
    "C07": {
        "level_text": "Lean 4 theorems over an executable model of everything one run writes (thread_post_message, run_session, the agent loop) as a function of the environment's behaviour — input kind (prompt, tool envelope, checkpoint envelope), provider configured or not, context compilation succeeding or failing, any number of provider turns each streaming any number of frames and making the loop run any tools (mutating or read-only, barred or not, any amount of output), any end reason, cursor or none: for EVERY such behaviour the thread's view of an attached run is message, run_spawned, [selection decided, context compiled], side-effects*, [cursor], run_ended (the acceptor is proved to decide exactly this language), with exactly one of message / run_spawned / run_ended; run_ended is the last frame and directly follows the run's own terminal session frame; the session stream starts with its start frame and has exactly one end frame, last; an unattached session writes nothing on any thread; for parallel runs on one thread every interleaving keeps each run's lifecycle. Obligations re-proved by decide on effect orders REGENERATED from the current source on every run: run_session performs selection, compilation, the loop, the cursor update, the snapshot and run_ended once each in that order, run_ended after every frame emission, with NO early exit in its body (single exit path); thread_post_message appends message, run_spawned, then spawns; side-effects frames directly follow the tool's frames inside the permit. Tied further by end-to-end correspondence: real runs through the HTTP router against a scripted loopback provider that misbehaves in every listed way (HTTP errors, dropped connection, cut at a random byte, empty body, missing [DONE], malformed JSON, schema-invalid events, invalid UTF-8) with all input kinds and tool outcomes, sequential and parallel on one thread; each run is abstracted from its session frames, the model predicts the exact position of every thread frame among them, and independent oracles check grammar, seq numbering, counts, reasons and job end counts on the log.",
        "level_note": "Lean kernel; the kernel hook engine is assumed empty (ripd registers no session hooks; an aborting hook would end a session before its start frame); cancellation and panics inside a run are outside the model; the correspondence derives the run's abstraction from its own session frames, so it validates the placement of thread frames relative to session frames, not the session frames themselves (those are checked by the oracles).",
        "technique": "Lean 4 proof (trace model, regular-language acceptor proved exact) + decide over regenerated effect orders and early-exit counts + end-to-end correspondence with a misbehaving scripted provider",
        "design_ref": "§5 C07",
        "trusted_base": COMMON_TB + [
            "translator ripx (syn): effect orders of run_session / agent loop / thread_post_message incl. lifecycle appends, early-exit count (return and ? outside closures)",
            "harness: scripted loopback provider (std TcpListener), abstraction of a run from its session frames",
        ],
        "assumptions": [
            "no kernel session hooks are registered; runs are not cancelled and do not panic",
            "log-append I/O errors do not occur (a failed run_spawned append after the message append would leave a message without a run)",
        ],
        "gen": ["EffectOrder"],
    },
    "C08": {
        "level_text": "Lean 4 theorems over an executable model of what compile_context_bundle_for_run computes from a thread's frames (cut point, recent messages with the reply of the run that answered each, summary checkpoints selected by halving, strategy, logged decision): for EVERY history — the selected messages are exactly the most recent ones in range (a suffix of the in-range messages, min(limit, available) of them, oldest first, all after the selected summary and at or before the cut); the cut point is the frame before the next message after the triggering message, or the head; the summary references are at most three cumulative checkpoints, ascending, halving, latest frame per to_seq, ending at the latest; the messages+runs projection and any suffix window holding enough (or all) in-range messages give the same bundle as the whole thread (which internal read path supplied the frames does not matter). Frames appended after a fixed cut point: the FULL statement is proved for the repaired semantics and proved FALSE of the code as it is (a checkpoint frame appended after the cut is eligible when its to_seq is at or before it; checked witness, recorded known finding), with the exact partial statement proved for the code as it is. Tied by correspondence on every run: thread histories written frame by frame into a real log (messages, runs with session streams, reply text and snapshots, cumulative and legacy checkpoints of any to_seq, side-effect / cursor / job frames), the real run-time compile entry point (cfg-exported) evaluated with no caches, rebuilt caches, random cache files removed, the messages+runs sidecar damaged at its end, the checkpoint sidecar and index overwritten, after later appends, under a racing writer and while another frame's append is in flight (writer parked between body and newline; body cut at a random byte), every result compared with the model on the truth frames and with each other; threads of up to 700 frames with UUID-shaped ids so that every internal read path is taken — the evidence counts, per run, how many compile inputs came from the tail scan, the windowed reads (within / across a seek-index stride) and full replay. Defects found and repaired: without the full sidecar the cut point was taken from the messages+runs sidecar's last seq; a reader racing an append made EventLog::replay fail and the bundle lose its reply texts (a frame whose append is in flight is invisible: theorem inflight_frame_invisible).",
        "level_note": "Lean kernel; ids, contents and texts are numbers in the model; reply aggregation (snapshot, else session replay) is an oracle function of the model — a stale-but-well-formed snapshot is a cache fault covered under C04; bundle serialisation, artifact writing and the provider item rendering are glue covered only by the correspondence run; the tail-window byte budgets are not in this model (C04).",
        "technique": "Lean 4 proof (list lemmas: suffix/prefix independence, halving hierarchy; decide-checked counterexample) + differential correspondence with the real compile entry point across cache states, later appends and a racing writer",
        "design_ref": "§5 C08",
        "trusted_base": COMMON_TB + [
            "hooks: ripd::verif_export::session::compile_for_run (the crate-private compile entry point)",
            "harness: raw history writer through rip_log::EventLog::append with rip_kernel event types",
        ],
        "assumptions": [
            "thread streams are valid (frame i carries seq i: C01) and event ids are unique",
            "known finding: a compaction checkpoint appended after the cut point changes the result (known_findings.json); an existing test asserts that behaviour",
        ],
        "gen": [],
    },
    "C09": {
        "level_text": "Lean 4 theorems over an executable model of cut points, planning, the auto job and the scheduler decision as functions of the thread's truth frames: cut points are exactly the k*stride-th messages (seq and id of that message), the latest multiples first, at most clamp(limit,1,32); a cut point is checkpointed exactly when a checkpoint frame for that seq exists, the latest by stream order winning; non-message frames do not move cut points; the plan is the unchecked cut points among the latest 32, capped; an auto run creates precisely the planned checkpoints in sorted order between exactly one job-spawned and one job-ended frame, continuing the numbering; with nothing to do or as a dry run it appends nothing; after a run every planned cut is checkpointed; scheduler: silent on noop/dry run, one decision frame when a job is in flight, job-spawned then decision otherwise. Tied to the code by differential correspondence: random histories (messages interleaved with other frames, manual checkpoints on and off boundaries, jobs left in flight) x operation sequences with stride / limit / max_new in {None,0,1,2,3,7,32,33,10000} and all boolean flags, responses (message count, every cut point field, planned list, decision/status) and the kinds/seqs/to_seq of appended frames compared with the compiled model; plus model-free oracles: a cut point is reported checkpointed exactly when a checkpoint frame for that seq exists (latest wins); with every cut point checkpointed a repeated run appends nothing; summaries readable with matching coverage (also for a summary handed in to a manual checkpoint); a summarizer job that fails midway (unwritable artifact store) is bracketed by one spawned and one ended frame and no checkpoint references a summary that was never stored; manual checkpoints only on message boundaries; the same job on two byte-copies of a store writes the same summary text. auto_schedule is judged like auto: with every cut point of the stride checkpointed (decided from the log before the call) nothing is appended, whatever unfinished job the thread holds.",
        "level_note": "Lean kernel; the summary renderer is treated as a deterministic function and checked by the two-copies oracle (artifact ids minted during a run are canonicalised by position); the in-flight scan is modelled over the whole thread (the code scans a 512-frame tail; histories stay below it); cache fast paths inside cut_points are the subject of C04.",
        "technique": "Lean 4 proof (arithmetic on ordinals, fold invariants, sort/permutation lemmas) + differential correspondence check",
        "design_ref": "§5 C09",
        "trusted_base": COMMON_TB + [
            "modelled, not verified: replay_events returns the thread's frames in order (C03/C04); artifact store writes succeed",
        ],
        "assumptions": [
            "threads shorter than the 512-frame in-flight scan window in the correspondence run",
            "concurrent schedule/auto calls are serialised by the store's append lock (C01); the model is sequential",
        ],
        "gen": [],
    },
    "C10": {
        "level_text": "Lean 4 theorems over an executable model of the cut resolution shared by branch and handoff and of their effect on the truth log: the recorded cut lies within the source thread as it was; from_seq names the last message at or before it; no selector means the head and the last message; from_message_id names the requested message and covers every run-spawned / run-ended frame that refers to it; both selectors / out of range / unknown id / id of a non-message frame / unknown thread are refused; on success exactly two frames are appended, none on the source (or any other existing) thread, the new thread is [creation@0, lineage@1]; a successful handoff always carries a resolvable summary. Tied to the code by differential correspondence: random source histories x every selector shape x {branch, handoff with markdown / existing / missing / malformed artifact id / neither} through the real ContinuityStore — one case in three through the HTTP layer (payload parsing, defaults, status mapping: the model's error class decides the expected status) —, result and error class compared with the compiled model; plus implementation oracles on the log bytes (previous content is a prefix; source thread frames unchanged; child prefix; recorded artifact exists; a cut requested by message id is not before the end of a run that answered it, also with overlapping turns; a failed call appends nothing).",
        "level_note": "Lean kernel; the artifact store is an abstract predicate (existence of a blob); UUIDs canonicalised by first occurrence; the creation race (a client addressing the child between its creation frame and its lineage frame) is the subject of C01, not of this sequential model.",
        "technique": "Lean 4 proof (decision logic stated outright; list induction) + differential correspondence check",
        "design_ref": "§5 C10",
        "trusted_base": COMMON_TB + [
            "modelled, not verified: replay_events returns the thread's frames in log order (C03/C04)",
        ],
        "assumptions": [
            "frames of the source thread are numbered 0,1,2,... (C01) for the range and last-message statements",
            "no I/O error while writing the handoff bundle (a failure after the child's creation frame would leave a one-frame thread)",
        ],
        "gen": [],
    },
    "C11": {
        "level_text": "Lean 4 theorems over a labelled transition system of the workspace permit (any number of sessions, agent loops and background tasks; programs of mutating calls — with or without a runner timeout, attached to a thread or not — and read-only calls; one transition = acquire / effect begins / effect ends / runner timeout / frames emitted / side-effects frame / release): for EVERY program set and EVERY interleaving at most one mutation is in progress at any instant (the accounting is proved exact, not under-reported), the side-effects frames are always a prefix of, and finally equal to, the order the mutations really began in, one frame per call, logged after the effect and before release; no deadlock. The statement is proved FALSE of the protocol before the repair (a timed-out command outlived its permit; witness kept) and TRUE once the timeout kills the command. Obligations re-proved by decide on tables REGENERATED from the current source on every run: in run_session and the agent loop every tool execution is inside the permit or in the no-lock arm of the requires_workspace_lock decision, the side-effects append is inside the same critical section after the tool's frames; run_task runs its process under the permit; the exempt tools are exactly a subset of read / ls / grep / artifact_fetch. Tied further by a real-concurrency implementation oracle: sessions (bash, write, apply_patch, checkpoint, timed-out bash, read-only) and tasks run concurrently against one engine; commands stamp begin/end times into the workspace; intervals of mutating actors must be pairwise disjoint and the thread's side-effects frames must be in stamp order, one per attached mutating call.",
        "level_note": "Lean kernel; tokio Semaphore(1) is a mutex (modelled, not verified); process-group kill reaches every descendant that has not left the group (setsid escapes are outside the model); ripx sees tool executions by the calls it knows (tool_runner.run / create_checkpoint / rewind_checkpoint / run_pipes_task / run_pty_task) — a new way to run a tool would be missed statically and is left to the oracle.",
        "technique": "Lean 4 proof (inductive invariant over all interleavings incl. timeouts; decide-checked counterexample for the unrepaired protocol) + decide over regenerated effect orders and lock table + real-concurrency interval oracle",
        "design_ref": "§5 C11",
        "trusted_base": COMMON_TB + [
            "translator ripx (syn): effect orders of run_session, run_openresponses_agent_loop, run_task with branch markers; requires_workspace_lock table; fails closed on compound conditions around the decision",
            "modelled, not verified: tokio::sync::Semaphore, kill(2) on a process group, wall-clock stamps of the oracle (date +%s%N)",
        ],
        "assumptions": [
            "commands do not detach from their process group (setsid/daemonise)",
            "read, ls, grep and artifact_fetch do not modify the workspace (the oracle compares the workspace tree before and after read-only actors)",
        ],
        "gen": ["EffectOrder", "LockTable"],
    },
    "C12": {
        "level_text": "Lean 4 theorems over an executable model of the patch engine (byte-level parser, hunk application, file system with directories, undo list and revert): exactness on success for every workspace state and operation list (result = in-order fold of the operation semantics; changed files = sorted, de-duplicated named files), parser totality and path confinement, hunk locality; text updates keep the line-ending style and the trailing newline (re-reading the written text gives the result lines and the original's trailing flag; CRLF occurs in the output iff it did in the original; untouched uniformly terminated text is reproduced byte for byte — the one boundary, a bare CR at the very end of a text, is stated and witnessed); all-or-nothing on failure via the undo invariant (theorem `atomic`, see evidence for whether it is included in this build). Tied to the code by differential correspondence: the same (workspace, patch document) pairs run through rip-workspace in a scratch directory and through the compiled model, full tree (files, bytes, directories), result and error class compared; plus implementation oracles for all-or-nothing, changed-files, in-order hunk application, and line-ending style / trailing newline of updated LF and CRLF files.",
        "level_note": "Lean kernel; model hand-written, validated by the correspondence check; std::fs semantics (exists/read/write/create_dir_all/remove_file/rename on files vs directories, trailing-slash spellings) are modelled, not verified; symlinks, I/O errors during rollback and concurrent external writers are outside the model.",
        "technique": "Lean 4 proof (refinement to in-order fold; undo-list invariant) + differential correspondence check",
        "design_ref": "§5 C12",
        "trusted_base": COMMON_TB + [
            "modelled, not verified: std::fs behaviour on files vs directories (exists, read, write, create_dir_all, remove_file, rename, trailing-slash paths), str::lines/trim, Path::components (Unix)",
            "not modelled: symlinks, permission/disk errors, the JSON envelope of the apply_patch tool",
        ],
        "assumptions": [
            "no I/O error occurs during rollback other than the ones the model represents (write onto a directory, missing parent)",
            "the workspace is not modified by another process during apply_patch (C11 provides the lock)",
        ],
        "gen": [],
    },
    "C13": {
        "level_text": "Lean 4 theorems over a model of the lexical path checks (file-tool / task resolver, patch path parser, checkpoint to_relative) AND, independently, of how the kernel walks a path string (osWalk: '..' pops, '.' and empty skip): for every byte string, an accepted path walked from the root stays below the root; absolute strings and strings with a '..' segment are refused; accepted checkpoint paths keep no '..' after the root is stripped. Tied to the code by correspondence: Path::components / is_absolute vs the model on generated strings, and the accept/refuse decision of every entry point (read, write atomic/plain, ls, grep, bash cwd, apply_patch, checkpoint create, create+rewind) vs the model; plus implementation oracles on a sentinel tree: nothing outside the root created/modified/deleted, a refused request leaves the workspace and the checkpoint store untouched, and read/ls/grep answer identically when only files outside the root (incl. ancestor .ignore/.gitignore, global gitignore) differ; process cwd = root and != root.",
        "level_note": "Lean kernel; std::path::Path::components modelled (Unix) and diff-tested every run; the kernel's path walk is modelled without symlinks; what each tool does with an accepted path is covered by the sentinel oracles, not by a theorem; task cwd (ripd tasks) shares the same resolver code shape and is exercised by the C17 harness.",
        "technique": "Lean 4 proof (lexical check vs kernel path walk, all byte strings) + differential correspondence + sentinel-tree oracles",
        "design_ref": "§5 C13",
        "trusted_base": COMMON_TB + [
            "modelled, not verified: Path::components/is_absolute/strip_prefix (Unix), the kernel's resolution of '.', '..', '//' (no symlinks)",
            "oracle-only (no theorem): the effects of each tool on an accepted path; ignore-file lookup of the `ignore` crate",
        ],
        "assumptions": [
            "no symlinks inside the workspace (follow_symlinks defaults to false; symlinked directories are outside the model)",
            "checkpoint creation accepts absolute paths that lie inside the root (the repository's own tests require it); the claim for it is confinement, not refusal",
        ],
        "gen": [],
    },
    "C14": {
        "level_text": "Lean 4 theorems over an executable model of create_checkpoint / rewind_to_checkpoint on the C12 file-system model: a checkpoint records exactly the content at checkpoint time; a successful rewind from ANY later state restores every covered path (bytes or absence); rewind never touches an uncovered path; a failed rewind leaves every file as it was (pre-read, apply, rollback phases; undo-map invariant); a patch changes no file other than those it names, so the automatic checkpoint covers every file the tool can change. Tied to the code by differential correspondence: random workspaces x histories of checkpoints (relative/absolute/aliased/escaping paths), forced edits incl. file<->directory flips, and rewinds in any order, under process cwd = root and != root, full tree compared; plus tool-level oracles through the real ToolRunner + WorkspaceCheckpointHook: an automatic checkpoint precedes write/apply_patch and rewinding it restores the whole tree.",
        "level_note": "Lean kernel; std::fs semantics modelled as in C12; checkpoint metadata JSON and blob storage under .rip/checkpoints are not modelled (the stored bytes are taken to be what was read); rollback order of the real BTreeMap vs list order is immaterial by the untouched-path lemmas and is covered by the correspondence run.",
        "technique": "Lean 4 proof (algebraic law on the file-system model; undo-map invariant) + differential correspondence check + tool-level oracles",
        "design_ref": "§5 C14",
        "trusted_base": COMMON_TB + [
            "modelled, not verified: std::fs on files vs directories, Path::strip_prefix, serde round trip of checkpoint.json",
            "hook: ripd::verif_export::WorkspaceCheckpointHook (re-export of the real hook)",
        ],
        "assumptions": [
            "no I/O errors other than the modelled ones; no symlinks; no concurrent writer (C11)",
            "checkpoint blobs under .rip/checkpoints are not tampered with between create and rewind",
        ],
        "gen": [],
    },
    "C15": {
        "level_text": "Lean 4 theorems over an executable model of the provider byte pipe (UTF-8 carry buffer with U+FFFD replacement as Rust's from_utf8 reports errors, line-based SSE decoder, frame mapper, stop-at-[DONE] read loop): the SSE decoder is chunk-invariant at string level for every partition; exactly one provider frame per event with the payload unchanged; output text = concatenation of deltas; numbering contiguous for every body and chunking; byte-level chunk invariance of the whole pipe (theorem bytes_chunk_invariant, see evidence for whether this build includes it). Tied to the code by differential correspondence: bodies from an SSE grammar incl. invalid UTF-8 x partitions (one chunk, byte-at-a-time, every single split, random) through the real OpenResponsesSsePipe (exported under cfg rip_verif) and through the compiled model; plus unit correspondence for from_utf8 (valid_up_to, error_len) and SseDecoder; plus implementation oracles (chunking invariance against the one-chunk run, seq contiguity, derived text).",
        "level_note": "Lean kernel; JSON parsing and delta extraction are an uninterpreted function evaluated by serde_json on both sides; reqwest/hyper chunk delivery = any partition of the body; the read loop of stream_openresponses_request is mirrored by the exported pipe_feed (the real loop is exercised end to end by C07/C16 scenarios).",
        "technique": "Lean 4 proof (induction over chunks; numbering invariant) + differential correspondence check",
        "design_ref": "§5 C15",
        "trusted_base": COMMON_TB + [
            "modelled, not verified: core::str::from_utf8 error reporting (re-modelled and diff-tested on every run), str::trim/trim_start, String::split",
            "uninterpreted: serde_json parsing of the data payload, schema validation errors (not compared)",
            "hook: ripd::verif_export::session::pipe_feed mirrors the read loop of stream_openresponses_request",
        ],
        "assumptions": [
            "the network delivers the body as some partition into chunks, in order, without loss",
            "schema-validation error lists inside provider_event frames are not part of the comparison",
        ],
        "gen": [],
    },
    "C16": {
        "level_text": "Lean 4 theorems over an executable model of ToolCallCollector, ToolChoiceEnforcement and the request/answer bookkeeping of run_openresponses_agent_loop: for EVERY provider script (any number, order and interleaving of function-call items, argument deltas and done events; missing, empty and duplicate ids; arbitrary output indexes; failed streams), every tool_choice form, both history modes, every bound and every validation oracle — one provider event yields at most one call and only a function-call done event yields one; a done call naming its id and function is never lost in any reachable collector state; calls reach the loop stably sorted by output index; the next request's input is exactly one answer per call of the turn, by call id, in that order (and in stateless mode is the previous input extended by the calls and their answers: every input is a prefix of the next); each call of a turn is run or rejected exactly once (a prefix of them in the last turn); a tool excluded by the tool choice (separately stated specification) never runs; run + rejected calls never exceed the bound; a request failing validation is never sent. Obligations re-proved by decide on tables REGENERATED from the current source on every run: in the agent loop no tool runs in the barred arm of the tool-choice decision; the validation gate precedes the only HTTP send; the bound is the source's DEFAULT_MAX_TOOL_CALLS (the model and its driver take it from the regenerated constant). Tied further by (1) unit correspondence of the real collector and the real enforcement against the model on random event sequences and tool_choice JSON values, and (2) end-to-end correspondence: a real SessionEngine against a scripted loopback provider — the request bodies the provider received, tool frames, rejections and end reason must equal the model's run on the same script; plus implementation oracles (input prefix chain, barred tools and their side effects, bound, invalid config never sent, answers vs tool frames). One defect found and repaired: in stateless mode the follow-up user message was not kept in the history (fix: commit).",
        "level_note": "Lean kernel; strings are numbers and argument text is a list of chunks in the model (the harness interns them; concatenation = append); JSON parsing of event payloads is glue covered only by the correspondence run; the schema validator itself is an oracle of the model (its verdict is observed: an invalid tool_choice, an empty call id); tool execution outcomes do not influence the bookkeeping (outputs are opaque).",
        "technique": "Lean 4 proof (loop invariant over all provider scripts; stable-sort and collector lemmas; separately stated exclusion spec) + decide over regenerated effect orders/constant + unit and end-to-end differential correspondence with a scripted provider",
        "design_ref": "§5 C16",
        "trusted_base": COMMON_TB + [
            "translator ripx (syn): agent-loop effect order with tool-choice branch markers, validation gate / send order, DEFAULT_MAX_TOOL_CALLS",
            "hooks: ripd::verif_export::session::{collector_run, tool_choice_allows}, ripd::verif_export::OpenResponsesConfig",
            "harness: scripted loopback provider; syntactic reading of tool_choice JSON into the model's ToolChoice",
        ],
        "assumptions": [
            "when the bound is reached the run ends: calls already run in that turn are not answered (no further request is sent) — the property's 'answered in the very next request' is proved for every turn that has a next request",
            "hosted-tool tool_choice forms (file_search, web_search, …) are treated as 'all functions allowed' by the code and are outside the property's list",
        ],
        "gen": ["EffectOrder", "Consts", "LockTable"],
    },
    "C17": {
        "level_text": "Lean 4 theorems over executable models of (a) the task log writer, the shell tool's capture_stream, and page reads: stored log = prefix of the output up to the cap for every chunking and cap; ranges consecutive and tiling; each range names its chunk; shell preview and spill artifact are prefixes within their limits and the artifact exists whenever needed; any page walk reassembles the stored bytes; and (b) a labelled transition system of one task (main task, stdout pump, stderr pump, client cancellation at any moment, atomic emits): under EVERY schedule the recorded stream is a well-formed lifecycle prefix, complete once the task finished, with nothing after the terminal status and all output before it. Tied to the code by correspondence: scripted chunk sequences through the real TaskLogWriter / read_artifact_range / capture_stream / truncate_utf8 (exported under cfg rip_verif) vs the compiled model; real background tasks through the HTTP router (interleaved stdout/stderr, split multi-byte, binary, 40 KB, exit codes, cancel at a random moment, invalid args, bad cwd, preview 0/2, cap 5) whose recorded frames must be accepted by the Lean lifecycle automaton and whose frame ranges / page walks / artifact hashes are checked by oracles. One task per run is left uncancelled while a descendant that inherited its pipes writes seconds after the shell has exited; the log is read again well after the terminal status.",
        "level_note": "Lean kernel; SHA-256 not modelled (hash recomputed by the harness); lossy UTF-8 decoding of page/preview text is applied by Rust on both sides; OS pipe chunking is whatever the kernel delivers (the theorems hold for every chunking); PTY tasks share the emitter and lifecycle shape but are not run here (no PTY in the sandbox).",
        "technique": "Lean 4 proof (fold invariants over all chunkings; inductive invariant over all interleavings) + differential correspondence check + oracles on real tasks",
        "design_ref": "§5 C17",
        "trusted_base": COMMON_TB + [
            "modelled, not verified: tokio file writes complete in order; emitter mutex makes each emit atomic; from_utf8 model (diff-tested in C15)",
            "hooks: ripd::verif_export::tasks::{log_writer_feed, read_range, truncate_utf8}, rip_tools::verif_capture_stream, ripd::verif_export::build_app",
        ],
        "assumptions": [
            "the harness waits for tokio's background file writes to complete before reading a log (a reader racing the last write may see a shorter file for a moment)",
            "text exactness of page walks is claimed for stored output that is valid UTF-8 and pages of at least 4 bytes; binary output is compared on byte counts only",
        ],
        "gen": [],
    },
    "C18": {
        "level_text": "Lean 4 theorems over a labelled transition system of the authority lock protocol (one transition = one file-system call of try_acquire / stale cleanup / corrupt cleanup / Drop, any number of contenders, crashes and releases at any point, every leftover state of a crashed authority): the full mutual-exclusion statement is proved FALSE of the protocol as implemented (witness schedule, by decide) — the cleanup functions re-read/check lock.json and rename it in two separate calls — and proved TRUE under every schedule when those two calls are one step (mutex_partial, never_steals_partial, recovery removes only files of dead processes); recovery from every leftover state is proved for the protocol as implemented. Tied to the code by schedule correspondence: real contender threads running the real functions are single-stepped through yield points (cfg rip_verif) between the file-system calls, and after every step lock/meta state, each contender's position and the number of authorities must equal the Lean LTS's; the witness schedule is replayed on the real functions on every run. The two-authorities executions are a recorded known finding (signatures name the window), not repaired. Step-level theorems for the endpoint file: the meta step of the stale cleanup keeps a meta.json that carries any other pid than the one the cleanup was entered for, and no other cleanup step touches meta.json; the guard `meta.pid == expected_pid` around every rename / removal of meta_path is re-decided on the regenerated source. A three-party scenario on the real functions (recoverer parked at each yield point of the cleanup while a newcomer becomes the authority and publishes its endpoint) checks that a live authority keeps its lock.json and meta.json.",
        "level_note": "Lean kernel; process liveness kill(pid,0) is an oracle of the model (pid reuse excluded); contenders are threads of one process in the correspondence run (crash transitions exist only in the model); the 1 s grace period before corrupt-lock cleanup is modelled as 'the creator is not about to finish writing'; the HTTP ping of the recovery loops is not modelled (endpoint unreachable); the LTS has no step for a holder PUBLISHING its endpoint file, so what happens to a live authority's meta.json is carried by step-level theorems, a regenerated guard obligation and a scripted three-party scenario, not by the schedule correspondence.",
        "technique": "Lean 4 proof (inductive invariant over all interleavings; decide-checked counterexample for the full statement) + controlled-schedule correspondence on the real functions",
        "design_ref": "§5 C18",
        "trusted_base": COMMON_TB + [
            "modelled, not verified: create_new / rename / remove_file are atomic; a write goes to the file the handle was opened on",
            "hooks: rip_kernel::verif::point calls between the file-system calls of local_authority.rs; controlled scheduler of the harness (one worker runs at a time)",
        ],
        "assumptions": [
            "no PID reuse; no preemption inside a single file-system call",
            "known finding: two authorities through the re-read/rename gap of stale cleanup and the check/rename gap of corrupt cleanup (known_findings.json)",
        ],
        "gen": ["AuthRecovery"],
    },
    "C19": {
        "level_text": "Lean 4 non-interference theorems over an executable model of layered provider configuration (global, custom, project layers deep-merged; inline keys and environment references; the three fallback environment variables; custom headers; per-request overrides), its resolution, the diagnostics summary, what a run records about its provider, and what is attached to the outgoing request: for EVERY layer stack, environment and override, renaming all secret values by ANY blank-preserving function leaves diagnostics and recordings unchanged (two-run form included), while the wire carries exactly the renamed secrets; diagnostics report presence exactly when a key goes on the wire; a resolved key is never blank; the blank-preservation hypothesis is shown necessary. Obligation re-proved by decide on a table REGENERATED from the current source on every run: the only functions outside test modules that read a secret-bearing field (.api_key, .headers) are the resolver, the doctor handler, the override plumbing and the function that sends the request. Tied further by correspondence and a canary search on every run: random layer stacks (4 layers, JSON/JSONC), environments and overrides with planted unique canary secrets; GET /config/doctor and the headers a scripted provider actually received must equal the model's doctor / wire; then every file the authority wrote (log, snapshots, artifacts incl. request dumps, caches, checkpoints), every HTTP/SSE response and the process's own stdout/stderr (cases run in a child process) are searched for the canaries, across success, failing tool, HTTP error echoing the request body, dropped connection and junk events, with request dumping on and off.",
        "level_note": "Lean kernel; strings are numbers in the model and URL substring tests are flags; JSONC parsing and JSON deep merge are modelled at the level of providers/fields/headers (validated by the correspondence run); a provider that echoes request HEADERS back in an error body, or a tool command that prints the process environment, would put a secret into frames — both are outside the property's quantifier and outside the model; rip-cli's own output is not covered (the authority is exercised in-process through its router).",
        "technique": "Lean 4 proof (non-interference by renaming; layered-merge commutation) + decide over regenerated secret-reader table + differential correspondence of diagnostics and wire headers + canary search over all outputs",
        "design_ref": "§5 C19",
        "trusted_base": COMMON_TB + [
            "translator ripx (syn): readers of .api_key/.headers outside test modules in config.rs, server.rs, session.rs, provider_openresponses.rs, runner.rs, openresponses_observability.rs",
            "harness: scripted loopback provider recording request headers; process environment set per case (single-threaded between cases); child process for stdout/stderr capture",
        ],
        "assumptions": [
            "secrets are the api key values and custom header values (not endpoint URLs, env variable names or header names, which diagnostics legitimately show)",
            "the provider does not echo request headers; tools do not print the process environment",
        ],
        "gen": ["SecretReaders"],
    },
    "C20": {
        "level_text": "Lean 4 theorems over an executable model of FrameStore and the TuiState::update fold: frame/output/preview bounds for every frame sequence and capacity, truncation cut on a char boundary, lookup-by-seq sound for every store state and complete on consecutive stores; the model is tied to the code by a differential correspondence run (same frame sequences through rip-tui and the compiled model) plus implementation oracles (bounds, determinism, lookup exactness). The drawn surface has no model: every tenth case is rendered off-screen (rip_tui::render on ratatui's TestBackend; 6 view variants x 4 terminal sizes x 2 modes, drawn twice) and must neither panic at 20x6 or larger nor differ between the two draws.",
        "level_note": "Lean kernel; axioms propext/Quot.sound only; model written by hand and validated by the correspondence check; BTreeMap/VecDeque/String modelled as lists; artifact-id extraction, job/context summaries and rendering not modelled.",
        "technique": "Lean 4 proof (invariant over the fold) + differential correspondence check",
        "design_ref": "§5 C20",
        "trusted_base": COMMON_TB + [
            "modelled, not verified: BTreeMap/VecDeque (as association lists / lists), String as UTF-8 byte list, str::is_char_boundary as 'not a continuation byte'",
            "not modelled: artifact-id extraction from JSON payloads, job/context summaries, ratatui rendering, the rip-cli headless renderers (bin-only)",
        ],
        "assumptions": [
            "input.trim().is_empty() of session_started is computed by the harness and passed as a flag",
            "max_preview_bytes is the crate constant 8192 (not configurable through the public API)",
        ],
        "gen": [],
    },
}

# properties not claimed, with the reason (kept current)
NOT_APPLICABLE = {}

# guarded hook commits in /repo
HOOK_COMMITS = [
    "946ef90",  # kernel verif::point, ripd verif_export with SSE pipe feed
    "9d3fe7f",  # export WorkspaceCheckpointHook
    "15272ef",  # task log writer / range reader / capture_stream exports, router constructor
    "8e41b93",  # rustfmt of the hook module
    "2c91275",  # yield points in the authority lock protocol
    "7e7b217",  # yield points in the session/task emitters and SSE handlers; VerifApp
    "74790a5",  # yield points around the continuity append paths
    "e81315d",  # yield point before branch/handoff take the seq lock
    "0546f95",  # VerifApp::engine
    "b161359",  # OpenResponsesConfig, tool-call collector, tool-choice enforcement
    "008b156",  # run-time context compile entry point
    "dd2e088",  # run-linked append helpers
    "9adb383",  # crash points of the append path
    "17947a0",  # read-path markers for the compile input
    "ce397b2",  # yield point before a reader rewrites the continuity sidecar
    "3123f67",  # export of the full-sidecar window read
]
