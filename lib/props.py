"""Per-property configuration of the check driver."""

COMMON_TB = [
    "Lean 4.33.0 kernel (lake build); axioms allowed in property theorems: propext, Classical.choice, Quot.sound",
    "correspondence harness rvh (Rust, /verif/harness): generators, canonicalisers, oracles; SplitMix64 seeded by VERIF_SEED",
    "line protocol + model driver ripmodel (Lean, compiled natively from the same definitions the theorems are about)",
    "check driver (Python 3 stdlib)",
]

PROPS = {
    "C20": {
        "trusted_base": COMMON_TB + [
            "modelled, not verified: BTreeMap/VecDeque (as association lists / lists), String as UTF-8 byte list, str::is_char_boundary as 'not a continuation byte'",
            "not modelled: artifact-id extraction from JSON payloads, job/context summaries, ratatui rendering, the rip-cli headless renderers (bin-only)",
        ],
        "assumptions": [
            "input.trim().is_empty() of session_started is computed by the harness and passed as a flag",
            "max_preview_bytes is the crate constant 8192 (not configurable through the public API)",
        ],
        "gen": [],
    },
}
