import Rip.Model.Proto
import Rip.Model.Frames
