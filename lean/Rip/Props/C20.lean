/-
C20 — surfaces are total, bounded, deterministic folds over the frame stream.
Property theorems only; helper lemmas live in Rip/Lemmas/Frames.lean.
The model functions are total Lean functions (totality of the fold), the real
code's only partial operations on this path are the two string slices, covered
by `slice_on_boundary`.
-/
import Rip.Lemmas.Frames
namespace Rip.Props.C20
open Rip.Proto Rip.Frames

/-- Frame memory: after any frame sequence the store holds at most `max(max_frames,1)` frames. -/
theorem len_bounded (maxFrames maxOut maxPrev : Nat) (fs : List Frame) :
    ((Tui.new maxFrames maxOut maxPrev).run fs).frames.frames.length ≤ max maxFrames 1 := by
  have h := Tui.inv_run _ fs (Tui.inv_new maxFrames maxOut maxPrev)
  have c := Tui.cfg_run (Tui.new maxFrames maxOut maxPrev) fs
  have := h.frames_le
  rw [c.cap] at this
  simpa [Tui.new, FrameStore.new] using this

/-- Output buffer: never longer than `max(max_output_bytes,1)` bytes. -/
theorem output_bounded (maxFrames maxOut maxPrev : Nat) (fs : List Frame) :
    ((Tui.new maxFrames maxOut maxPrev).run fs).output.length ≤ max maxOut 1 := by
  have h := Tui.inv_run _ fs (Tui.inv_new maxFrames maxOut maxPrev)
  have c := Tui.cfg_run (Tui.new maxFrames maxOut maxPrev) fs
  have := h.out_le
  rw [c.maxOut] at this
  simpa [Tui.new] using this

/-- Every tool and task preview stays within the preview limit. -/
theorem preview_bounded (maxFrames maxOut maxPrev : Nat) (fs : List Frame) :
    let t := (Tui.new maxFrames maxOut maxPrev).run fs
    (∀ x ∈ t.tools, x.out.length ≤ maxPrev ∧ x.err.length ≤ maxPrev) ∧
    (∀ x ∈ t.tasks, x.out.length ≤ maxPrev ∧ x.err.length ≤ maxPrev ∧ x.pty.length ≤ maxPrev) := by
  have h := Tui.inv_run _ fs (Tui.inv_new maxFrames maxOut maxPrev)
  have c := Tui.cfg_run (Tui.new maxFrames maxOut maxPrev) fs
  have h1 := h.tools_le
  have h2 := h.tasks_le
  rw [c.maxPrev] at h1 h2
  exact ⟨by simpa [Tui.new] using h1, by simpa [Tui.new] using h2⟩

/-- The truncation cut lands on a character boundary (or at the end): the slice
`&s[start..]` in `push_output` / `push_preview` cannot panic. -/
theorem slice_on_boundary (s : Bytes) (keep : Nat) :
    let start := advance s (s.length - keep) s.length
    s.length ≤ start ∨ isBoundary s start = true :=
  advance_post s (s.length - keep) s.length (by omega)

/-- Lookup by seq returns a stored frame that carries exactly that seq, or nothing —
for every store state whatsoever (no reachability assumption needed). -/
theorem lookup_exact (s : FrameStore) (q : Nat) (f : Frame) (h : s.getBySeq q = some f) :
    f.seq = q ∧ f ∈ s.frames := by
  unfold FrameStore.getBySeq FrameStore.indexOfSeq at h
  split at h
  · cases h
  · rename_i i hi
    split at hi
    · cases hi
    · rename_i j hj
      split at hi
      · rename_i g hg
        split at hi
        · rename_i hs
          cases hi
          rw [hg] at h
          cases h
          exact ⟨hs, List.mem_of_getElem? hg⟩
        · cases hi
      · cases hi

/-- Same, phrased over everything the TUI can reach. -/
theorem lookup_exact_reachable (a b c : Nat) (fs : List Frame) (q : Nat) (f : Frame)
    (h : ((Tui.new a b c).run fs).frames.getBySeq q = some f) : f.seq = q :=
  (lookup_exact _ q f h).1

/-- Consecutive stores: position `i` holds seq `base + i`. -/
def Consec (s : FrameStore) : Prop := ∀ i (f : Frame), s.frames[i]? = some f → f.seq = s.base + i

/-- On a store with consecutive seqs (the normal single-stream case) the lookup is also complete. -/
theorem lookup_complete (s : FrameStore) (hc : Consec s) (f : Frame) (hf : f ∈ s.frames) :
    ∃ g, s.getBySeq f.seq = some g ∧ g.seq = f.seq := by
  rcases List.getElem?_of_mem hf with ⟨i, hi⟩
  have hs := hc i f hi
  have hlt : i < s.frames.length := by
    rcases List.getElem?_eq_some_iff.mp hi with ⟨h, _⟩; exact h
  refine ⟨f, ?_, rfl⟩
  unfold FrameStore.getBySeq FrameStore.indexOfSeq FrameStore.indexOfSeqRaw
  have h1 : ¬ s.frames.length = 0 := by omega
  have h2 : ¬ f.seq < s.base := by omega
  have h3 : ¬ f.seq - s.base ≥ s.frames.length := by omega
  have h4 : f.seq - s.base = i := by omega
  have h5 : ¬ s.frames.length ≤ i := by omega
  simp [h1, h2, h4, h5, hi]

/-- `Consec` is preserved by pushing the next seq (below the u64 saturation point). -/
theorem consec_push (s : FrameStore) (hc : Consec s) (f : Frame) (hcap : 1 ≤ s.cap)
    (hnext : s.frames ≠ [] → f.seq = s.base + s.frames.length) (hmax : f.seq < u64Max) :
    Consec (s.push f) := by
  intro i g hg
  rw [push_frames] at hg
  by_cases he : s.frames = []
  · have hc0 : ¬ s.cap ≤ 0 := by omega
    have hb : (s.push f).base = f.seq := by simp [FrameStore.push, he, hc0]
    rw [hb]
    simp only [he, List.length_nil, ge_iff_le, hc0, ↓reduceIte, List.nil_append] at hg
    cases i with
    | zero => simp at hg; subst hg; rfl
    | succ n => simp at hg
  · have hn := hnext he
    have hne : s.frames.isEmpty = false := by simpa using he
    have hlen : 0 < s.frames.length := List.length_pos_iff.mpr he
    by_cases hfull : s.frames.length ≥ s.cap
    · have hb : (s.push f).base = s.base + 1 := by
        have : s.base < u64Max := by omega
        simp [FrameStore.push, hne, hfull, satSucc, this]
      rw [hb]
      simp only [hfull, ↓reduceIte] at hg
      rw [List.getElem?_append] at hg
      split at hg
      · rw [List.getElem?_tail] at hg
        have := hc (i + 1) g hg
        omega
      · rename_i hge
        simp only [List.length_tail] at hge hg
        rcases List.getElem?_eq_some_iff.mp hg with ⟨hi, hgi⟩
        simp at hi
        have : g = f := by simp at hgi; exact hgi.symm
        subst this
        omega
    · have hb : (s.push f).base = s.base := by
        simp [FrameStore.push, hne, hfull]
      rw [hb]
      simp only [hfull, ↓reduceIte] at hg
      rw [List.getElem?_append] at hg
      split at hg
      · exact hc i g hg
      · rename_i hge
        rcases List.getElem?_eq_some_iff.mp hg with ⟨hi, hgi⟩
        simp at hi
        have : g = f := by simp at hgi; exact hgi.symm
        subst this
        omega

/-- Determinism: the state is a function of the frame sequence and the capacities alone. -/
theorem deterministic (a b c : Nat) (fs gs : List Frame) (h : fs = gs) :
    (Tui.new a b c).run fs = (Tui.new a b c).run gs := by rw [h]

/-- The fold is compositional: feeding `fs ++ gs` equals feeding `fs` then `gs`
(no hidden state beyond `Tui`). -/
theorem run_append (t : Tui) (fs gs : List Frame) : t.run (fs ++ gs) = (t.run fs).run gs := by
  simp [Tui.run, List.foldl_append]

/-! ### the defect repaired by the `fix:` commit, kept as a checked witness -/

def mk (seq tag : Nat) : Frame := { seq := seq, ts := 0, session := [], tag := tag, kind := .other }

/-- Position-only lookup (the code before the repair) returns a different frame on
non-consecutive seqs: push 10, 20; look up 11. -/
theorem raw_lookup_not_exact :
    ∃ f, (((FrameStore.new 10).push (mk 10 0)).push (mk 20 1)).getBySeqRaw 11 = some f ∧ f.seq ≠ 11 :=
  ⟨mk 20 1, by decide⟩

/-! ### non-vacuity -/

example : Consec (((FrameStore.new 2).push (mk 10 0)).push (mk 11 1)) := by
  intro i f h
  match i with
  | 0 => simp [FrameStore.push, FrameStore.new, mk] at h; subst h; decide
  | 1 => simp [FrameStore.push, FrameStore.new, mk] at h; subst h; decide
  | n + 2 => simp [FrameStore.push, FrameStore.new, mk] at h

example : (((FrameStore.new 2).push (mk 10 0)).push (mk 11 1)).getBySeq 11 = some (mk 11 1) := by decide

end Rip.Props.C20
