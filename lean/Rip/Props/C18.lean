/-
C18 — a store never has two authorities; a live authority's lock is never taken.
Property theorems only. Model: Rip/Model/AuthLTS.lean (one transition = one file-system call of
local_authority.rs). Proofs: Rip/Lemmas/AuthLTS.lean. Counterexamples: Rip/Cex/C18.lean.

The full statement is FALSE of the code as it is (known finding, see known_findings.json): the
cleanup functions re-read / check the lock and then rename it in two separate calls. What is proved:
the protocol is correct under every schedule if those two calls were one step (`_partial`), the gap
is exactly what breaks it (`mutex_full_false`), and recovery from every leftover state works.
-/
import Rip.Lemmas.AuthLTS
import Rip.Cex.C18
import Rip.Gen.AuthRecovery
namespace Rip.Props.C18
open Rip.AuthLTS

/-- the full statement: never more than one authority, from every leftover state, under every
schedule of the protocol AS IMPLEMENTED (`atomic = false`) -/
def mutex_full : Prop :=
  ∀ (s0 : S), Leftover s0 → ∀ sched : List Act, holders (run false s0 sched) ≤ 1

/-- …which does not hold: two contenders that both re-read a dead authority's lock. The witness is
replayed on the real functions by the harness on every run. -/
theorem mutex_full_false : ¬ mutex_full := by
  intro h
  have := h (initStale 2 false) ⟨2, Or.inr (Or.inr (Or.inl rfl))⟩ Rip.Cex.C18.twoAuthoritiesSched
  rw [Rip.Cex.C18.two_authorities] at this
  omega

/-- with "re-read, then rename" as one step there is never more than one authority — for every
number of contenders, every schedule of steps, crashes and releases, from every leftover state -/
theorem mutex_partial (s0 : S) (h0 : Leftover s0) (sched : List Act) :
    holders (run true s0 sched) ≤ 1 := mutex_atomic s0 h0 sched

/-- …and a live authority's lock is never taken: whoever believes it is the authority owns the file -/
theorem never_steals_partial (s0 : S) (h0 : Leftover s0) (sched : List Act) (i : Nat)
    (hi : (run true s0 sched).pcs[i]? = some .holding) :
    (run true s0 sched).lock = some { owner := pidOf i, record := some (pidOf i) } :=
  never_steals_atomic s0 h0 sched i hi

/-- recovery removes only the files of a process that is really gone (reachable states, atomic protocol) -/
theorem recovery_removes_only_dead (s0 : S) (h0 : Leftover s0) (sched : List Act) (i : Nat) (pc : Pc)
    (f : LockFile) (hpc : (run true s0 sched).pcs[i]? = some pc)
    (hclean : pc = .corruptCheck ∨ ∃ e, pc = .staleReread e)
    (hl : (run true s0 sched).lock = some f)
    (hrm : (stepProc true (run true s0 sched) i pc).lock = none) :
    (∃ e, f.record = some e ∧ alive (run true s0 sched) e = false) ∨
    (f.record = none ∧ alive (run true s0 sched) f.owner = false) :=
  cleanup_only_dead_reachable s0 h0 sched i pc f hpc hclean hl hrm

/-- a store whose previous authority crashed becomes usable again: from every leftover state a
scheduled contender becomes the authority — in the protocol as implemented, too -/
theorem store_recovers (atomic : Bool) (s0 : S) (h0 : Leftover s0) (hn : 0 < s0.pcs.length) :
    ∃ sched, (run atomic s0 sched).pcs[0]? = some .holding := recovers atomic s0 h0 hn

/-- `Drop` removes whatever lock file is at the path (second consequence of a stolen lock) -/
theorem drop_removes_foreign_lock :
    holders (run false (initStale 3 false) Rip.Cex.C18.dropStealsSched) = 2 :=
  Rip.Cex.C18.drop_removes_foreign_lock.1

/-- **obligation over the regenerated source**: in the recovery loop of `rip serve`
(`acquire_authority_lock_with_recovery`) the process whose liveness is checked is the one recorded in
the lock file that was just read, and that same pid is what the stale cleanup is told to expect — the
model's `staleReread e` carries exactly this `e`. (Checking the liveness of another record's pid, e.g.
the endpoint file's, lets a contender remove the lock of a live authority that has not yet published
its endpoint.) -/
theorem gen_recovery_checks_the_lock_owner :
    Rip.Gen.AuthRecovery.livenessOf = [Rip.Gen.AuthRecovery.lockPid] ∧
    Rip.Gen.AuthRecovery.cleanupExpects = [Rip.Gen.AuthRecovery.lockPid] := by decide

/-! ### the endpoint file of a live authority -/

/-- the meta step of the stale cleanup removes `meta.json` only when it carries the pid the cleanup
was entered for: an endpoint file published by anybody else — in particular by a newcomer that became
the authority after the stale lock was renamed away — stays, in every state and for both variants of
the protocol -/
theorem stale_meta_step_keeps_foreign_meta (atomic : Bool) (s : S) (i : Nat) (e p : Pid)
    (hm : s.metaPid = some p) (hne : p ≠ e) :
    (stepProc atomic s i (.staleMeta e)).metaPid = some p := by
  simp [stepProc, setPc, hm, hne]

/-- … and it is the only cleanup step that touches `meta.json` at all -/
theorem cleanup_steps_keep_meta (atomic : Bool) (s : S) (i : Nat) (pc : Pc)
    (hpc : pc = .corruptCheck ∨ pc = .corruptRename ∨ (∃ e, pc = .staleReread e) ∨ (∃ e, pc = .staleRename e)) :
    (stepProc atomic s i pc).metaPid = s.metaPid := by
  rcases hpc with h | h | ⟨e, h⟩ | ⟨e, h⟩ <;> subst h <;> simp only [stepProc, setPc]
  · split
    · split
      · split <;> rfl
      · rfl
    · rfl
  · split <;> rfl
  · split
    · split
      · split <;> rfl
      · rfl
    · rfl
  · split <;> rfl

/-- non-vacuity: a live holder's endpoint file (pid 2) next to a recoverer that expects the dead pid 0 -/
example :
    let s : S := { lock := some { owner := 2, record := some 2 }, metaPid := some 2, pcs := [.staleMeta 0, .holding] }
    (stepProc false s 0 (.staleMeta 0)).metaPid = some 2 ∧ alive s 2 = true := by decide

/-- **obligation over the regenerated source**: in `try_cleanup_stale_authority_files` every rename
or removal of `meta_path` sits under the comparison `meta.pid == expected_pid` — the guard of the
model's `staleMeta e` step -/
theorem gen_stale_meta_removal_guarded :
    Rip.Gen.AuthRecovery.metaRemovalGuards ≠ [] ∧
    Rip.Gen.AuthRecovery.metaRemovalGuards.all
      (fun conds => conds.contains Rip.Gen.AuthRecovery.metaPidIsExpected) = true := by decide

end Rip.Props.C18
