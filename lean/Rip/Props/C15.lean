/-
C15 — provider stream decoding is lossless and chunking-invariant.
Property theorems only. Model: Rip/Model/Sse.lean, Rip/Model/Utf8.lean.
-/
import Rip.Lemmas.Sse
import Rip.Lemmas.SseChunk
namespace Rip.Props.C15
open Rip.Proto Rip.Sse

/-- **String-level chunk invariance of the SSE decoder**: feeding any list of chunks one after the
other yields the same events and the same decoder state as feeding their concatenation — every
split position, including between CR and LF, inside a field name, inside `[DONE]`. -/
theorem decoder_chunk_invariant (d : Dec) (cs : List Bytes) : d.feedAll cs = d.push cs.flatten :=
  feedAll_flatten d cs

/-- **Byte-level chunk invariance of the whole pipe.** For every byte string — valid UTF-8 or not —
and every way of splitting it into chunks (inside a multi-byte character, between CR and LF, inside
a field name, byte by byte, with empty chunks), the frames produced by the read loop, the final
counter and the done flag are those of the unsplit body. Proof in Rip/Lemmas/SseChunk.lean: the
UTF-8 carry is characterised by an inductive lossy-decoding relation that composes under
concatenation; two pushes equal one push up to everything after `[DONE]`. -/
theorem bytes_chunk_invariant (δ : Bytes → Option Bytes) (start : Nat) (cs : List Bytes) :
    (feed δ start cs).out = (feed δ start [cs.flatten]).out ∧
    (feed δ start cs).seq = (feed δ start [cs.flatten]).seq ∧
    (feed δ start cs).done = (feed δ start [cs.flatten]).done :=
  Rip.Sse.bytes_chunk_invariant δ start cs

/-- **Exactly one provider frame per server-sent event, in order, payload unchanged** (the terminal
marker and non-JSON payloads included): the provider frames of a mapped event list are the events. -/
theorem one_frame_per_event (δ : Bytes → Option Bytes) (s : Nat) (ps : List Parsed) :
    (mapAll δ s ps).filterMap providerRaw = ps.map (fun p => (p.event, p.raw)) :=
  mapAll_providers δ s ps

/-- **Output text is exactly the concatenation of the provider's text deltas**, in order. -/
theorem text_is_concat (δ : Bytes → Option Bytes) (s : Nat) (ps : List Parsed) :
    (mapAll δ s ps).filterMap textOf = ps.filterMap (fun p => if isDone p then none else δ p.raw) :=
  mapAll_text δ s ps

/-- **Frame numbering continues without gap** from the frames before it, for every body (valid UTF-8
or not) and every chunking: the frames carry seq `start, start+1, …` and the session counter ends
at `start + number of frames`. -/
theorem seq_contiguous (δ : Bytes → Option Bytes) (start : Nat) (cs : List Bytes) :
    (feed δ start cs).out.map seqOf = List.range' start (feed δ start cs).out.length ∧
    (feed δ start cs).seq = start + (feed δ start cs).out.length :=
  let h := numbered_feed δ start cs
  ⟨h.2, h.1⟩

/-! ### non-vacuity: a concrete body split inside a multi-byte character and inside `[DONE]` -/

def body1 : Bytes := [100, 97, 116, 97, 58, 32, 0xC3]          -- "data: " + first byte of "é"
def body2 : Bytes := [0xA9, 10, 10, 100, 97, 116, 97, 58, 91, 68, 79]   -- second byte, blank line, "data:[DO"
def body3 : Bytes := [78, 69, 93, 10, 10]                              -- "NE]\n\n"

example : (feed (fun _ => none) 5 [body1, body2, body3]).out =
    [.provider 5 none [0xC3, 0xA9] false, .provider 6 none doneRaw true] := by decide

example : (feed (fun _ => none) 5 [body1 ++ body2 ++ body3]).out =
    (feed (fun _ => none) 5 [body1, body2, body3]).out := by decide

end Rip.Props.C15
