/-
C05 — a crash at any write boundary leaves a store that restarts gap-free. Property theorems only.
Model: Rip/Model/Crash.lean (the on-disk state of a thread while frames are appended effect by
effect, process death after any number of effects, reopening, the first write after the restart).
Proofs: Rip/Lemmas/Crash.lean. Witnesses: Rip/Cex/C05.lean. Regenerated fragment:
Rip/Gen/EffectOrder.lean (order 30: EventLog::append is body, newline, flush under its mutex).
-/
import Rip.Lemmas.Crash
import Rip.Cex.C05
import Rip.Gen.EffectOrder
import Rip.Gen.LogEffects
namespace Rip.Props.C05
open Rip.Crash

/-- **Crash safety** (both repairs on — the code as it is now): after ANY history of acknowledged
appends, a process death after ANY number of file-system effects of ANY further append (small or
larger than the writer's buffer, message or not), a restart and ANY number of further appends:
the log replays and is numbered 0,1,2,… without gap or duplicate; every acknowledged append is
still there, where it was; the interrupted append is there at most once; and from the first
further append on the thread's sidecar equals the log. -/
theorem crash_safe (hist : List Frame) (f : Frame) (k : Nat) (more : List Frame) :
    let d := story true true hist f k more
    GapFree d ∧
    hist.length ≤ d.log.length ∧
    d.log.take hist.length = (List.range hist.length).map some ∧
    d.log.length ≤ hist.length + 1 + more.length ∧
    (more ≠ [] → d.side = List.range d.log.length) := Rip.Crash.crash_safe hist f k more

/-- a crash changes nothing that was acknowledged: every crashed disk extends the disk before it -/
theorem acknowledged_untouched (hist : List Frame) (f : Frame) (k : Nat) :
    let d0 := appendAll hist 0 empty
    let d := partialAppend f hist.length k d0
    d0.log <+: d.log ∧ d0.side <+: d.side ∧ d0.mr <+: d.mr := partialAppend_extends hist f k

/-- the state the theorem starts from is what a history of complete appends really leaves -/
theorem history_shape (hist : List Frame) :
    let d := appendAll hist 0 empty
    d.dangling = none ∧ d.log = (List.range hist.length).map some ∧
      d.side = List.range hist.length ∧ d.mr = mrSeqs hist := appendAll_empty hist

/-- the statement was FALSE before each of the two repairs (regression witnesses) -/
theorem unsafe_before_repairs :
    (∃ (hist : List Frame) (f : Frame) (k : Nat) (more : List Frame),
      ¬ GapFree (story false true hist f k more) ∧ GapFree (story true true hist f k more)) ∧
    (∃ (hist : List Frame) (f : Frame) (k : Nat) (more : List Frame),
      ¬ GapFree (story true false hist f k more) ∧ GapFree (story true true hist f k more)) :=
  ⟨Rip.Cex.C05.duplicate_seq_without_fixE, Rip.Cex.C05.unparseable_without_fixF⟩

/-! ### the caches the restarted authority finds (`_partial`: "reconciled or ignored" is not true
of every cache file; the exact extent is proved, the two gaps are recorded known findings) -/

/-- until the thread is written again its sidecar is a prefix of the log, at most one frame behind -/
theorem stale_window (hist : List Frame) (f : Frame) (k : Nat) :
    let d := story true true hist f k []
    d.side <+: d.log.filterMap id ∧ (d.log.filterMap id).length ≤ d.side.length + 1 :=
  Rip.Crash.stale_window hist f k

/-- the messages+runs sidecar after further appends: correct unless the crash fell between the
sidecar line and the messages+runs line of a message frame — then exactly that frame is missing, for ever -/
theorem mr_reconciled_or_short_partial (hist : List Frame) (f : Frame) (k : Nat) (more : List Frame) (hm : more ≠ []) :
    let d := story true true hist f k more
    let frames := framesInLog hist f k more
    d.log = (List.range frames.length).map some ∧
    (¬ Short f k → d.mr = mrSeqs frames) ∧
    (Short f k → d.mr = (mrSeqs frames).filter (· ≠ hist.length) ∧ d.mr ≠ mrSeqs frames) :=
  mr_reconciled_or_short hist f k more hm

theorem mr_stale_for_ever : ∃ (hist : List Frame) (f : Frame) (k : Nat) (more : List Frame),
    more ≠ [] ∧ (story true true hist f k more).mr ≠ mrSeqs (hist ++ [f] ++ more) ∧
    (story true true hist f k more).log = (List.range (hist.length + 1 + more.length)).map some :=
  Rip.Cex.C05.mr_sidecar_stale_for_ever

/-! ### obligation over the regenerated source -/

open Rip.Gen in
/-- `EventLog::append` writes body, newline, flush — in that order, under its own mutex (the effect
list of the model's log part) -/
theorem gen_log_append_order :
    (orderOf 30).filter (fun e => e == .fsWrite || e == .fsFlush) = [.fsWrite, .fsWrite, .fsFlush] ∧
    (orderOf 30).head? = some (.lock 5) ∧ (orderOf 30).getLast? = some (.unlock 5) := by decide

/-- **obligation over the regenerated source**: `EventLog::append` writes the body, the newline and
the flush unconditionally — for every frame kind. (A frame that is handed to subscribers while its
bytes wait in the writer's buffer for some later frame's flush is not reproduced by a replay from
disk, and is lost by a crash although its append had returned.) -/
theorem gen_log_append_writes_unconditionally :
    Rip.Gen.LogEffects.appendWrites = 3 ∧ Rip.Gen.LogEffects.appendWritesUnderACondition = 0 := by decide

end Rip.Props.C05
