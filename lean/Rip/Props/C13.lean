/-
C13 — no path argument can reach outside the workspace root.
Property theorems only. Model: Rip/Model/Paths.lean (lexical checks + the kernel's path walk).
-/
import Rip.Lemmas.Paths
namespace Rip.Props.C13
open Rip.Proto Rip.Patch Rip.Paths

/-- **Every accepted path argument stays below the root**, for all byte strings: if the lexical
check of the file tools / patch format / task cwd accepts `raw`, then the location the kernel
reaches when it walks `raw` starting at the root has the root as a prefix. -/
theorem resolver_confined (root : Path) (raw rel : Bytes) (h : resolve raw = .ok rel) :
    root <+: osWalk root rel := by
  unfold resolve at h
  split at h
  · cases h
  · rename_i habs
    split at h
    · cases h
    · rename_i hpar
      cases h
      unfold osWalk
      have hnabs : isAbsolute raw = false := by simpa using habs
      simp only [hnabs, Bool.false_eq_true, ↓reduceIte]
      exact foldl_osStep_prefix root _ root (List.prefix_refl _)
        (mem_components_parent raw (Bool.eq_false_iff.mpr hpar))

/-- Absolute strings and strings with a `..` component are refused by the file-tool resolver. -/
theorem resolver_refuses (raw : Bytes)
    (h : isAbsolute raw = true ∨ [46, 46] ∈ splitSlash raw) : ∃ e, resolve raw = .error e := by
  unfold resolve
  rcases h with h | h
  · simp [h]
  · by_cases ha : isAbsolute raw = true
    · simp [ha]
    · have : (components raw).any (· == .parentDir) = true := by
        simp only [List.any_eq_true, beq_iff_eq]
        refine ⟨.parentDir, ?_, rfl⟩
        unfold components
        simp only [List.mem_append, List.mem_filterMap]
        right
        exact ⟨[46, 46], h, by decide⟩
      simp [ha, this]

/-- The patch format's path parser is at least as strict (it trims, then applies the same check). -/
theorem patch_path_confined (root : Path) (raw : Bytes) (p : RPath) (h : parseRelPath raw = .ok p) :
    root <+: osWalk root (Rip.Text.trim raw) := by
  unfold parseRelPath at h
  simp only at h
  split at h
  · cases h
  · split at h
    · cases h
    · split at h
      · cases h
      · rename_i h1 h2 h3
        unfold osWalk
        have hnabs : isAbsolute (Rip.Text.trim raw) = false := by simpa using h2
        simp only [hnabs, Bool.false_eq_true, ↓reduceIte]
        exact foldl_osStep_prefix root _ root (List.prefix_refl _)
          (mem_components_parent _ (Bool.eq_false_iff.mpr h3))

/-- Checkpoint paths (after the repair): an accepted path has no parent-directory component left
after the root was stripped. -/
theorem ckpt_rel_no_parent (rootRaw raw : Bytes) (rel : List Component)
    (h : toRelative rootRaw raw = .ok rel) : rel.all (· != .parentDir) = true := by
  unfold toRelative at h
  simp only at h
  split at h
  · cases h
  · split at h
    · cases h
    · rename_i hp
      cases h
      simp only [List.any_eq_true, beq_iff_eq, not_exists, not_and] at hp
      simp only [List.all_eq_true, bne_iff_ne, ne_eq]
      intro c hc heq
      exact hp c hc heq

/-! ### non-vacuity and the escapes the check must stop -/

def okOf : Except Refusal Bytes → Option Bytes | .ok b => some b | .error _ => none
def errOf : Except Refusal Bytes → Option Refusal | .ok _ => none | .error e => some e

example : okOf (resolve [97, 47, 46, 47, 98, 47, 47, 99]) = some [97, 47, 46, 47, 98, 47, 47, 99] := by decide  -- "a/./b//c"
example : osWalk [[114]] [97, 47, 46, 46, 47, 46, 46, 47, 120] = [[120]] := by decide   -- "a/../../x" leaves root "r"
example : errOf (resolve [97, 47, 46, 46, 47, 46, 46, 47, 120]) = some .parent := by decide
example : errOf (resolve [47, 101, 116, 99]) = some .absolute := by decide                -- "/etc"

end Rip.Props.C13
