/-
C07 — run lifecycle frames are complete, unique and causally ordered. Property theorems only.
Model: Rip/Model/RunLife.lean (the frames a run writes as a function of everything the provider,
the tools and the input can do). Proofs: Rip/Lemmas/RunLife.lean. Regenerated fragment:
Rip/Gen/EffectOrder.lean (orders 40 `run_session`, 41 agent loop, 44 `thread_post_message`, and the
early-exit counts), re-extracted from the current source on every run.
-/
import Rip.Lemmas.RunLife
import Rip.Gen.EffectOrder
namespace Rip.Props.C07
open Rip.RunLife

/-- **The thread's view of every attached run obeys the lifecycle grammar**, whatever the input kind,
the provider (any number of turns, any frames, any end reason, cursor or not), context compilation
(success or failure) and the tools (any number, mutating or not, barred or not, any output) do:
message, run_spawned, [selection decided, context compiled], side-effects*, [cursor], run_ended. -/
theorem thread_lifecycle (r : Run) (h : r.linked = true) : lifecycleOk (threadOf (trace r)) = true :=
  Rip.RunLife.thread_lifecycle r h

/-- the acceptor decides exactly that regular language -/
theorem grammar_exact (l : List TK) : lifecycleOk l = true ↔ ∃ (sel cur : Bool) (n : Nat),
    l = [.message, .runSpawned] ++ (if sel then [.selDecided, .compiled] else []) ++ List.replicate n .sideFx ++
      (if cur then [.cursor] else []) ++ [.runEnded] := lifecycleOk_iff l

/-- exactly one message, one run_spawned and one run_ended per attached run -/
theorem one_of_each (r : Run) (h : r.linked = true) :
    (threadOf (trace r)).count .message = 1 ∧ (threadOf (trace r)).count .runSpawned = 1 ∧
    (threadOf (trace r)).count .runEnded = 1 := Rip.RunLife.one_of_each r h

/-- a session that is not attached to a thread writes nothing on any thread -/
theorem thread_unlinked (r : Run) (h : r.linked = false) : threadOf (trace r) = [] :=
  Rip.RunLife.thread_unlinked r h

/-- **The session stream starts with its start frame and ends with exactly one end frame.** -/
theorem session_shape (r : Run) : ∃ mid, Mid mid ∧ sessionOf (trace r) = .started :: mid ++ [.ended] :=
  Rip.RunLife.session_shape r

theorem session_one_of_each (r : Run) :
    (sessionOf (trace r)).count .started = 1 ∧ (sessionOf (trace r)).count .ended = 1 :=
  Rip.RunLife.session_one_of_each r

/-- **run_ended is the last frame of the run and directly follows its own terminal session frame.** -/
theorem run_ended_last (r : Run) (h : r.linked = true) :
    ∃ pre, trace r = pre ++ [.session .ended, .thread .runEnded] := Rip.RunLife.run_ended_last r h

/-- parallel runs on one thread: whatever the interleaving of their frames in the log, each run's
own frames obey the lifecycle -/
theorem parallel_runs (runs : List Run) (l : List (Nat × Fr))
    (hl : ∀ i r, runs[i]? = some r → projRun i l = trace r) (i : Nat) (r : Run) (hr : runs[i]? = some r)
    (hk : r.linked = true) : lifecycleOk (threadOf (projRun i l)) = true :=
  Rip.RunLife.parallel_runs runs l hl i r hr hk

/-- non-vacuity: a two-turn provider run with mutating tools, a barred tool and a cursor -/
example : threadOf (trace exPrompt) =
    [.message, .runSpawned, .selDecided, .compiled, .sideFx, .sideFx, .cursor, .runEnded] := by decide

/-! ### obligations over the regenerated source tables -/

open Rip.Gen in
/-- the lifecycle steps of a function body, in source order -/
def lifecycleSteps (l : List Eff) : List Eff :=
  l.filter (fun e => e == .selDecided || e == .compiled || e == .agentLoop || e == .cursorUpdated ||
                     e == .writeSnapshot || e == .runEnded)

open Rip.Gen in
/-- index of the last frame emission (publish) of a body -/
def lastPublish (l : List Eff) : Nat := l.length - 1 - (l.reverse.findIdx (· == .publish))

open Rip.Gen in
/-- `run_session`: selection, compilation, the provider loop, the cursor update, the snapshot and
run_ended occur once each, in this order; run_ended comes after every frame emission of the body;
and the body has no early exit (no `return`, no `?`), so the single exit path is always reached -/
theorem gen_run_session_single_exit :
    lifecycleSteps (orderOf 40) = [.selDecided, .compiled, .agentLoop, .cursorUpdated, .writeSnapshot, .runEnded] ∧
    lastPublish (orderOf 40) < (orderOf 40).findIdx (· == .runEnded) ∧
    earlyExitsOf 40 = 0 := by decide

open Rip.Gen in
/-- `thread_post_message`: append the message, append run_spawned, then spawn the session — each once -/
theorem gen_post_message_order :
    (orderOf 44).filter (fun e => e == .appendMessage || e == .runSpawned || e == .spawnSession) =
      [.appendMessage, .runSpawned, .spawnSession] := by decide

open Rip.Gen in
/-- side-effects frames are appended right after the tool's frames, while the workspace permit is
still held (tool envelopes in `run_session`, tool calls in the agent loop) -/
theorem gen_side_effects_follow_tool_frames :
    [.lock 6, .runTool, .emitBatch, .sideEffects, .unlock 6] <:+: orderOf 40 ∧
    [.lock 6, .runTool, .emitBatch, .sideEffects, .unlock 6] <:+: orderOf 41 := by decide

end Rip.Props.C07
