/-
C09 — compaction follows message count alone; idempotent and replay-safe.
Property theorems only. Model: Rip/Model/Compaction.lean. Proofs: Rip/Lemmas/Compaction.lean.
-/
import Rip.Lemmas.Compaction
namespace Rip.Props.C09
open Rip.Compaction

/-- cut points are exactly the k·stride-th messages, identified by that message's seq and id -/
theorem cut_is_kth_message (T : Thread) (stride limit : Nat) (hs : 0 < stride) (c : Cut)
    (hc : c ∈ cutPoints T stride limit) :
    ∃ k, 0 < k ∧ c.ordinal = k * stride ∧ c.ordinal ≤ (messages T).length ∧
      ∃ m, (messages T)[c.ordinal - 1]? = some m ∧ c.toSeq = m.seq ∧ c.msgId = m.id :=
  Rip.Compaction.cut_is_kth_message T stride limit hs c hc

/-- …the latest multiples first, at most clamp(limit,1,32) of them -/
theorem cut_points_are_latest_multiples (T : Thread) (stride limit : Nat) (hs : 0 < stride) :
    (cutPoints T stride limit).map (·.ordinal) =
      ((List.range (clamp limit 1 32)).map (fun i => ((messages T).length / stride) * stride - i * stride)).filter (· ≠ 0) ∧
    (cutPoints T stride limit).length ≤ 32 :=
  ⟨cut_ordinals T stride limit hs, cut_count_bounded T stride limit⟩

/-- a cut point counts as checkpointed exactly when a checkpoint frame for that seq exists,
the latest such frame by stream order winning -/
theorem already_iff (T : Thread) (stride limit : Nat) (c : Cut) (hc : c ∈ cutPoints T stride limit) :
    c.already = true ↔ ∃ f ∈ T, f.kind = .ckpt c.toSeq := Rip.Compaction.already_iff T stride limit c hc

theorem latest_checkpoint_wins (T : Thread) (stride limit : Nat) (c : Cut) (hc : c ∈ cutPoints T stride limit)
    (i : Nat) (hi : c.latestCkpt = some i) :
    ∃ f ∈ T, f.id = i ∧ f.kind = .ckpt c.toSeq ∧ ∀ g ∈ T, g.kind = .ckpt c.toSeq → g.seq ≤ f.seq :=
  latest_wins T stride limit c hc i hi

/-- compaction follows message count alone: other frames do not move cut points -/
theorem follows_message_count_alone (T : Thread) (stride limit : Nat) (f : F)
    (hf : f.kind ≠ .message) (hk : ∀ q, f.kind ≠ .ckpt q) :
    cutPoints (T ++ [f]) stride limit = cutPoints T stride limit :=
  cuts_ignore_other_frames T stride limit f hf hk

/-- the plan: not-yet-checkpointed cut points among the latest 32, latest first, capped -/
theorem plan_exact (T : Thread) (stride maxNew : Nat) :
    plan T stride maxNew = ((cutPoints T stride 32).filter (fun c => !c.already)).take (clamp maxNew 1 32) ∧
    (plan T stride maxNew).length ≤ 32 ∧ ∀ c ∈ plan T stride maxNew, c.already = false :=
  Rip.Compaction.plan_exact T stride maxNew

/-- auto-compaction creates precisely the planned checkpoints (ascending), bracketed by exactly one
job-spawned and one job-ended frame, continuing the thread's numbering -/
theorem job_creates_plan (T : Thread) (fresh : Nat → Nat) (job stride maxNew : Nat)
    (hne : plan T stride maxNew ≠ []) :
    let fs := (auto T fresh job stride maxNew false).2.2
    fs.head?.map (·.kind) = some (.jobSpawned job) ∧ fs.getLast?.map (·.kind) = some (.jobEnded job) ∧
    (fs.filter (fun f => match f.kind with | .ckpt _ => true | _ => false)).map (·.kind) =
      (sortCuts (plan T stride maxNew)).map (fun c => K.ckpt c.toSeq) ∧
    fs.length = (plan T stride maxNew).length + 2 ∧
    (fs.filter (fun f => f.kind == .jobSpawned job)).length = 1 ∧ (fs.filter (fun f => f.kind == .jobEnded job)).length = 1 :=
  auto_creates_plan T fresh job stride maxNew hne

theorem job_frames_continue_numbering (T : Thread) (fresh : Nat → Nat) (job stride maxNew : Nat) (dry : Bool) :
    ((auto T fresh job stride maxNew dry).2.2).map (·.seq) =
      List.range' (headSeq T) ((auto T fresh job stride maxNew dry).2.2).length :=
  auto_seqs_contiguous T fresh job stride maxNew dry

/-- the creation order is a sort of the plan (same cuts, ascending by (to_seq, message id)) -/
theorem creation_order_is_sorted_plan (cs : List Cut) :
    (sortCuts cs).Perm cs ∧ (sortCuts cs).Pairwise cutLe := ⟨sortCuts_perm cs, sortCuts_sorted cs⟩

/-- idempotence: repeated with nothing new to do it appends nothing (also as a dry run) -/
theorem idempotent (T : Thread) (fresh : Nat → Nat) (job stride maxNew : Nat) (dry : Bool)
    (h : plan T stride maxNew = [] ∨ dry = true) : (auto T fresh job stride maxNew dry).2.2 = [] :=
  auto_noop_silent T fresh job stride maxNew dry h

/-- replay-safe: after a completed run every planned cut point is checkpointed -/
theorem planned_cuts_become_checkpointed (T : Thread) (fresh : Nat → Nat) (job stride maxNew : Nat) (c : Cut)
    (hc : c ∈ plan T stride maxNew) :
    ∃ f ∈ T ++ (auto T fresh job stride maxNew false).2.2, f.kind = .ckpt c.toSeq :=
  auto_then_done T fresh job stride maxNew c hc

/-- scheduler decisions -/
theorem scheduler_silent_when_nothing_to_do (T : Thread) (fresh : Nat → Nat) (job stride maxNew : Nat) (b e d : Bool)
    (h : plan T stride maxNew = [] ∨ d = true) : (schedule T fresh job stride maxNew b e d).2.2 = [] :=
  schedule_noop_silent T fresh job stride maxNew b e d h

theorem scheduler_skips_when_job_in_flight (T : Thread) (fresh : Nat → Nat) (job stride maxNew : Nat) (e : Bool) (j : Nat)
    (hne : plan T stride maxNew ≠ []) (hj : inflight T = some j) :
    (schedule T fresh job stride maxNew true e false).1 = .skippedInflight ∧
    ((schedule T fresh job stride maxNew true e false).2.2).map (·.kind) = [.decided] :=
  schedule_skipped T fresh job stride maxNew e j hne hj

theorem scheduler_spawns_then_decides (T : Thread) (fresh : Nat → Nat) (job stride maxNew : Nat) (b e : Bool)
    (hne : plan T stride maxNew ≠ []) (hj : b = false ∨ inflight T = none) :
    (((schedule T fresh job stride maxNew b e false).2.2).take 2).map (·.kind) = [.jobSpawned job, .decided] :=
  schedule_spawns T fresh job stride maxNew b e hne hj

/-! ### non-vacuity -/
def T5 : Thread := [⟨0, 0, .other⟩, ⟨1, 1, .message⟩, ⟨2, 2, .other⟩, ⟨3, 3, .message⟩, ⟨4, 4, .message⟩,
  ⟨5, 5, .message⟩, ⟨6, 6, .ckpt 3⟩, ⟨7, 7, .message⟩]

example : (cutPoints T5 2 5).map (fun c => (c.ordinal, c.toSeq, c.already)) = [(4, 5, false), (2, 3, true)] := by decide
example : (plan T5 2 3).map (·.toSeq) = [5] := by decide

end Rip.Props.C09
