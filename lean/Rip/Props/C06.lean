/-
C06 — a stream subscriber sees every frame exactly once, in order.
Property theorems only. Model: Rip/Model/Join.lean. Proofs: Rip/Lemmas/Join.lean.
Regenerated fragment: Rip/Gen/EffectOrder.lean (the effect order of the emitters and of the SSE
handlers, extracted from the current source by ripx on every run).
-/
import Rip.Lemmas.Join
import Rip.Lemmas.Emitters
import Rip.Cex.C06Emitters
import Rip.Cex.C06
import Rip.Driver.C06
import Rip.Gen.Consts
import Rip.Gen.CallGraph
import Rip.Lemmas.Rebuild
namespace Rip.Props.C06
open Rip.Join Rip.Driver.C06

/-- **Join exactness.** For each join-safe emit order, every number of frames and EVERY
interleaving of the producer's publish/record steps with the subscriber's subscribe/snapshot steps
(every attach moment: before the stream, between any two effects of any emission, after the end):
the subscriber delivers 0,1,…,n-1 — each frame exactly once, in order. -/
theorem join_exact (prog : List Micro) (hp : prog ∈ safeShapes) (n : Nat) (sched : List Who)
    (hc : complete n (run prog n sched) = true) :
    output (run prog n sched) = List.range n := Rip.Join.join_exact prog hp n sched hc

/-- many concurrent subscribers: the producer's behaviour does not depend on any subscriber -/
theorem subscribers_independent (prog : List Micro) (n : Nat) (sched : List Who) :
    let a := run prog n sched
    let b := run prog n (sched.filter (· == .producer))
    a.frame = b.frame ∧ a.pos = b.pos ∧ a.held = b.held ∧ a.published = b.published ∧ a.recorded = b.recorded :=
  Rip.Join.producer_independent prog n sched

/-- the snapshot is never blocked forever: any schedule prefix extends to a completed delivery -/
theorem subscriber_terminates (prog : List Micro) (hp : prog ∈ safeShapes) (n : Nat) (sched : List Who) :
    complete n (run prog n
      (sched ++ (List.replicate (n * prog.length) Who.producer ++ [.subscriber, .subscriber]))) = true :=
  Rip.Join.can_complete_from prog hp n sched

/-! ### obligations over the regenerated effect orders (re-stated on every run from the source) -/

/-- the session emitter (`emit_event`) publishes and records in a join-safe order -/
theorem gen_session_emit_safe : safeShapes.contains (shapeOf false (Rip.Gen.orderOf 1)) = true := by decide

/-- the task emitter (`TaskEmitter::emit`) likewise -/
theorem gen_task_emit_safe : safeShapes.contains (shapeOf false (Rip.Gen.orderOf 3)) = true := by decide

/-- every continuity append writes the log before it publishes (history of a thread stream is
replayed from the log) -/
theorem gen_continuity_appends_safe :
    [10, 11, 12, 13, 14, 15, 16, 17, 18, 19, 20].all
      (fun id => shapeOf true (Rip.Gen.orderOf id) == recThenPub) = true := by decide

/-- all three SSE handlers subscribe before they take the snapshot -/
theorem gen_handlers_subscribe_first :
    [4, 5, 6].all (fun id =>
      (Rip.Gen.orderOf id).filter (fun e => e == .subscribe || e == .snapshot) == [.subscribe, .snapshot]) = true := by
  decide

/-! ### what the theorem does not cover, stated -/

/-- The model's channel is unbounded; the real broadcast channels are bounded (a subscriber that
lags further than the capacity loses frames — known finding `C06|lag>capacity`). The only thing
claimed about the generated constants is that the channels can hold something at all. -/
theorem channel_capacity_positive :
    0 < Rip.Gen.Consts.runner_EVENT_CHANNEL_CAPACITY ∧
    0 < Rip.Gen.Consts.tasks_EVENT_CHANNEL_CAPACITY ∧
    0 < Rip.Gen.Consts.continuities_EVENT_CHANNEL_CAPACITY := by decide

/-- the order the emitters had before the repair loses a frame (kept as a checked witness) -/
theorem publish_before_record_loses_a_frame :
    let s := run pubThenLockedRec 1 [.producer, .subscriber, .subscriber, .producer, .producer, .producer]
    complete 1 s = true ∧ output s = [] := Rip.Cex.C06.lost_frame

/-- the task emitter draws the seq inside the critical section that publishes and records the frame:
the per-task seq lock (2) is taken first and released last, around the buffer lock (1) — so with
several emitters on one task stream (stdout and stderr pumps) seq order = publish order = record
order = log order -/
theorem gen_task_emit_seq_critical :
    (Rip.Gen.orderOf 3).head? = some (.lock 2) ∧ (Rip.Gen.orderOf 3).getLast? = some (.unlock 2) ∧
    ((Rip.Gen.orderOf 3).filter (fun e => e == .lock 2 || e == .unlock 2)).length = 2 := by decide

/-! ### several emitters on one stream (the stdout and stderr pumps of one task) -/

/-- **for any number of concurrent emitters, any frame counts and EVERY interleaving** of the effects
of `TaskEmitter::emit` (seq lock, draw, buffer lock, publish, record, release): frames are published
in seq order and recorded in seq order without gap or duplicate, the record is a prefix of the
publication at most one frame behind, and when everybody is done every frame went out exactly once -/
theorem emitters_in_order (counts sched : List Nat) :
    (∃ k, (Rip.Emitters.run true counts sched).published = List.range k) ∧
    (∃ k, (Rip.Emitters.run true counts sched).recorded = List.range k) ∧
    (Rip.Emitters.run true counts sched).recorded <+: (Rip.Emitters.run true counts sched).published ∧
    (Rip.Emitters.run true counts sched).published.length ≤ (Rip.Emitters.run true counts sched).recorded.length + 1 :=
  ⟨Rip.Emitters.published_in_order counts sched, Rip.Emitters.recorded_in_order counts sched,
   (Rip.Emitters.recorded_prefix_of_published counts sched).1, (Rip.Emitters.recorded_prefix_of_published counts sched).2⟩

theorem emitters_complete (counts sched : List Nat) (hd : Rip.Emitters.allDone (Rip.Emitters.run true counts sched) = true) :
    (Rip.Emitters.run true counts sched).published = List.range counts.sum ∧
    (Rip.Emitters.run true counts sched).recorded = List.range counts.sum := Rip.Emitters.complete counts sched hd

theorem emitters_can_finish (counts sched : List Nat) :
    ∃ more, Rip.Emitters.allDone (Rip.Emitters.run true counts (sched ++ more)) = true := Rip.Emitters.can_finish counts sched

/-- releasing the seq lock right after the draw inverts the order (why `gen_task_emit_seq_critical` matters) -/
theorem emitters_early_release_inverts : ∃ (counts sched : List Nat),
    (Rip.Emitters.run false counts sched).published = [1, 0] ∧ (Rip.Emitters.run false counts sched).recorded = [1, 0] :=
  Rip.Cex.C06Emitters.early_release_inverts_order

/-! ### a reader rebuilds the sidecar while appenders append (late subscribers) -/

/-- every occurrence of `tok` in an effect order lies inside a `lock n … unlock n` region -/
def insideLock (n : Nat) (tok : Rip.Gen.Eff) (o : List Rip.Gen.Eff) : Bool :=
  (o.foldl (fun (st : Bool × Bool) e =>
      if e == .lock n then (true, st.2)
      else if e == .unlock n then (false, st.2)
      else if e == tok then (st.1, st.2 && st.1) else st) (false, true)).2

/-- **With the rewrite under the seq lock nothing that was broadcast is ever missing from a
readable sidecar** — the history a subscriber attaching now would read — for any number of
appenders and readers, any start (sidecar in step with the log, or unreadable with any content) and
EVERY schedule of their effects. Proof: Rip/Lemmas/Rebuild.lean (invariant over the schedule). -/
theorem late_subscriber_misses_nothing (n : Nat) (sideOk : Bool) (junk apps : List Nat) (readers : Nat)
    (sched : List Nat) :
    Rip.Rebuild.missed (Rip.Rebuild.run true (Rip.Rebuild.init n sideOk junk apps readers) sched) = [] :=
  Rip.Rebuild.no_missed_locked n sideOk junk apps readers sched

/-- …and whenever nobody is inside an append or a rewrite, a readable sidecar IS the log -/
theorem sidecar_is_the_log_when_idle (n : Nat) (sideOk : Bool) (junk apps : List Nat) (readers : Nat)
    (sched : List Nat) :
    let s := Rip.Rebuild.run true (Rip.Rebuild.init n sideOk junk apps readers) sched
    s.lock = none → s.sideOk = true → s.side = s.log :=
  Rip.Rebuild.side_eq_log_when_idle n sideOk junk apps readers sched

/-- the code as it was (log read and rewrite outside the lock): a frame appended and broadcast
between a reader's log read and its rewrite is lost to every later subscriber. Replayed on the real
store by the harness (`reader_rebuild_race_case`) on every run. -/
theorem unlocked_rewrite_loses_a_frame :
    Rip.Rebuild.missed (Rip.Rebuild.run false (Rip.Rebuild.init 3 false [] [1] 1) [1, 1, 0, 0, 0, 0, 0, 1, 1]) = [3] :=
  Rip.Rebuild.missed_unlocked

/-- **obligations over the regenerated source**: `replay_events` tries the cache, takes the seq
lock (3), retries the cache and only then calls the log-reading helper, all before releasing the
lock; the helper reads the log before it rewrites; the only functions that rewrite the sidecar are
that helper and `load_next_seq_for`; and `load_next_seq_for` is only ever reached (token `seqLoad`)
inside the seq lock of an append path. -/
theorem gen_reader_rebuild_locked :
    insideLock 3 .fromLogLocked (Rip.Gen.orderOf 50) = true ∧
    (Rip.Gen.orderOf 50).contains .fromLogLocked = true ∧
    (Rip.Gen.orderOf 50).filter (· == .tryCache) = [.tryCache, .tryCache] ∧
    Rip.Gen.orderOf 51 = [.logRead, .rebuild] ∧
    Rip.Gen.CallGraph.sidecarRebuilders.all (fun h => [6420891449161542399, 5380091558238241133].contains h) = true ∧
    Rip.Gen.CallGraph.sidecarRebuilders.length = 2 ∧
    (Rip.Gen.effectOrders.filter (fun e => e.2.contains .seqLoad)).all (fun e => insideLock 3 .seqLoad e.2) = true ∧
    (Rip.Gen.effectOrders.filter (fun e => e.2.contains .seqLoad)).length ≥ 11 := by decide

end Rip.Props.C06
