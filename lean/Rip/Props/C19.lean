/-
C19 — secrets never reach frames, artifacts, caches, logs or diagnostics. Property theorems only.
Model: Rip/Model/Secrets.lean (layered configuration, resolution, diagnostics, recordings, the wire).
Proofs: Rip/Lemmas/Secrets.lean. Regenerated fragments: Rip/Gen/SecretReaders.lean (every function
outside test modules that reads `.api_key` / `.headers`).
-/
import Rip.Lemmas.Secrets
import Rip.Gen.SecretReaders
namespace Rip.Props.C19
open Rip.Secrets

/-- **Diagnostics are blind to secret values**: for every stack of configuration layers, every
environment and every per-request override, renaming all secret values (inline keys, environment
values, header values) by ANY function that keeps blank values blank leaves the doctor summary
unchanged — it depends only on whether a secret is present and where it came from. -/
theorem doctor_blind (f : Secret → Secret) (hf : KeepsBlank f) (layers : List Layer) (env : Env) (ov : Override) :
    (resolve (mergeAll (layers.map (Layer.mapS f))) (env.mapS f) ov).map doctor =
    (resolve (mergeAll layers) env ov).map doctor := Rip.Secrets.doctor_blind f hf layers env ov

/-- **what a run records about its provider is blind to secret values** -/
theorem recorded_blind (f : Secret → Secret) (hf : KeepsBlank f) (layers : List Layer) (env : Env) (ov : Override) :
    (resolve (mergeAll (layers.map (Layer.mapS f))) (env.mapS f) ov).map recorded =
    (resolve (mergeAll layers) env ov).map recorded := Rip.Secrets.recorded_blind f hf layers env ov

/-- two-run form: configurations that differ only in their secret values are indistinguishable -/
theorem two_run (f g : Secret → Secret) (hf : KeepsBlank f) (hg : KeepsBlank g) (layers : List Layer)
    (env : Env) (ov : Override) :
    (resolve (mergeAll (layers.map (Layer.mapS f))) (env.mapS f) ov).map (fun r => (doctor r, recorded r)) =
    (resolve (mergeAll (layers.map (Layer.mapS g))) (env.mapS g) ov).map (fun r => (doctor r, recorded r)) :=
  Rip.Secrets.two_run f g hf hg layers env ov

/-- the secrets ARE used — on the wire, and exactly there (so the theorems above are not vacuous) -/
theorem wire_carries_the_secrets (f : Secret → Secret) (hf : KeepsBlank f) (layers : List Layer) (env : Env) (ov : Override) :
    (resolve (mergeAll (layers.map (Layer.mapS f))) (env.mapS f) ov).map wire =
    (resolve (mergeAll layers) env ov).map
      (fun r => ((wire r).1.map f, (wire r).2.map (fun h => (h.1, f h.2)))) :=
  Rip.Secrets.wire_maps f hf layers env ov

/-- diagnostics say "present" exactly when a key goes on the wire; a resolved key is never blank -/
theorem present_iff_wired (cfg : Layer) (env : Env) (ov : Override) (r : Resolved)
    (h : resolve cfg env ov = some r) :
    ((doctor r).hasApiKey = true ↔ (wire r).1.isSome = true) ∧ r.apiKey ≠ some 0 :=
  ⟨present_iff_some_key cfg env ov r h, key_never_blank cfg env ov r h⟩

/-- the blank-preservation hypothesis cannot be dropped (diagnostics do report presence) -/
example : ∃ (layers : List Layer) (env : Env) (ov : Override),
    (resolve (mergeAll (layers.map (Layer.mapS (fun _ => 0)))) (env.mapS (fun _ => 0)) ov).map doctor ≠
    (resolve (mergeAll layers) env ov).map doctor :=
  ⟨[{ providers := [(1, { endpoint := some ⟨10, false, false⟩, apiKey := some (.inline 7) })], primary := some (1, 5) }],
   {}, {}, by decide⟩

/-! ### obligations over the regenerated source tables -/

/-- the only functions that read a secret-bearing field are: the resolver, the doctor handler
(presence and header names), the per-request override plumbing of thread_post_message (moves the
resolved configuration into the run's configuration) and the function that attaches them to the
outgoing HTTP request. A new reader anywhere in these modules breaks this obligation. -/
theorem gen_secret_readers_known :
    Rip.Gen.SecretReaders.readers.all (fun r =>
      [16173268633043798843,    -- config_doctor
       17592789489502923263,    -- resolve_openresponses_config
       11852998158737580036,    -- stream_openresponses_request
       1817750847305215184      -- thread_post_message
      ].contains r.1) = true := by decide

end Rip.Props.C19
