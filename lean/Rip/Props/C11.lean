/-
C11 — workspace mutations never overlap and are logged in the order they happened.
Property theorems only. Model: Rip/Model/WsLTS.lean. Proofs: Rip/Lemmas/WsLTS.lean.
Witnesses: Rip/Cex/C11.lean. Regenerated fragments: Rip/Gen/EffectOrder.lean (orders 40 run_session,
41 run_openresponses_agent_loop, 42 run_task) and Rip/Gen/LockTable.lean (requires_workspace_lock
and the tool registry), both re-extracted from the current source by ripx on every run.
-/
import Rip.Lemmas.WsLTS
import Rip.Cex.C11
import Rip.Gen.EffectOrder
import Rip.Gen.LockTable
namespace Rip.Props.C11
open Rip.WsLTS

/-- **Mutual exclusion.** For every set of actors (sessions, agent loops, background tasks), every
program of mutating (with or without a runner timeout, attached to a thread or not) and read-only
calls and EVERY interleaving, including runner timeouts at any moment: at most one mutation of the
workspace is in progress at any instant (and never was more than one). -/
theorem mutex (progs : List (List Op)) (sched : List Act) :
    (run true progs sched).running.length ≤ 1 ∧ (run true progs sched).maxRunning ≤ 1 :=
  Rip.WsLTS.mutex progs sched

/-- the accounting is exact: an effect in progress is always in `running` (so `mutex` is not
satisfied by under-reporting) … -/
theorem effect_visible (progs : List (List Op)) (sched : List Act) (i : Nat) (a : A) (c l : Bool) (rest : List Op) :
    (run true progs sched).as[i]? = some a → a.prog = .mutate c l :: rest → a.pc = 2 →
    (i, a.opNo) ∈ (run true progs sched).running := Rip.WsLTS.effect_visible progs sched i a c l rest

/-- … and whoever mutates holds the permit -/
theorem running_is_holder (progs : List (List Op)) (sched : List Act) (i k : Nat)
    (h : (i, k) ∈ (run true progs sched).running) : (run true progs sched).holder = some i :=
  Rip.WsLTS.running_is_holder progs sched i k h

/-- **Log order = real order.** The side-effects frames on the thread are, at every moment, a prefix
of the order in which the mutations of attached runs actually began, and the two are equal once
every actor has finished. -/
theorem order_agrees_prefix (progs : List (List Op)) (sched : List Act) :
    (run true progs sched).sideFx <+: (run true progs sched).mutOrder :=
  Rip.WsLTS.order_agrees_prefix progs sched

theorem order_agrees (progs : List (List Op)) (sched : List Act)
    (hd : allDone (run true progs sched) = true) :
    (run true progs sched).sideFx = (run true progs sched).mutOrder :=
  Rip.WsLTS.order_agrees progs sched hd

/-- exactly one side-effects frame per mutating call of an attached run -/
theorem one_frame_per_call (progs : List (List Op)) (sched : List Act) :
    (run true progs sched).sideFx.Nodup ∧ (run true progs sched).mutOrder.Nodup :=
  Rip.WsLTS.one_frame_per_call progs sched

/-- the frame is logged after the effect has ended and before the permit is released -/
theorem frame_after_effect (progs : List (List Op)) (sched : List Act) (i k : Nat)
    (h : (i, k) ∈ (run true progs sched).sideFx) : (i, k) ∉ (run true progs sched).running :=
  Rip.WsLTS.frame_after_effect progs sched i k h

theorem frame_before_release (progs : List (List Op)) (sched : List Act) (i k : Nat) (a : A)
    (h : (i, k) ∈ (run true progs sched).sideFx) (ha : (run true progs sched).as[i]? = some a)
    (hk : a.opNo = k) : (run true progs sched).holder = some i ∧ 5 ≤ a.pc :=
  Rip.WsLTS.frame_before_release progs sched i k a h ha hk

/-- no deadlock: every reachable state can run to completion -/
theorem can_finish (progs : List (List Op)) (sched : List Act) :
    ∃ more, allDone (run true progs (sched ++ more)) = true := Rip.WsLTS.can_finish progs sched

/-- the statement is FALSE of the protocol as it was before the repair (a timed-out command kept
running after the permit was released) — kept as the regression witness -/
theorem mutex_false_without_kill :
    ∃ progs sched, (run false progs sched).maxRunning = 2 :=
  ⟨_, _, Rip.Cex.C11.timed_out_tool_overlaps⟩

/-- non-vacuity: a schedule on which two actors each complete a mutation and both frames are logged -/
example : (run true [[.mutate false true], [.mutate true true]]
    [.step 0, .step 1, .step 0, .step 0, .step 0, .step 0, .step 0,
     .step 1, .step 1, .timeout 1, .step 1, .step 1, .step 1]).sideFx = [(0, 0), (1, 0)] := by decide

/-! ### obligations over the regenerated source tables -/

open Rip.Gen in
/-- scan of an effect order: every tool / process execution happens while the workspace permit
(lock 6) is held, or inside the arm of a `requires_workspace_lock` decision that says no lock is
needed; and never inside the arm of a tool-choice decision that bars the tool -/
def toolsGuarded : List Eff → (held noLock barred : Bool) → Bool
  | [], _, _, _ => true
  | .lock 6 :: r, _, n, b => toolsGuarded r true n b
  | .unlock 6 :: r, _, n, b => toolsGuarded r false n b
  | .brNeedsLock :: r, h, _, b => toolsGuarded r h false b
  | .brNoLock :: r, h, _, b => toolsGuarded r h true b
  | .brBarred :: r, h, n, _ => toolsGuarded r h n true
  | .brAllowed :: r, h, n, _ => toolsGuarded r h n false
  | .brEnd :: r, h, _, _ => toolsGuarded r h false false
  | .runTool :: r, h, n, b => (h || n) && !b && toolsGuarded r h n b
  | .runProcess :: r, h, n, b => h && !b && toolsGuarded r h n b
  | _ :: r, h, n, b => toolsGuarded r h n b

open Rip.Gen in
/-- the side-effects frame is appended inside the same critical section as the tool run it
describes, after the tool's frames were emitted -/
def sideFxInside : List Eff → (held ran emitted : Bool) → Bool
  | [], _, _, _ => true
  | .lock 6 :: r, _, _, _ => sideFxInside r true false false
  | .unlock 6 :: r, _, _, _ => sideFxInside r false false false
  | .runTool :: r, h, _, _ => sideFxInside r h true false
  | .emitBatch :: r, h, ran, _ => sideFxInside r h ran true
  | .sideEffects :: r, h, ran, em => h && ran && em && sideFxInside r h ran em
  | _ :: r, h, ran, em => sideFxInside r h ran em

/-- tool envelopes and checkpoint envelopes of a session (`run_session`) -/
theorem gen_session_tools_guarded :
    toolsGuarded (Rip.Gen.orderOf 40) false false false = true ∧
    sideFxInside (Rip.Gen.orderOf 40) false false false = true ∧
    (Rip.Gen.orderOf 40).contains .sideEffects = true := by decide

/-- the agent loop's tool calls -/
theorem gen_loop_tools_guarded :
    toolsGuarded (Rip.Gen.orderOf 41) false false false = true ∧
    sideFxInside (Rip.Gen.orderOf 41) false false false = true ∧
    (Rip.Gen.orderOf 41).contains .sideEffects = true := by decide

/-- background tasks run their process entirely under the permit -/
theorem gen_task_guarded :
    toolsGuarded (Rip.Gen.orderOf 42) false false false = true ∧
    (Rip.Gen.orderOf 42).contains .runProcess = true := by decide

/-- only the read-only tools (read, ls, grep, artifact_fetch) are exempt from the permit: write,
apply_patch, bash, shell and every name the table does not know take it -/
theorem gen_exempt_are_read_only :
    Rip.Gen.LockTable.exemptFromLock.all (fun t => [1, 2, 3, 4].contains t) = true ∧
    Rip.Gen.LockTable.registered.all (fun t => t < 100) = true ∧
    [5, 6, 7, 8].all (fun t => Rip.Gen.LockTable.registered.contains t → !Rip.Gen.LockTable.exemptFromLock.contains t) = true := by
  decide

end Rip.Props.C11
