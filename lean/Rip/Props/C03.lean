/-
C03 — replay fidelity: live frames, log, sidecar and snapshot are the same frames; any frame
survives a write/read round trip. Property theorems only.
Model: Rip/Model/Wire.lean (serde's internally-tagged + flattened wire form as a schema interpreter,
validated against real serde on every run). Proofs: Rip/Lemmas/Wire.lean.
Regenerated fragment: Rip/Gen/EventSchema.lean (every variant, field, alias, serde attribute and
the stream mapping of rip-kernel's EventKind, re-extracted from the source on every run).
-/
import Rip.Lemmas.Wire
import Rip.Driver.C03
import Rip.Gen.EffectOrder
import Rip.Gen.LogEffects
namespace Rip.Props.C03
open Rip.Wire

variable {V : Type} [DecidableEq V]

/-- **The current event schema is well formed** (decided on the regenerated table): tags and legacy
aliases are pairwise distinct across all variants; within each variant the field names and aliases
are distinct and disjoint from the envelope keys (`id, session_id, stream_kind, stream_id,
timestamp_ms, seq`) and from `type`; every `skip_serializing_if` is paired with `default` and sits
on the right kind of field; every variant is assigned to a stream. A change that breaks any of
these (a colliding field name, a skipped field without default, …) fails this obligation. -/
theorem schema_wf : wellFormed Rip.Driver.C03.genSchema = true := by decide

/-- the schema really is the whole event vocabulary (non-vacuity of `schema_wf`) -/
theorem schema_nonempty : 30 ≤ Rip.Driver.C03.genSchema.variants.length ∧
    Rip.Driver.C03.genSchema.readEnvelope.length = 4 := by decide

/-- **Write/read round trip for every well-formed schema and every typed frame**: what was written
can be read back, the frame that comes back is the same variant — hence assigned to the same
stream — and writing it again yields exactly the same object: no field lost or altered.
`_partial`: the one excluded case is an `Option` field with `skip_serializing_if` holding
`Some(null)` (see `roundtrip_full_false`, `roundtrip_exactly_when`). -/
theorem roundtrip_partial (env : Env V) (S : Schema) (derive : Nat → List V → List V) (f : Frame V) (o : Obj V)
    (hwf : wellFormed S = true) (henv : EnvOk env S) (ht : typed S f = true)
    (hc : EnvelopeConsistent S derive f) (he : encode env S f = some o)
    (hsn : ∀ v, S.variants[f.variant]? = some v →
      ∀ p ∈ v.fields.zip f.fields, p.1.skipNone = true → p.2 ≠ .opt (some env.null)) :
    ∃ f', decode env S derive o = some f' ∧ f'.variant = f.variant ∧ encode env S f' = some o :=
  Rip.Wire.roundtrip env S derive f o hwf henv ht hc he hsn

/-- the excluded case is exactly where the full statement fails (necessary and sufficient) -/
theorem roundtrip_exactly_when (env : Env V) (S : Schema) (derive : Nat → List V → List V) (f : Frame V) (o : Obj V)
    (hwf : wellFormed S = true) (henv : EnvOk env S) (ht : typed S f = true)
    (hc : EnvelopeConsistent S derive f) (he : encode env S f = some o) :
    (∃ f', decode env S derive o = some f' ∧ f'.variant = f.variant ∧ encode env S f' = some o) ↔
    (∀ v, S.variants[f.variant]? = some v →
      ∀ p ∈ v.fields.zip f.fields, p.1.skipNone = true → p.2 ≠ .opt (some env.null)) :=
  roundtrip_iff env S derive f o hwf henv ht hc he

/-- the full statement (no exclusion) is false: a checked witness -/
theorem roundtrip_full_false :
    ¬ (∀ (env : Env Nat) (S : Schema) (derive : Nat → List Nat → List Nat) (f : Frame Nat) (o : Obj Nat),
        wellFormed S = true → EnvOk env S → typed S f = true → EnvelopeConsistent S derive f →
        encode env S f = some o →
        ∃ f', decode env S derive o = some f' ∧ f'.variant = f.variant ∧ encode env S f' = some o) :=
  roundtrip_original_false

/-- unconditionally: one trip normalises (`Some(null)` becomes `None`), the variant (stream) and the
envelope are kept, and from then on the frame is stable -/
theorem roundtrip_stabilises (env : Env V) (S : Schema) (derive : Nat → List V → List V) (f : Frame V) (o : Obj V)
    (hwf : wellFormed S = true) (henv : EnvOk env S) (ht : typed S f = true)
    (hc : EnvelopeConsistent S derive f) (he : encode env S f = some o) :
    decode env S derive o = some (normalise env f) ∧
    (normalise env f).variant = f.variant ∧ (normalise env f).envelope = f.envelope ∧
    ∃ o', encode env S (normalise env f) = some o' ∧ decode env S derive o' = some (normalise env f) :=
  roundtrip_norm env S derive f o hwf henv ht hc he

/-- typed equality: the frame itself comes back unless an Option field holds `Some(null)` -/
theorem roundtrip_typed (env : Env V) (S : Schema) (derive : Nat → List V → List V) (f : Frame V) (o : Obj V)
    (hwf : wellFormed S = true) (henv : EnvOk env S) (ht : typed S f = true)
    (hc : EnvelopeConsistent S derive f) (he : encode env S f = some o)
    (hnn : ∀ fv ∈ f.fields, fv ≠ .opt (some env.null)) :
    decode env S derive o = some f := Rip.Wire.roundtrip_typed env S derive f o hwf henv ht hc he hnn

/-- reading ignores unknown keys and the keys the writer recomputes (stream_kind, stream_id) -/
theorem unknown_keys_ignored (env : Env V) (S : Schema) (derive : Nat → List V → List V) (o extra : Obj V) (f : Frame V)
    (hd : decode env S derive o = some f)
    (hx : ∀ kv ∈ extra, kv.1 ∉ S.readEnvelope ∧ kv.1 ≠ S.tagField ∧
          ∀ v, S.variants[f.variant]? = some v → kv.1 ∉ (v.fields.map fieldKeys).flatten) :
    decode env S derive (o ++ extra) = some f := decode_ignores_unknown env S derive o extra f hd hx

open Rip.Gen in
/-- **a frame a live subscriber received is already in the log and in the per-thread sidecar**: every
continuity append writes the truth log, then the sidecar, and only then publishes (regenerated effect
orders of the eleven append functions) — so at no moment, and after no crash, has a delivered frame
failed to reach the two stored views -/
theorem gen_appends_store_before_publish :
    [10, 11, 12, 13, 14, 15, 16, 17, 18, 19, 20].all (fun id =>
      (orderOf id).filter (fun e => e == .logAppend || e == .cacheAppend || e == .publish)
        == [.logAppend, .cacheAppend, .publish]) = true := by decide

/-- **obligation over the regenerated source**: `EventLog::append` writes the body, the newline and
the flush unconditionally — for every frame kind. (A frame that is handed to subscribers while its
bytes wait in the writer's buffer for some later frame's flush is not reproduced by a replay from
disk, and is lost by a crash although its append had returned.) -/
theorem gen_log_append_writes_unconditionally :
    Rip.Gen.LogEffects.appendWrites = 3 ∧ Rip.Gen.LogEffects.appendWritesUnderACondition = 0 := by decide

end Rip.Props.C03
