/-
C12 — patch application is all-or-nothing and exact when it succeeds.
Property theorems only. Model: Rip/Model/Patch.lean, Rip/Model/PatchParse.lean.
-/
import Rip.Lemmas.PatchExact
import Rip.Lemmas.PatchAtomic
import Rip.Lemmas.PatchText
namespace Rip.Props.C12
open Rip.Proto Rip.Patch Rip.Text

/-- **All-or-nothing on failure.** For every well-formed workspace state and every operation list:
if the engine reports an error, every path has exactly the file content it had before (in particular
no new file remains). Carried by the undo-list invariant proved in Rip/Lemmas/PatchAtomic.lean
(`Inv` forward, `RR` for the reverse-order revert). `fb` is the "some file lives strictly below p"
test of the repaired revert; the driver computes it over the finite universe of a case. -/
theorem atomic (fb : FS → Path → Bool) (hfb : FileBelowSpec fb) (fs : FS) (hwf : WF fs)
    (ops : List Op) (e : Err) (fs' : FS)
    (h : applyPatchOps fb fs ops = (.error e, fs')) : ∀ q, fs'.file q = fs.file q :=
  Rip.Patch.atomic fb hfb fs hwf ops e fs' h

/-- **Exact on success.** If the engine reports success, the resulting workspace is the result of
performing the patch's operations in order (`specRun`, which knows nothing about undo lists), and
the reported changed files are exactly the named files, sorted and de-duplicated. Holds for every
file-system state and every operation list. -/
theorem exact (fb : FS → Path → Bool) (fs fs' : FS) (ops : List Op) (changed : List Bytes)
    (h : applyPatchOps fb fs ops = (.ok changed, fs')) :
    specRun fs ops = some fs' ∧ changed = sortDedup ((ops.map named).flatten) := by
  unfold applyPatchOps at h
  split at h
  · rename_i s hs
    have := applyOps_exact _ s ops hs
    simp only [Prod.mk.injEq, Except.ok.injEq] at h
    rcases h with ⟨rfl, rfl⟩
    exact ⟨this.1, by simp [this.2]⟩
  · simp at h

/-- A failed parse never reaches the engine: the driver-level function leaves the workspace as is.
(`parsePatch` is total: every byte string is either a list of operations or a parse error.) -/
theorem parser_total (input : Bytes) : (∃ ops, parsePatch input = .ok ops) ∨ (∃ e, parsePatch input = .error e) := by
  cases h : parsePatch input with
  | ok ops => exact Or.inl ⟨ops, rfl⟩
  | error e => exact Or.inr ⟨e, rfl⟩

/-- Every path the parser accepts is relative and free of parent-directory components. -/
theorem parsed_path_confined (raw : Bytes) (p : RPath) (h : parseRelPath raw = .ok p) :
    isAbsolute (trim raw) = false ∧ (components (trim raw)).all (· != .parentDir) = true ∧
    p.comps = normals (components (trim raw)) := by
  unfold parseRelPath at h
  simp only at h
  split at h
  · cases h
  · split at h
    · cases h
    · split at h
      · cases h
      · rename_i h1 h2 h3
        cases h
        refine ⟨by simpa using h2, ?_, rfl⟩
        simp only [List.any_eq_true, beq_iff_eq, not_exists, not_and] at h3
        simp only [List.all_eq_true, bne_iff_ne, ne_eq]
        intro c hc heq
        exact h3 c hc heq

/-- `find_subslice_from`: a reported position is at or after the cursor and is a real match. -/
theorem findFrom_sound (hay needle : List Bytes) (start pos : Nat)
    (h : findFrom hay needle start = some pos) :
    start ≤ pos ∧ (hay.drop pos).take needle.length = needle ∧ pos + needle.length ≤ hay.length := by
  unfold findFrom at h
  split at h
  · cases h
  · rename_i hlen
    have hm := List.mem_of_head? h
    rcases List.mem_filter.mp hm with ⟨hr, hp⟩
    simp only [Bool.and_eq_true, decide_eq_true_eq, beq_iff_eq] at hp
    have := List.mem_range.mp hr
    exact ⟨hp.1, hp.2, by omega⟩

/-- One hunk with non-empty context rewrites exactly the matched window and nothing else. -/
theorem hunk_local (lines : List Bytes) (cursor : Nat) (h : Hunk) (hne : h.before.isEmpty = false)
    (out : List Bytes) (hr : applyHunksLines lines cursor [h] = some out) :
    ∃ pos, cursor ≤ pos ∧ (lines.drop pos).take h.before.length = h.before ∧
      out = lines.take pos ++ h.after ++ lines.drop (pos + h.before.length) := by
  unfold applyHunksLines at hr
  simp only [hne, Bool.false_eq_true, ↓reduceIte] at hr
  split at hr
  · cases hr
  · rename_i pos hp
    have := findFrom_sound _ _ _ _ hp
    simp only [applyHunksLines, Option.some.injEq] at hr
    exact ⟨pos, this.1, this.2.1, hr.symm⟩

/-! ### text updates keep the line-ending style and the trailing newline -/

/-- **A text update preserves the file's line-ending style and trailing newline.** For every original
text and every list of hunks that applies (result lines `ls`): re-reading the written text gives
exactly `ls` and the original's trailing-newline flag, so every line break in the output is one the
writer put there, all in one style; the output ends with a newline iff the original did; and the
output contains a CRLF pair iff the original did (and at least one terminator was written).
Hypotheses, all explicit: the lines are what `split_lines` and the patch parser produce (no LF
inside, no CR at the end — `CleanLine`), the result is not the empty file, and — when the original
had no final newline — the result does not end in an empty line (a file cannot say "empty last
line, no newline"). Proofs: Rip/Lemmas/PatchText.lean. -/
theorem update_preserves_style_and_trailing_newline (original out : Bytes) (hunks : List Hunk)
    (ls : List Bytes)
    (h : applyHunks original hunks = some out)
    (hls : applyHunksLines (splitLines original).1 0 hunks = some ls)
    (hne : ls ≠ [])
    (horig : ∀ l ∈ (splitLines original).1, CleanLine l)
    (hafter : ∀ hk ∈ hunks, ∀ l ∈ hk.after, CleanLine l)
    (hlast : (splitLines original).2 = true ∨ ls.getLast? ≠ some []) :
    splitLines out = (ls, (splitLines original).2) ∧
    ((out.getLast? == some 10) = (original.getLast? == some 10)) ∧
    hasCrLf out = (hasCrLf original && ((splitLines original).2 || decide (2 ≤ ls.length))) :=
  applyHunks_preserves original out hunks ls h hls hne horig hafter hlast

/-- Every successful update has this shape (no hypothesis): the hunks are applied to the split
lines, and the result is joined with the original's trailing flag and terminator. -/
theorem update_shape (original out : Bytes) (hunks : List Hunk)
    (h : applyHunks original hunks = some out) :
    ∃ ls, applyHunksLines (splitLines original).1 0 hunks = some ls ∧
          out = joinLines ls (splitLines original).2 (leOf original) :=
  applyHunks_text_shape original out hunks h

/-- **Untouched text is reproduced byte for byte**: on a uniformly terminated text (pure LF with no
CR anywhere, or pure CRLF with every LF preceded by CR) that does not end in a bare CR, splitting
and re-joining is the identity. The last hypothesis is sharp: "\r\n\r" loses its final CR
(`example` in Rip/Lemmas/PatchText.lean; the implementation does the same, which the correspondence
run confirms — a bare CR at the very end of a text is neither a line-ending style nor a trailing
newline, so this is recorded as the boundary of the theorem, not as a violation). -/
theorem untouched_text_identity (text : Bytes) (hne : text ≠ [])
    (huni : ∀ l ∈ (splitLines text).1, CleanLine l)
    (hstyle : hasCrLf text = true → ∀ i : Nat, text[i]? = some 10 → 0 < i ∧ text[i-1]? = some 13)
    (hlf : hasCrLf text = false → 13 ∉ text)
    (hend : text.getLast? ≠ some 13) :
    joinLines (splitLines text).1 (splitLines text).2 (leOf text) = text :=
  joinLines_splitLines text hne huni hstyle hlf hend

/-- non-vacuity: "a\r\nb\r\n", replace "b" by "c","d" -/
example : applyHunks [97, 13, 10, 98, 13, 10] [⟨[[98]], [[99], [100]]⟩]
    = some [97, 13, 10, 99, 13, 10, 100, 13, 10] := by decide

/-! ### non-vacuity: the round-0 defect scenario, now restored by the repaired revert -/

def wsA : FS :=
  { file := fun q => if q = [[97]] then some [112] else none, dir := fun q => q = [] }

def rp (comps : Path) : RPath := { comps := comps, mustDir := false, raw := intercalate [47] comps }

def fbA : FS → Path → Bool := fun fs p =>
  [[[97]], [[97], [98]], [[109]]].any (fun q => p.isPrefixOf q && q != p && (fs.file q).isSome)

def scenario : Except Err (List Bytes) × FS :=
  applyPatchOps fbA wsA [.delete (rp [[97]]), .add (rp [[97], [98]]) [120], .delete (rp [[109]])]

/-- `[Delete a; Add a/b; Delete m]` on `{a ↦ "p"}` fails and `a` has its bytes back. -/
example : scenario.2.file [[97]] = some [112] := by decide

example : (match scenario.1 with | .error .notFound => true | _ => false) = true := by decide

end Rip.Props.C12
