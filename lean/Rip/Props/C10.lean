/-
C10 — branch and handoff record correct lineage and never touch the parent.
Property theorems only. Model: Rip/Model/Lineage.lean. Proofs: Rip/Lemmas/Lineage.lean.
-/
import Rip.Lemmas.Lineage
namespace Rip.Props.C10
open Rip.Lineage

/-- the recorded cut lies within the source thread as it was -/
theorem cut_in_range (T : List F) (hw : WellNumbered T) (sel : Sel) (q : Nat) (m : Option Nat)
    (h : resolveCut T sel = .ok (q, m)) : q ≤ headSeq T := Rip.Lineage.cut_in_range T hw sel q m h

/-- `from_seq`: the cut is the requested seq and names the LAST message at or before it -/
theorem cut_names_last_message (T : List F) (hw : WellNumbered T) (q' q i : Nat)
    (h : resolveCut T (.fromSeq q') = .ok (q, some i)) :
    ∃ f ∈ T, f.id = i ∧ isMessage f = true ∧ f.seq ≤ q ∧ ∀ g ∈ T, isMessage g = true → g.seq ≤ q → g.seq ≤ f.seq :=
  cut_from_seq_last T hw q' q i h

theorem cut_from_seq_exact (T : List F) (q' q : Nat) (m : Option Nat)
    (h : resolveCut T (.fromSeq q') = .ok (q, m)) :
    q = q' ∧ q' ≤ headSeq T ∧
    (∀ i, m = some i → ∃ f ∈ T, f.id = i ∧ isMessage f = true ∧ f.seq ≤ q) ∧
    (m = none → ∀ g ∈ T, isMessage g = true → ¬ g.seq ≤ q) := cut_from_seq T q' q m h

/-- no selector: the head, naming the last message of the thread -/
theorem cut_default_is_head (T : List F) (q : Nat) (m : Option Nat) (h : resolveCut T .none = .ok (q, m)) :
    q = headSeq T ∧ m = lastMessage T (fun _ => true) := cut_none T q m h

/-- `from_message_id`: the requested message together with the end of the run that answered it -/
theorem cut_by_message (T : List F) (hw : WellNumbered T) (mId q : Nat) (m : Option Nat)
    (h : resolveCut T (.fromMsg mId) = .ok (q, m)) :
    m = some mId ∧
    ∃ fm ∈ T, fm.id = mId ∧ isMessage fm = true ∧ fm.seq ≤ q ∧
      (∀ g ∈ T, related mId g = true → fm.seq ≤ g.seq → g.seq ≤ q) ∧
      (q = fm.seq ∨ ∃ g ∈ T, related mId g = true ∧ g.seq = q) := by
  refine ⟨(cut_from_msg T mId q m h).1, ?_⟩
  obtain ⟨fm, h1, h2, h3, h4, _, h6, h7⟩ := cut_from_msg_covers_last T hw mId q m h
  exact ⟨fm, h1, h2, h3, h4, h6, h7⟩

/-- selector errors: both given; out of range; unknown id or id of a non-message frame; unknown thread -/
theorem selector_errors (T : List F) (hne : T ≠ []) :
    (∀ q m, resolveCut T (.both q m) = .error .conflicting) ∧
    (∀ q, headSeq T < q → resolveCut T (.fromSeq q) = .error .outOfRange) ∧
    (∀ mId, (∀ f ∈ T, isMessage f = true → f.id ≠ mId) → resolveCut T (.fromMsg mId) = .error .notFound) :=
  ⟨fun q m => sel_both_rejected T q m, fun q h => sel_seq_out_of_range T hne q h,
   fun mId h => sel_unknown_message T hne mId h⟩

theorem unknown_thread_rejected (sel : Sel) (h : ∀ q m, sel ≠ .both q m) :
    resolveCut [] sel = .error .noSuchThread := unknown_thread sel h

/-- branch: no frame is added to the source thread (or any other existing thread); exactly two
frames are appended; the new thread is [creation@0, lineage@1] with the resolved cut -/
theorem branch_lineage (log log' : Log) (parent child idC idB : Nat) (sel : Sel) (q : Nat) (m : Option Nat)
    (hfresh : streamOf log child = [])
    (h : branch log parent child idC idB sel = .ok (log', q, m)) :
    (∀ t, t ≠ child → streamOf log' t = streamOf log t) ∧
    (∃ fs, log' = log ++ fs ∧ fs.length = 2) ∧
    streamOf log' child = [{ stream := child, id := idC, seq := 0, kind := .created },
                           { stream := child, id := idB, seq := 1, kind := .branched parent q m }] ∧
    resolveCut (streamOf log parent) sel = .ok (q, m) :=
  ⟨branch_parent_untouched log log' parent child idC idB sel q m h,
   branch_appends_only log log' parent child idC idB sel q m h,
   (branch_child_prefix log log' parent child idC idB sel q m hfresh h).1,
   (branch_child_prefix log log' parent child idC idB sel q m hfresh h).2⟩

/-- handoff: the same, and the lineage record always carries a resolvable summary -/
theorem handoff_lineage (log log' : Log) (ex : Nat → Bool) (src child idC idH fresh : Nat) (sel : Sel)
    (md : Bool) (art : Option Nat) (q : Nat) (m a : Option Nat)
    (hfresh : streamOf log child = [])
    (h : handoff log ex src child idC idH fresh sel md art = .ok (log', q, m, a)) :
    (∀ t, t ≠ child → streamOf log' t = streamOf log t) ∧
    (∃ fs, log' = log ++ fs ∧ fs.length = 2) ∧
    streamOf log' child = [{ stream := child, id := idC, seq := 0, kind := .created },
                           { stream := child, id := idH, seq := 1, kind := .handoff src q m a md }] ∧
    (∃ x, a = some x ∧ (art = some x → ex x = true) ∧ (art = none → x = fresh ∧ md = true)) :=
  ⟨handoff_parent_untouched log log' ex src child idC idH fresh sel md art q m a h,
   handoff_appends_only log log' ex src child idC idH fresh sel md art q m a h,
   (handoff_child_prefix log log' ex src child idC idH fresh sel md art q m a hfresh h).1,
   handoff_summary_resolvable log log' ex src child idC idH fresh sel md art q m a h⟩

theorem handoff_needs_a_summary (log : Log) (ex : Nat → Bool) (src child idC idH fresh : Nat) (sel : Sel) :
    handoff log ex src child idC idH fresh sel false none = .error .noSummary :=
  handoff_requires_summary log ex src child idC idH fresh sel

end Rip.Props.C10
