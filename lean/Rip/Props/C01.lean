/-
C01 — per-stream total order: seq 0,1,2,… with no gap or duplicate, any schedule.
Property theorems only. Model: Rip/Model/StoreLTS.lean (one transition = one effect of an append /
creation function). Proofs: Rip/Lemmas/StoreLTS.lean. Witness of the repaired defect:
Rip/Cex/C01.lean. Regenerated fragment: Rip/Gen/EffectOrder.lean.
-/
import Rip.Lemmas.StoreLTS
import Rip.Cex.C01
import Rip.Gen.EffectOrder
import Rip.Lemmas.Emitters
import Rip.Lemmas.SeqAcct
import Rip.Gen.SeqAccounting
namespace Rip.Props.C01
open Rip.StoreLTS

/-- **Per-stream total order under ANY schedule.** For every number of concurrent writers, every
program of appends (any of the locked append functions) and thread creations (branch / handoff /
ensure_default) with fresh thread ids, and every interleaving of their effects — including
authority restarts that lose the in-memory seq map — every stream's frames carry seq 0,1,2,… in
file order, with no gap and no duplicate: a validated replay of the store succeeds. No assumption
about who addresses which thread when. -/
theorem seq_total_order (known : Nat → Bool) (progs : List (List Op)) (h : FreshIds known progs) (sched : List Act) :
    validLog (run true known progs sched).log = true := Rip.StoreLTS.seq_total_order known progs h sched

/-- the k-th frame of a stream carries seq k -/
theorem stream_seqs (known : Nat → Bool) (progs : List (List Op)) (h : FreshIds known progs) (sched : List Act) (σ : Nat) :
    ((run true known progs sched).log.filter (fun e => e.1 == σ)).map (·.2) =
      List.range (count (run true known progs sched).log σ) := Rip.StoreLTS.stream_seqs known progs h sched σ

/-- the seq mutex is a mutex: at most one writer is inside a critical section -/
theorem lock_exclusive (known : Nat → Bool) (progs : List (List Op)) (sched : List Act) (i j : Nat) (wi wj : W)
    (hi : (run true known progs sched).ws[i]? = some wi) (hj : (run true known progs sched).ws[j]? = some wj)
    (hci : 0 < wi.pc) (hcj : 0 < wj.pc) : i = j := Rip.StoreLTS.lock_exclusive known progs sched i j wi wj hi hj hci hcj

/-- appends to a thread that is still being created are refused and write nothing -/
theorem no_frame_before_creation (known : Nat → Bool) (progs : List (List Op))
    (h : FreshIds known progs) (sched : List Act) (i : Nat) (w : W) (σ : Nat)
    (hi : (run true known progs sched).ws[i]? = some w) (hp : Pending w σ) :
    count (run true known progs sched).log σ = 0 :=
  Rip.StoreLTS.no_frame_before_create known progs h sched i w σ hi hp

/-- the defect repaired by the `fix:` commit, kept as a checked witness: without the lock around the
creation a client that addresses the new thread early duplicates seq 1 -/
theorem unlocked_creation_loses_numbering :
    validLog (run false (fun _ => false) Rip.Cex.C01.branchRaceProgs Rip.Cex.C01.branchRaceSched).log = false :=
  Rip.Cex.C01.branch_race.2

/-! ### obligations over the regenerated effect orders -/

def idx (o : List Rip.Gen.Eff) (e : Rip.Gen.Eff) : Option Nat :=
  let i := o.findIdx (· == e)
  if i < o.length then some i else none

def lastIdx (o : List Rip.Gen.Eff) (e : Rip.Gen.Eff) : Option Nat :=
  match idx o.reverse e with
  | some i => some (o.length - 1 - i)
  | none => none

/-- the shape the theorem's `append` models: the seq lock is taken first and released last; the seq
is loaded, the log is appended, the map is bumped after the append — all inside the lock; the frame
is published after it is in the log -/
def criticalSection (o : List Rip.Gen.Eff) : Bool :=
  match idx o (.lock 3), lastIdx o (.unlock 3), idx o .logAppend, lastIdx o .bump, idx o .publish, idx o .seqLoad with
  | some l, some u, some a, some b, some p, some sl =>
    l == 0 && u == o.length - 1 && l < sl && sl < a && a < b && b < u && a < p && p < u &&
    (o.filter (· == .logAppend)).length == 1 && (o.filter (· == .lock 3)).length == 1 &&
    (o.filter (· == .unlock 3)).length == 1
  | _, _, _, _, _, _ => false

/-- all eleven append functions have that shape in the current source -/
theorem gen_appends_are_critical_sections :
    [10, 11, 12, 13, 14, 15, 16, 17, 18, 19, 20].all (fun id => criticalSection (Rip.Gen.orderOf id)) = true := by
  decide

/-- branch and handoff create the thread and write the lineage frame inside one seq-lock section -/
def lockedCreation (o : List Rip.Gen.Eff) : Bool :=
  match idx o (.lock 3), lastIdx o (.unlock 3), idx o .createThread, idx o .logAppend, lastIdx o .bump with
  | some l, some u, some c, some a, some b => l < c && c < a && a < b && b < u && (o.filter (· == .lock 3)).length == 1
  | _, _, _, _, _ => false

theorem gen_creations_are_locked :
    lockedCreation (Rip.Gen.orderOf 21) = true ∧ lockedCreation (Rip.Gen.orderOf 22) = true ∧
    -- ensure_default creates under the lock too
    (match idx (Rip.Gen.orderOf 24) (.lock 3), idx (Rip.Gen.orderOf 24) .createThread, lastIdx (Rip.Gen.orderOf 24) (.unlock 3) with
     | some l, some c, some u => l < c && c < u
     | _, _, _ => false) = true ∧
    -- create_continuity itself never takes the (non-reentrant) seq lock
    ((Rip.Gen.orderOf 23).contains (.lock 3)) = false := by decide

/-- the log file has its own mutex around body + newline + flush (frames never interleave) -/
theorem gen_log_append_atomic :
    Rip.Gen.orderOf 30 = [.lock 5, .fsWrite, .fsWrite, .fsFlush, .unlock 5] := by decide

/-! ### session and task streams -/

/-- **task streams (and session streams, the one-emitter case)**: for any number of concurrent
emitters on one stream (stdout pump, stderr pump, control frames), any frame counts and EVERY
interleaving of the effects of the emitter, the frames reach the log (recorded together with the log
append, inside the seq lock) as seq 0,1,2,… in order — no gap, no duplicate. The emitter's effect
order and the nesting of its two locks are re-proved on the regenerated source right below
(`gen_task_emit_numbers_inside_its_lock`: the per-task seq lock is taken first and released last,
around publish, record and the log append; the same obligation as
`Rip.Props.C06.gen_task_emit_seq_critical`). -/
theorem gen_task_emit_numbers_inside_its_lock :
    (Rip.Gen.orderOf 3).head? = some (.lock 2) ∧ (Rip.Gen.orderOf 3).getLast? = some (.unlock 2) ∧
    ((Rip.Gen.orderOf 3).filter (fun e => e == .lock 2 || e == .unlock 2)).length = 2 := by decide

theorem emitted_streams_numbered (counts sched : List Nat) :
    ∃ k, (Rip.Emitters.run true counts sched).recorded = List.range k :=
  Rip.Emitters.recorded_in_order counts sched

theorem emitted_streams_complete (counts sched : List Nat)
    (hd : Rip.Emitters.allDone (Rip.Emitters.run true counts sched) = true) :
    (Rip.Emitters.run true counts sched).recorded = List.range counts.sum :=
  (Rip.Emitters.complete counts sched hd).2

/-! ### frames numbered from a counter passed by reference (session, tool and task helpers) -/

/-- A helper that follows the discipline "frame literal numbered with the bare counter, then `+= 1`"
(batches standing alone) numbers its frames `n, n+1, …` and leaves the counter right behind the last
one, for every start value and all batch sizes: the next helper continues without gap or duplicate. -/
theorem counted_frames_numbered (ts : List Rip.SeqAcct.Tok) (ms : List Nat) (n : Nat)
    (h : Rip.SeqAcct.wellFormed ts = true) :
    (Rip.SeqAcct.run ts ms ⟨n, []⟩).frames = List.range' n (Rip.SeqAcct.run ts ms ⟨n, []⟩).frames.length ∧
    (Rip.SeqAcct.run ts ms ⟨n, []⟩).ctr = n + (Rip.SeqAcct.run ts ms ⟨n, []⟩).frames.length :=
  Rip.SeqAcct.numbered ts ms n h

/-- **obligation over the regenerated source**: every function of session.rs, rip-tools runtime.rs,
tasks/mod.rs and checkpoints.rs that numbers frames from a dereferenced counter follows that
discipline on every counter it touches (token lists re-extracted by ripx on every run); the helpers
known to do so are present (refused tool call, tool runtime emit, task emit, request stream). -/
theorem gen_seq_accounting :
    Rip.Gen.SeqAccounting.table.all (fun r => Rip.SeqAcct.fnWellFormed r.2) = true ∧
    7 ≤ Rip.Gen.SeqAccounting.table.length ∧
    [735412676739990525, 3566688996211562816, 16348414479796277976, 9139488890823917958].all
      (fun h => (Rip.Gen.SeqAccounting.table.map (·.1)).contains h) = true := by decide

/-- what the discipline excludes: the second frame of a pair numbered `counter + 1` with a single
`+= 1` behind the pair — the next frame of the stream then repeats a seq -/
example : Rip.SeqAcct.wellFormed [.use true, .use false, .bump 1] = false ∧
    (Rip.SeqAcct.run [.use true, .use false, .bump 1, .use true, .bump 1] [] ⟨7, []⟩).frames = [7, 8, 8] := by
  decide

end Rip.Props.C01
