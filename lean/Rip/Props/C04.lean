/-
C04 — caches are transparent; every read terminates. Property theorems only.
Model: Rip/Model/Cache.lean (truth answers of the tail-scanning status queries, the bounded tail
scan, the doubling-window loop, validate-then-fall-back). Proofs: Rip/Lemmas/Cache.lean. Witnesses:
Rip/Cex/C04.lean. Regenerated fragment: Rip/Gen/TailLoops.lean (shape of every doubling-window loop
of continuities.rs, the fall-back conditions and scan_tail's head check, re-extracted on every run).
The windowed read of the full sidecar through its seek index (the compile input's third read path)
is modelled at byte-offset level in Rip/Model/SeekIndex.lean, proofs in Rip/Lemmas/SeekIndex.lean,
regenerated fragment Rip/Gen/SeekUse.lean. The other read capabilities (replay, cut points,
compaction status, branch / handoff cut) are tied by the as-found vs caches-removed comparison only;
their truth semantics are the subject of C09, C08 and C10.
-/
import Rip.Lemmas.Cache
import Rip.Lemmas.SeekIndex
import Rip.Lemmas.SeekIndexGood
import Rip.Gen.SeekUse
import Rip.Cex.C04
import Rip.Gen.TailLoops
namespace Rip.Props.C04
open Rip.Cache

/-- the shape of the code as the translator finds it now -/
def genShape : Shape :=
  { exitAtMax := Rip.Gen.TailLoops.loops.all (fun l => l.2.1),
    resetAcc := (Rip.Gen.TailLoops.loops.filter (fun l => l.1 == 4337257904084417740)).all (fun l => l.2.2.2),
    headCheck := Rip.Gen.TailLoops.headCheck,
    fallback := Rip.Gen.TailLoops.cursorFallback }

/-- **obligations over the regenerated source**: every doubling-window loop leaves at the largest
window and doubles its window; the selection-status loop rescans each window from scratch; both
status queries fall back to the truth log when their scan was not enough; `scan_tail` rejects a file
that it read to its start and that does not begin at seq 0 (the head check). -/
theorem gen_loops_current :
    genShape = current ∧
    Rip.Gen.TailLoops.loops.length = 5 ∧
    Rip.Gen.TailLoops.loops.all (fun l => l.2.2.1) = true ∧
    Rip.Gen.TailLoops.selectionFallback = true := by decide

/-! ### every call terminates, however long the thread is -/

/-- for EVERY cache content, limit, first window and maximum the loop ends within `max - w0 + 1` windows -/
theorem selection_terminates (cs : List F) (limit w0 max : Nat) (hw : 0 < w0) (acc : List Nat) :
    ∃ fuel, (selectionLoop genShape cs limit w0 max acc fuel).isSome = true := by
  rw [gen_loops_current.1]; exact Rip.Cache.selection_terminates current rfl cs limit w0 max hw acc

theorem cursor_terminates (cs : List F) (w0 max : Nat) (hw : 0 < w0) :
    ∃ fuel, (cursorLoop genShape cs w0 max fuel).isSome = true := by
  rw [gen_loops_current.1]; exact Rip.Cache.cursor_terminates current rfl cs w0 max hw

/-- the statement was FALSE of the loops before the repair: on a thread longer than the largest
window they never end (kept as the regression witness) -/
theorem diverged_before_repair :
    (∃ (cs : List F) (limit w0 max : Nat), 0 < w0 ∧ ∀ fuel, selectionLoop asIs cs limit w0 max [] fuel = none) ∧
    (∃ (cs : List F) (w0 max : Nat), 0 < w0 ∧ ∀ fuel, cursorLoop asIs cs w0 max fuel = none) :=
  ⟨Rip.Cex.C04.selection_diverges_as_is, Rip.Cex.C04.cursor_diverges_as_is⟩

/-! ### transparency -/

/-- **with a cache that holds what it should, the fast path gives the truth answer** — for every
thread, limit, first window and maximum (every byte budget), with the shape of the current code -/
theorem selection_transparent (fs : List F) (limit w0 max : Nat) (hw : 0 < w0) :
    ∃ fuel, selectionFast genShape fs fs limit w0 max fuel = some (selectionTruth fs limit) := by
  rw [gen_loops_current.1]; exact selection_transparent_current fs limit w0 max hw

theorem cursor_transparent (fs : List F) (w0 max : Nat) (hw : 0 < w0) :
    ∃ fuel, cursorFast genShape fs fs w0 max fuel = some (cursorTruth fs) := by
  rw [gen_loops_current.1]; exact cursor_transparent_current fs w0 max hw

/-- before the repair the answers were wrong even with perfect caches: duplicated decisions once a
second window was needed, and a partial cursor answer from an incomplete tail -/
theorem wrong_before_repair :
    (∃ (fs : List F) (limit w0 max fuel : Nat),
      selectionFast { exitAtMax := true, resetAcc := false, headCheck := false, fallback := true }
        fs fs limit w0 max fuel ≠ some (selectionTruth fs limit) ∧
      selectionFast Rip.Cex.C04.current' fs fs limit w0 max fuel = some (selectionTruth fs limit)) ∧
    (∃ (fs : List F) (w0 max fuel : Nat),
      cursorFast Rip.Cex.C04.noFallback fs fs w0 max fuel ≠ some (cursorTruth fs) ∧
      cursorFast Rip.Cex.C04.noFallback fs fs w0 max fuel ≠ none ∧
      cursorFast Rip.Cex.C04.current' fs fs w0 max fuel = some (cursorTruth fs)) :=
  ⟨Rip.Cex.C04.selection_duplicates_as_is_reset, Rip.Cex.C04.cursor_partial_without_fallback⟩

/-! ### faulty caches: what is and is not detected (`_partial`: the full statement "for ALL cache
states" is false of the code; the two excluded classes are recorded known findings) -/

/-- a cache file that holds only a suffix of the thread (lost, then recreated by later appends) gave
a WRONG answer before `scan_tail` had its head check (`current'` is that code) … -/
theorem suffix_only_wrong_now : ∃ (fs cs : List F) (limit w0 max fuel : Nat),
    (∃ pre, fs = pre ++ cs) ∧ cs ≠ [] ∧
    selectionFast Rip.Cex.C04.current' fs cs limit w0 max fuel ≠ some (selectionTruth fs limit) ∧
    selectionFast Rip.Cex.C04.current' fs cs limit w0 max fuel ≠ none :=
  Rip.Cex.C04.suffix_only_cache_wrong_now

/-- … and is harmless with the head check in the tail scan (a scan that reaches the start of the
file must begin at seq 0): proved for every valid thread, every non-empty suffix, every window
schedule — first for the shape `repaired`, then (`suffix_only_safe_now`) for the shape regenerated
from the current source -/
theorem suffix_only_safe_with_head_check (fs cs : List F) (hv : Valid fs) (hs : SuffixOf cs fs) (hne : cs ≠ [])
    (limit w0 max : Nat) (hw : 0 < w0) :
    (∃ fuel, selectionFast repaired fs cs limit w0 max fuel = some (selectionTruth fs limit)) ∧
    (∃ fuel, cursorFast repaired fs cs w0 max fuel = some (cursorTruth fs)) :=
  ⟨selection_suffix_safe fs cs hv hs hne limit w0 max hw, cursor_suffix_safe fs cs hv hs hne w0 max hw⟩

theorem suffix_only_safe_now (fs cs : List F) (hv : Valid fs) (hs : SuffixOf cs fs) (hne : cs ≠ [])
    (limit w0 max : Nat) (hw : 0 < w0) :
    (∃ fuel, selectionFast genShape fs cs limit w0 max fuel = some (selectionTruth fs limit)) ∧
    (∃ fuel, cursorFast genShape fs cs w0 max fuel = some (cursorTruth fs)) := by
  rw [gen_loops_current.1]
  exact ⟨selection_suffix_safe fs cs hv hs hne limit w0 max hw, cursor_suffix_safe fs cs hv hs hne w0 max hw⟩

/-- a cache file rolled back to an earlier version (a prefix of the thread) is not detectable by
these validators even with the head check: the answer is stale -/
theorem prefix_only_wrong_even_with_head_check : ∃ (fs cs : List F) (limit w0 max fuel : Nat),
    (∃ post, fs = cs ++ post) ∧
    selectionFast repaired fs cs limit w0 max fuel ≠ some (selectionTruth fs limit) ∧
    selectionFast repaired fs cs limit w0 max fuel ≠ none :=
  Rip.Cex.C04.prefix_only_cache_wrong_even_repaired

/-! ### the seek index of the full sidecar: ANY index content is harmless -/

section Seek
open Rip.SeekIndex

/-- **obligation over the regenerated source**: `best_offset_for_seq` looks the entry up, checks it
against the sidecar line it points at with the failure propagated, and only then reads its offset;
nobody else reads an entry's offset except the loader (monotonicity) and the check itself; both
forward scans of the window read seek to exactly that offset. This is `checkUse = true`. -/
theorem gen_seek_entry_checked_at_use :
    Rip.Gen.SeekUse.bestOffsetTokens = [1, 2, 3] ∧
    (Rip.Gen.SeekUse.offsetReaders.map (·.1)).all (fun f =>
      f == Rip.Gen.SeekUse.h_best_offset_for_seq || f == Rip.Gen.SeekUse.h_load_seq_index_v1 ||
      f == Rip.Gen.SeekUse.h_validate_seq_index_against_sidecar) = true ∧
    Rip.Gen.SeekUse.seekStarts.contains
      (Rip.Gen.SeekUse.h_boundary_pos_for_seq_v1, Rip.Gen.SeekUse.h_start_offset) = true ∧
    Rip.Gen.SeekUse.seekStarts.contains
      (Rip.Gen.SeekUse.h_window_recent_messages_v1_from_cut_v1, Rip.Gen.SeekUse.h_start_offset) = true ∧
    (Rip.Gen.SeekUse.seekStarts.filter (fun p =>
      p.1 == Rip.Gen.SeekUse.h_window_recent_messages_v1_from_cut_v1 ||
      p.1 == Rip.Gen.SeekUse.h_boundary_pos_for_seq_v1)).length = 2 := by decide

/-- for every sidecar with increasing seqs, EVERY content of the index file (missing, rejected and
rebuilt, stale, wrong in any entry), every cut, limit, stride and back-scan budget: when the window
read answers at all, it answers what the index-free read answers -/
theorem seek_index_transparent (stride budget : Nat) (ls : List Line) (file : Option (List Entry))
    (fromSeq limit : Nat) (hs : Sorted ls) (r : List Nat)
    (h : window true stride budget ls file fromSeq limit = some r) :
    r = windowLinear budget ls fromSeq limit :=
  window_checked stride budget ls file fromSeq limit hs r h

/-- … and the index-free read is the specification: exactly the kept frames (messages and run ends)
with `start ≤ seq ≤ fromSeq`, oldest first -/
theorem seek_window_is_spec (budget : Nat) (ls : List Line) (fromSeq limit : Nat) (hs : Sorted ls) :
    windowLinear budget ls fromSeq limit =
      windowSpec (startSeq ls (boundaryGo fromSeq (fileLen ls) 0 ls) fromSeq limit budget) fromSeq ls :=
  windowLinear_spec budget ls fromSeq limit hs


/-- the other half — the index is not merely harmless, it is USED: an index whose entries all point
at the frames they name always answers, and answers the index-free read (every sorted sidecar, every
such index, cut, limit, budget) -/
theorem seek_right_index_is_used (budget : Nat) (ls : List Line) (es : List Entry) (fromSeq limit : Nat)
    (hs : Sorted ls) (hv : AllValid ls es) :
    windowWith true budget ls es fromSeq limit = some (windowLinear budget ls fromSeq limit) :=
  windowWith_valid_exact budget ls es fromSeq limit hs hv

/-- … and a MISSING index file, or one the loader rejects, costs a rebuild and nothing else: on every
non-empty sidecar that holds the thread's frames 0,1,2,… the window read answers the index-free read -/
theorem seek_missing_index_costs_nothing (stride budget : Nat) (l : Line) (ls : List Line)
    (hc : ContigFrom 0 (l :: ls)) (file : Option (List Entry))
    (hrej : match file with | some es => loadOk es = false | none => True) (fromSeq limit : Nat) :
    window true stride budget (l :: ls) file fromSeq limit =
      some (windowLinear budget (l :: ls) fromSeq limit) :=
  window_rebuilt_exact stride budget l ls hc file hrej fromSeq limit

/-- before the repair (only the LAST entry of an index was ever checked) an index with a wrong middle
entry was accepted and the window silently lost frames; now the same read is refused -/
theorem seek_index_wrong_before_repair :
    ∃ (ls : List Line) (es : List Entry) (fromSeq limit : Nat),
      ensure 2 ls (some es) = some es ∧
      window false 2 100 ls (some es) fromSeq limit = some [] ∧
      windowLinear 100 ls fromSeq limit = [3] ∧
      window true 2 100 ls (some es) fromSeq limit = none :=
  ⟨Rip.Cex.C04.Seek.six, Rip.Cex.C04.Seek.skewed, 3, 1, Rip.Cex.C04.Seek.skewed_index_loads,
    Rip.Cex.C04.Seek.skewed_index_wrong_before_repair⟩

/-- non-vacuity: a right index (as found, or rebuilt because it was missing or rejected) is used
and answers -/
example : window true 2 100 Rip.Cex.C04.Seek.six (some Rip.Cex.C04.Seek.good) 3 1 = some [3] ∧
    window true 2 100 Rip.Cex.C04.Seek.six none 3 1 = some [3] :=
  ⟨Rip.Cex.C04.Seek.good_index_answers.1, Rip.Cex.C04.Seek.good_index_answers.2.1⟩

end Seek

end Rip.Props.C04
