/-
C16 — the tool loop answers each provider call exactly once and never runs a barred tool.
Property theorems only. Model: Rip/Model/ToolLoop.lean (ToolCallCollector, ToolChoiceEnforcement,
the request/answer bookkeeping of run_openresponses_agent_loop). Proofs: Rip/Lemmas/ToolLoop.lean.
Regenerated fragments: Rip/Gen/EffectOrder.lean (41 agent loop with tool-choice branch markers,
43 stream_openresponses_request) and Rip/Gen/Consts.lean (DEFAULT_MAX_TOOL_CALLS).
-/
import Rip.Lemmas.ToolLoop
import Rip.Props.C11
import Rip.Gen.Consts
namespace Rip.Props.C16
open Rip.ToolLoop

/-! ### the collector: which calls a response makes -/

/-- each provider event adds at most one call, and only a function-call `done` event adds one: a
call is never produced twice by one event, and never by deltas or `added` alone -/
theorem one_call_per_done_event (c : Collector) (e : PEv) :
    (c.observe e).completed = c.completed ∨
    (isDoneFn e = true ∧ ∃ x, (c.observe e).completed = c.completed ++ [x]) := observe_completed c e

theorem calls_le_done_events (evs : List PEv) : (collect evs).length ≤ (evs.filter isDoneFn).length :=
  collect_length_le evs

/-- a completed call that names its call id and function is never lost (for every reachable collector
state, i.e. after any event history), and carries that call id, name and output index -/
theorem done_call_collected (evs : List PEv) (idx : Nat) (iid : Option Str) (cid n : Str) (a : Option Text)
    (h : nonEmpty iid ≠ none ∨ cid ≠ 0) :
    ∃ x, ((evs.foldl Collector.observe {}).observe (.item true idx true iid (some cid) (some n) a)).completed =
        (evs.foldl Collector.observe {}).completed ++ [x] ∧ x.callId = cid ∧ x.name = n ∧ x.outputIndex = idx :=
  done_collected _ (reachable_wf evs) idx iid cid n a h

/-- the calls are handed to the loop in the provider's output order: a stable sort by output index -/
theorem output_order (c : Collector) :
    (drain c).Perm c.completed ∧ (drain c).Pairwise (fun a b => a.outputIndex ≤ b.outputIndex) ∧
    ∀ k, (drain c).filter (fun x => x.outputIndex == k) = c.completed.filter (fun x => x.outputIndex == k) :=
  ⟨drain_perm c, drain_sorted c, drain_stable c⟩

/-- streamed argument deltas are concatenated in arrival order -/
theorem args_assembled (c : Collector) (i : Str) (hi : i ≠ 0) (idx₀ idx₁ : Nat) (cid n : Str) (hcid : cid ≠ 0)
    (ds : List (Nat × Text)) (cid' n' : Option Str) :
    (((deltaEvents i ds).foldl Collector.observe (c.observe (.item false idx₀ true (some i) (some cid) (some n) none))).observe
        (.item true idx₁ true (some i) cid' n' none)).completed =
      c.completed ++ [{ outputIndex := idx₁, callId := cid'.getD cid, itemId := i, name := n'.getD n,
                        args := (getBuf c.byItem i).args ++ (ds.map (·.2)).flatten }] :=
  Rip.ToolLoop.args_assembled c i hi idx₀ idx₁ cid n hcid ds cid' n'

/-! ### the loop, for every provider script, tool choice, history mode and bound -/

/-- **Answered exactly once, by call id, in the provider's output order, in the very next request**
(previous_response_id mode): the next request's input is exactly one function_call_output per call
of the turn, in order (plus the configured follow-up message) -/
theorem answered_next (cfg : Config) (rs : List Response) (hs : cfg.stateless = false) (i : Nat) (a b : Round)
    (ha : (agentLoop cfg rs).rounds[i]? = some a) (hb : (agentLoop cfg rs).rounds[i+1]? = some b) :
    b.request.input = a.calls.map (fun c => Item.foutput c.callId) ++ msgItems cfg ∧ b.request.hasPrev = true :=
  Rip.ToolLoop.answered_next cfg rs hs i a b ha hb

/-- the same in stateless-history mode, where the next input is the previous input extended by the
calls, their answers and the follow-up message -/
theorem answered_next_stateless (cfg : Config) (rs : List Response) (hs : cfg.stateless = true) (i : Nat) (a b : Round)
    (ha : (agentLoop cfg rs).rounds[i]? = some a) (hb : (agentLoop cfg rs).rounds[i+1]? = some b) :
    b.request.input = a.request.input ++ a.calls.map (fun c => Item.fcall c.callId)
        ++ a.calls.map (fun c => Item.foutput c.callId) ++ msgItems cfg ∧ b.request.hasPrev = false :=
  Rip.ToolLoop.answered_next_stateless cfg rs hs i a b ha hb

/-- **stateless history: each request's input extends the previous one** -/
theorem stateless_extends (cfg : Config) (rs : List Response) (hs : cfg.stateless = true) (i : Nat) (a b : Round)
    (ha : (agentLoop cfg rs).rounds[i]? = some a) (hb : (agentLoop cfg rs).rounds[i+1]? = some b) :
    a.request.input <+: b.request.input := Rip.ToolLoop.stateless_extends cfg rs hs i a b ha hb

/-- **executed at most once**: a turn that has a successor ran or rejected each of its calls exactly
once, in order; in the last turn what ran comes from a prefix of the calls -/
theorem each_call_once (cfg : Config) (rs : List Response) (i : Nat) (a b : Round)
    (ha : (agentLoop cfg rs).rounds[i]? = some a) (hb : (agentLoop cfg rs).rounds[i+1]? = some b) :
    a.executed = (a.calls.filter (fun c => cfg.enf.allows c.name)).map (fun c => (c.callId, c.name)) ∧
    a.rejected = (a.calls.filter (fun c => !cfg.enf.allows c.name)).map (fun c => (c.callId, c.name)) :=
  Rip.ToolLoop.each_call_once cfg rs i a b ha hb

theorem ran_prefix (cfg : Config) (rs : List Response) (a : Round) (ha : a ∈ (agentLoop cfg rs).rounds) :
    ∃ k, a.executed = ((a.calls.take k).filter (fun c => cfg.enf.allows c.name)).map (fun c => (c.callId, c.name)) ∧
         a.rejected = ((a.calls.take k).filter (fun c => !cfg.enf.allows c.name)).map (fun c => (c.callId, c.name)) :=
  Rip.ToolLoop.ran_prefix cfg rs a ha

/-- the calls of a turn are the calls the collector drained from that turn's response -/
theorem calls_are_collected (cfg : Config) (rs : List Response) (i : Nat) (a : Round) (r : Response)
    (ha : (agentLoop cfg rs).rounds[i]? = some a) (hr : rs[i]? = some r) :
    a.calls = [] ∨ a.calls = collect r.events := Rip.ToolLoop.calls_are_collected cfg rs i a r ha hr

/-- **a tool excluded by the configured tool choice is never executed** (`Excluded` is the
specification: none bars everything, a named function bars every other name, an allowed-tools list
bars every name that is not one of its function entries) -/
theorem barred_never_runs (tc : ToolChoice) (cfg : Config) (hc : cfg.enf = tc.enforcement) (rs : List Response)
    (a : Round) (ha : a ∈ (agentLoop cfg rs).rounds) (p : Str × Str) (hp : p ∈ a.executed) : ¬ Excluded tc p.2 :=
  Rip.ToolLoop.barred_never_runs tc cfg hc rs a ha p hp

/-- **the number of tool calls in a run is bounded** (rejections count) -/
theorem bounded (cfg : Config) (rs : List Response) :
    ((agentLoop cfg rs).rounds.map (fun r => r.executed.length + r.rejected.length)).sum ≤ cfg.maxCalls :=
  Rip.ToolLoop.bounded cfg rs

/-- **a request that fails validation is never sent** -/
theorem invalid_never_sent (cfg : Config) (rs : List Response) (a : Round) (ha : a ∈ (agentLoop cfg rs).rounds) :
    cfg.valid a.request = true := Rip.ToolLoop.invalid_never_sent cfg rs a ha

theorem first_request (cfg : Config) (rs : List Response) (a : Round) (ha : (agentLoop cfg rs).rounds[0]? = some a) :
    a.request.input = [.user] ∧ a.request.hasPrev = false := Rip.ToolLoop.first_request cfg rs a ha

/-! ### obligations over the regenerated source tables -/

/-- in the agent loop no tool runs inside the arm that handles a call barred by the tool choice,
and every tool run is under the workspace permit or in the read-only arm -/
theorem gen_loop_respects_tool_choice :
    Rip.Props.C11.toolsGuarded (Rip.Gen.orderOf 41) false false false = true ∧
    (Rip.Gen.orderOf 41).contains .brBarred = true ∧ (Rip.Gen.orderOf 41).contains .runTool = true := by decide

open Rip.Gen in
/-- `stream_openresponses_request`: the validation gate (`if !payload.errors().is_empty() { …; return Err }`)
comes before the only place a request is sent -/
theorem gen_validation_gate_before_send :
    (orderOf 43).filter (fun e => e == .validateGate || e == .httpSend) = [.validateGate, .httpSend] := by decide

/-- the bound the loop enforces is a positive constant of the current source -/
theorem gen_bound_positive : 0 < Rip.Gen.Consts.provider_openresponses_DEFAULT_MAX_TOOL_CALLS := by decide

end Rip.Props.C16
