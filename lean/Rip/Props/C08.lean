/-
C08 — the compiled context is a pure function of thread truth up to the cut point.
Property theorems only. Model: Rip/Model/Context.lean (cut point, recent messages with replies,
summary checkpoints by halving, strategy and decision — what compile_context_bundle_for_run computes).
Proofs: Rip/Lemmas/Context.lean. Witness: Rip/Cex/C08.lean.
-/
import Rip.Lemmas.Context
import Rip.Cex.C08
import Rip.Lemmas.LogBytes
namespace Rip.Props.C08
open Rip.Context

/-! ### what the bundle contains -/

/-- **exactly the most recent messages, at most the limit, at or before the cut and after the
selected summary checkpoint, oldest first**: the selection is a suffix of the in-range messages (no
newer one is skipped), of length min(limit, available), in thread order -/
theorem recent_messages_exact (evs : List F) (f : Nat) (a : Option Nat) (l : Nat) :
    selectRecent evs f a l <:+ (messages evs).filter (inRange f a) ∧
    (selectRecent evs f a l).length = min l ((messages evs).filter (inRange f a)).length ∧
    (selectRecent evs f a l).Sublist evs :=
  ⟨selectRecent_suffix evs f a l, selectRecent_length evs f a l, selectRecent_sublist evs f a l⟩

theorem recent_messages_in_range (evs : List F) (f : Nat) (a : Option Nat) (l : Nat) (m : F)
    (h : m ∈ selectRecent evs f a l) :
    m ∈ evs ∧ m.isMessage = true ∧ m.seq ≤ f ∧ (∀ x, a = some x → x < m.seq) := selectRecent_mem evs f a l m h

/-- **the cut point** is fixed by the triggering message: at or after it, at or before the head; with a
later message present it is the frame just before that message -/
theorem cut_point (evs : List F) (hv : Valid evs) (anchor : Nat) (c : Nat) (h : cutpoint evs anchor = some c) :
    ∃ m ∈ messages evs, m.id = anchor ∧ m.seq ≤ c ∧ c ≤ max m.seq (headSeq evs) := cutpoint_spec evs hv anchor c h

theorem cut_point_before_next_message (evs : List F) (hi : Increasing evs) (anchor : Nat) (a n : F) (post : List F)
    (h : (messages evs).dropWhile (fun f => f.id != anchor) = a :: n :: post) :
    a.seq < n.seq ∧ cutpoint evs anchor = some (n.seq - 1) ∧ n.seq - 1 + 1 = n.seq := cutpoint_next evs hi anchor a n post h

theorem unknown_message_refused (evs : List F) (anchor : Nat) :
    cutpoint evs anchor = none ↔ ∀ m ∈ messages evs, m.id ≠ anchor := cutpoint_none_iff evs anchor

/-- **the selected summary references**: at most `maxRefs` cumulative checkpoints, ascending, the last
one the latest available, each at most half the next (halving), and for each to_seq the latest frame -/
theorem summary_hierarchy (cps : List Cp) (n : Nat) :
    (hierarchy cps n).length ≤ n ∧
    (∀ c ∈ hierarchy cps n, c ∈ cps ∧ c.cumulative = true) ∧
    (hierarchy cps n).Pairwise (fun a b => a.toSeq < b.toSeq) ∧
    (hierarchy cps n).Pairwise (fun a b => a.toSeq ≤ b.toSeq / 2) ∧
    (∀ c ∈ hierarchy cps n, ∀ d ∈ cps, d.cumulative = true → d.toSeq = c.toSeq → d.frameSeq ≤ c.frameSeq) :=
  ⟨hierarchy_length cps n, fun c h => hierarchy_mem cps n c h, hierarchy_sorted cps n, hierarchy_halves cps n,
   fun c h => hierarchy_latest_frame cps n c h⟩

theorem summary_hierarchy_ends_at_latest (cps : List Cp) (n : Nat) (hn : 0 < n) (c : Cp) (hc : c ∈ cps)
    (hcum : c.cumulative = true) : ∃ l, (hierarchy cps n).getLast? = some l ∧ c.toSeq ≤ l.toSeq :=
  hierarchy_last_is_latest cps n hn c hc hcum

/-! ### frames appended after the cut point -/

/-- **FULL statement, for the repaired semantics** (a checkpoint frame appended after the cut is not
eligible): once a later message fixes the cut, whatever is appended afterwards — messages, runs,
checkpoints of any to_seq, anything — leaves bundle and decision unchanged. -/
theorem later_frames_irrelevant (evs later : List F) (hv : Valid (evs ++ later)) (anchor : Nat)
    (hn : HasNext evs anchor) (reply : Nat → Nat) :
    compile true (evs ++ later) anchor reply = compile true evs anchor reply :=
  Rip.Context.later_frames_irrelevant evs later hv anchor hn reply

/-- **the code as it is** (`to_seq ≤ cut` alone makes a checkpoint eligible): proved for every suffix
that holds no checkpoint frame summarising up to the cut or before — `_partial`; the excluded case is a
recorded known finding … -/
theorem later_frames_irrelevant_partial (evs later : List F) (hv : Valid (evs ++ later)) (anchor : Nat)
    (hn : HasNext evs anchor) (reply : Nat → Nat) (c : Nat) (hc : cutpoint evs anchor = some c)
    (hl : ∀ f ∈ later, ∀ cp t cum a, f.kind = .checkpoint cp t cum a → c < t) :
    compile false (evs ++ later) anchor reply = compile false evs anchor reply :=
  Rip.Context.later_frames_irrelevant_partial evs later hv anchor hn reply c hc hl

/-- … and the full statement is FALSE of it (checked witness, replayed on the implementation) -/
theorem later_frames_matter_as_is :
    ∃ (evs later : List F) (anchor : Nat),
      Valid (evs ++ later) ∧
      (∃ a n post, (messages evs).dropWhile (fun f => f.id != anchor) = a :: n :: post) ∧
      compile false (evs ++ later) anchor (fun _ => 0) ≠ compile false evs anchor (fun _ => 0) :=
  Rip.Cex.C08.late_checkpoint_changes_result

/-! ### which internal read path produced the input -/

/-- the messages+runs projection (what the `mr` sidecar holds) yields the same messages and replies -/
theorem mr_projection_suffices (evs : List F) (hv : Valid evs) (f : Nat) (a : Option Nat) (l : Nat)
    (reply : Nat → Nat) (sel : List F) :
    selectRecent (evs.filter isMR) f a l = selectRecent evs f a l ∧
    messageItems (evs.filter isMR) f reply sel = messageItems evs f reply sel :=
  ⟨mr_selectRecent evs f a l, mr_messageItems evs hv f reply sel⟩

/-- a suffix window (tail scan, seekable window) yields the same messages as the whole thread as soon
as it holds `limit` messages in range, or all of them; and the same reply for every message whose
run_ended frame is not before the window -/
theorem window_suffices (pre win : List F) (f : Nat) (a : Option Nat) (l : Nat) :
    (l ≤ ((messages win).filter (inRange f a)).length → selectRecent (pre ++ win) f a l = selectRecent win f a l) ∧
    ((∀ m ∈ messages pre, inRange f a m = false) → selectRecent (pre ++ win) f a l = selectRecent win f a l) :=
  ⟨window_selectRecent pre win f a l, window_selectRecent_all pre win f a l⟩

theorem window_replies (pre win : List F) (hv : Valid (pre ++ win)) (f mid : Nat)
    (h : ∀ x ∈ pre, ∀ s, x.kind ≠ .runEnded mid s) : endedFor (pre ++ win) f mid = endedFor win f mid :=
  window_endedFor pre win hv f mid h

/-! ### frames whose append is in flight -/

/-- **A frame that is still being written does not exist for a reader**: behind a log of whole
lines, whatever part of the next frame's body is already in the file (no newline yet), the lines a
reader gets — and therefore every reply text, message and checkpoint the compiler reads from the log
— are those of the log before that append began. The real `EventLog::replay` is run on exactly such
files (a parked writer; a body cut at a random byte) by the harness on every run; before the repair
97db05b it failed as a whole there and the compiled context lost its reply texts. -/
theorem inflight_frame_invisible (log frag : Rip.Proto.Bytes)
    (hw : Rip.LogBytes.WholeLines log) (hf : Rip.LogBytes.NoNl frag) :
    Rip.LogBytes.linesOf (log ++ frag) = Rip.LogBytes.linesOf log :=
  Rip.LogBytes.linesOf_inflight log frag hw hf

example : Rip.LogBytes.linesOf ([123, 125, 10] ++ [123, 34, 105]) = [[123, 125]] := by decide

end Rip.Props.C08
