/-
C17 — captured process output is faithful; a task has one well-formed lifecycle.
Property theorems only. Models: Rip/Model/Capture.lean (bytes), Rip/Model/TaskLTS.lean (lifecycle).
Proofs: Rip/Lemmas/Capture.lean, Rip/Lemmas/TaskLTS.lean.
-/
import Rip.Lemmas.Capture
import Rip.Lemmas.TaskLTS
namespace Rip.Props.C17
open Rip.Proto Rip.Capture Rip.TaskLTS

/-! ### (a) bytes -/

/-- The stored task log is byte-for-byte the prefix of what the process wrote, up to the cap —
for every chunking and every cap (0 included). -/
theorem stored_is_prefix (cap : Nat) (cs : List Bytes) :
    ((LogW.init cap).feed cs).1.stored = cs.flatten.take cap := logw_stored_is_prefix cap cs

theorem log_total_and_truncation (cap : Nat) (cs : List Bytes) :
    ((LogW.init cap).feed cs).1.total = cs.flatten.length ∧
    (((LogW.init cap).feed cs).1.truncated = true ↔ cap < cs.flatten.length) :=
  ⟨logw_total cap cs, logw_truncated_iff cap cs⟩

/-- The ranges named by the output frames are consecutive, non-overlapping and tile the stored bytes. -/
theorem ranges_contiguous (cap : Nat) (cs : List Bytes) :
    RangesFrom 0 ((LogW.init cap).feed cs).2 ((LogW.init cap).feed cs).1.stored.length :=
  logw_ranges_tile cap cs

/-- Each range names exactly the stored part of its chunk, and that part is as long as the cap allows. -/
theorem range_names_chunk (cap : Nat) (cs : List Bytes) (i : Nat) (h : i < cs.length) :
    (∃ r, ((LogW.init cap).feed cs).2[i]? = some r ∧
      (((LogW.init cap).feed cs).1.stored.drop r.offset).take r.bytes = (cs[i]).take r.bytes) ∧
    (∃ r, ((LogW.init cap).feed cs).2[i]? = some r ∧ r.bytes = min (cap - r.offset) (cs[i]).length) :=
  ⟨logw_range_bytes cap cs i h, logw_range_count cap cs i h⟩

/-- Foreground shell tool: the inline preview buffer is the prefix of the output within its limit,
and the spill artifact — present whenever the output exceeded the preview limit and the cap is
positive — is the prefix of the output up to the artifact cap; both for every chunking. -/
theorem shell_preview_is_prefix (maxPrev artMax : Nat) (cs : List Bytes) :
    (Cap.run maxPrev artMax cs).preview = cs.flatten.take maxPrev := cap_preview_is_prefix maxPrev artMax cs

theorem shell_artifact_is_prefix (maxPrev artMax : Nat) (cs : List Bytes) (s : Bytes) (t : Bool)
    (h : ((Cap.run maxPrev artMax cs).finish maxPrev).artifact = some (s, t)) :
    s = cs.flatten.take artMax ∧ (t = true ↔ s.length < cs.flatten.length) :=
  cap_finish_artifact maxPrev artMax cs s t h

theorem shell_artifact_exists (maxPrev artMax : Nat) (cs : List Bytes)
    (hgt : maxPrev < cs.flatten.length) (hpos : 0 < artMax) :
    ((Cap.run maxPrev artMax cs).file).isSome = true := cap_file_exists maxPrev artMax cs hgt hpos

/-- Reading stored output page by page, advancing by the byte count each page reports, reproduces
the stored bytes exactly — for every page size > 0. -/
theorem pages_reassemble_bytes (file : Bytes) (max : Nat) (h : 0 < max) :
    (walk file max (file.length + 1) 0).flatten = file := pages_reassemble file max h

/-! ### (b) lifecycle -/

/-- Under every schedule of the main task, both output pumps and the client (cancellation at any
moment), the recorded stream is a well-formed prefix of `spawned (failed | running delta*
((exited|failed) | cancelRequested delta* cancelled (cancelled|failed)))`. -/
theorem lifecycle_wellformed_prefix (c : Cfg) (sched : List Actor) : prefixOK (run c sched).trace = true :=
  lifecycle_prefix c sched

/-- …and a complete lifecycle once the task has finished: spawn frame first, running at most once,
exactly one terminal status, cancellation request recorded before the cancelled status. -/
theorem lifecycle_wellformed (c : Cfg) (sched : List Actor) (h : (run c sched).pc = 9) :
    lifecycleOK (run c sched).trace = true := lifecycle_complete c sched h

theorem nothing_follows_terminal (c : Cfg) (sched more : List Actor) (h : (run c sched).pc = 9) :
    (run c (sched ++ more)).trace = (run c sched).trace := nothing_after_terminal c sched more h

theorem output_precedes_terminal (c : Cfg) (sched : List Actor) (h : (run c sched).pc = 9) :
    let s := run c sched
    s.started = true → s.outDone = true ∧ s.errDone = true ∧ s.outLeft = 0 ∧ s.errLeft = 0 :=
  pumps_joined c sched h

theorem task_can_finish (c : Cfg) : ∃ sched, (run c sched).pc = 9 := can_complete c

/-! ### non-vacuity -/
example : ((LogW.init 5).feed [[1, 2, 3], [4, 5, 6], [7]]).1.stored = [1, 2, 3, 4, 5] := by decide
example : (((LogW.init 5).feed [[1, 2, 3], [4, 5, 6], [7]]).2.map (fun r => (r.offset, r.bytes))) = [(0, 3), (3, 2), (5, 0)] := by decide

end Rip.Props.C17
