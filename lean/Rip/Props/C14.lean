/-
C14 — rewind restores exactly the checkpointed files from any later state.
Property theorems only. Model: Rip/Model/Checkpoint.lean over the file system of Rip/Model/Patch.lean.
Proofs: Rip/Lemmas/Checkpoint.lean.
-/
import Rip.Lemmas.Checkpoint
namespace Rip.Props.C14
open Rip.Proto Rip.Patch Rip.Paths Rip.Checkpoint

/-- A checkpoint records, for every covered path, exactly the content at checkpoint time
(bytes, or absent). -/
theorem create_records (rootRaw : Bytes) (fs0 : FS) (raws : List Bytes) (ck : Ckpt)
    (h : create rootRaw fs0 raws = .ok ck) :
    ∀ e ∈ ck, e.content = fs0.file e.path ∧ e.mustDir = false :=
  Rip.Checkpoint.create_records rootRaw fs0 raws ck h

/-- **Rewind is exact from ANY later state**: whatever happened to the workspace in between
(`fs1` is arbitrary), after a successful rewind every covered path has the bytes it had when the
checkpoint was taken, and every covered path that did not exist then is absent. -/
theorem rewind_exact (rootRaw : Bytes) (fs0 fs1 fs' : FS) (raws : List Bytes) (ck : Ckpt)
    (hc : create rootRaw fs0 raws = .ok ck) (hr : rewind fs1 ck = (true, fs')) :
    ∀ e ∈ ck, fs'.file e.path = fs0.file e.path :=
  Rip.Checkpoint.rewind_exact rootRaw fs0 fs1 fs' raws ck hc hr

/-- Rewind never touches a path the checkpoint does not cover. -/
theorem rewind_only_covered (fs1 fs' : FS) (ck : Ckpt) (ok : Bool) (hr : rewind fs1 ck = (ok, fs')) :
    ∀ q, (∀ e ∈ ck, e.path ≠ q) → fs'.file q = fs1.file q :=
  Rip.Checkpoint.rewind_only_covered fs1 fs' ck ok hr

/-- **A rewind that fails leaves the workspace as it was** (every file, covered or not). -/
theorem rewind_fail_noop (rootRaw : Bytes) (fs0 fs1 fs' : FS) (raws : List Bytes) (ck : Ckpt)
    (hwf0 : WF fs0) (hwf1 : WF fs1)
    (hc : create rootRaw fs0 raws = .ok ck) (hr : rewind fs1 ck = (false, fs')) :
    ∀ q, fs'.file q = fs1.file q :=
  Rip.Checkpoint.rewind_fail_noop rootRaw fs0 fs1 fs' raws ck hwf0 hwf1 hc hr

/-- **The automatic checkpoint of a patch covers every file the patch can change**: a successful
patch changes no file other than the ones it names, and the named paths are what
`files_for_invocation` hands to the checkpoint. Together with `rewind_exact` an edit can always be
undone. -/
theorem auto_covers_patch (fs fs' : FS) (ops : List Op) (h : specRun fs ops = some fs') :
    ∀ q, q ∉ (ops.map namedComps).flatten → fs'.file q = fs.file q :=
  Rip.Patch.spec_changes_only_named fs fs' ops h

/-! ### non-vacuity -/

def ws0 : FS := { file := fun q => if q = [[97]] then some [49] else none, dir := fun q => q = [] }
def ws1 : FS := { file := fun q => if q = [[97]] then some [50] else if q = [[98]] then some [51] else none,
                  dir := fun q => q = [] }
def ckA : Ckpt := [{ path := [[97]], mustDir := false, content := some [49] },
                   { path := [[98]], mustDir := false, content := none }]

/-- checkpoint {a ↦ "1", b absent}; later a ↦ "2", b ↦ "3"; rewind restores both -/
example : (rewind ws1 ckA).1 = true ∧ (rewind ws1 ckA).2.file [[97]] = some [49] ∧
    (rewind ws1 ckA).2.file [[98]] = none := by decide

end Rip.Props.C14
