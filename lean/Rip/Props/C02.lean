/-
C02 — the truth log is append-only; read-only and no-op capabilities never write.
Property theorems only. Model: Rip/Model/LogBytes.lean (+ the planner model of C09 for the no-op
and dry-run invocations). Regenerated fragments: Rip/Gen/LogEffects.lean (how impl EventLog opens
and writes the file), Rip/Gen/CallGraph.lean (which ContinuityStore functions can reach a log
append), Rip/Gen/EffectOrder.lean (what EventLog::append does).
-/
import Rip.Lemmas.LogBytes
import Rip.Model.Compaction
import Rip.Gen.LogEffects
import Rip.Gen.CallGraph
import Rip.Gen.EffectOrder
namespace Rip.Props.C02
open Rip.Proto Rip.LogBytes

/-- every append leaves the previous file content as an exact prefix -/
theorem append_only (log : Bytes) (frames : List Bytes) : log <+: appendAll log frames :=
  appendAll_prefix log frames

/-- …and adds only whole, newline-terminated frames: the lines of the new log are the old lines
followed by exactly the appended frames (no frame is split, merged or altered) -/
theorem adds_whole_frames (log line : Bytes) (hw : WholeLines log) (hn : NoNl line) :
    WholeLines (appendLine log line) ∧ linesOf (appendLine log line) = linesOf log ++ [line] := by
  refine ⟨appendLine_whole log line, ?_⟩
  unfold appendLine linesOf
  rw [List.append_assoc, go_whole_append log (line ++ [10]) [] hw]
  have hg : linesOf.go (line ++ [10]) [] = [line] := by
    have := go_append line [] [] hn
    simpa [linesOf.go] using this
  by_cases he : log = []
  · subst he; simp [hg, linesOf.go]
  · simp [he, hg]

theorem append_all_whole (log : Bytes) (frames : List Bytes) (hw : WholeLines log) :
    WholeLines (appendAll log frames) := appendAll_whole log frames hw

/-! ### obligations over regenerated fragments -/

/-- the truth file is only ever opened create+append — never truncated, never opened for plain
write — and `impl EventLog` contains no File::create / set_len / seek / rename / remove call -/
theorem gen_log_opened_append_only :
    Rip.Gen.LogEffects.opens.all (fun o => o.append && !o.truncate && !o.createNew) = true ∧
    Rip.Gen.LogEffects.opens ≠ [] ∧ Rip.Gen.LogEffects.destructiveCalls = 0 := by decide

/-- `EventLog::append` is: take the writer lock, write the body, write the newline, flush, unlock -/
theorem gen_log_append_shape :
    Rip.Gen.orderOf 30 = [.lock 5, .fsWrite, .fsWrite, .fsFlush, .unlock 5] := by decide

/-- **Read-only capabilities never write, for every argument**: in the call graph of
`impl ContinuityStore`, none of replay_events, compaction_cut_points_v1, compaction_status_v1,
provider_cursor_status_v1, context_selection_status_v1, list, get, subscribe and the three
compile-input loaders can reach a function that appends to the event log; and no cache-layer file
mentions the event log at all. -/
theorem gen_readonly_never_append :
    Rip.Gen.CallGraph.readOnlyEntries.all (fun e => !canAppend Rip.Gen.CallGraph.fns e) = true ∧
    Rip.Gen.CallGraph.readOnlyEntries.length = 11 ∧
    Rip.Gen.CallGraph.cacheFilesMentioningLog = 0 := by decide

/-- non-vacuity of the reachability check: some function does reach an append -/
theorem gen_some_function_appends :
    (Rip.Gen.CallGraph.fns.map (·.1)).any (fun e => canAppend Rip.Gen.CallGraph.fns e) = true := by decide

/-! ### no-op and dry-run invocations (planner model of C09) -/

/-- auto compaction with nothing to do, or as a dry run, appends nothing — for every thread, stride,
max_new and id supply -/
theorem auto_noop_or_dry_run_silent (T : Rip.Compaction.Thread) (fresh : Nat → Nat)
    (job stride maxNew : Nat) (dry : Bool)
    (h : Rip.Compaction.plan T stride maxNew = [] ∨ dry = true) :
    (Rip.Compaction.auto T fresh job stride maxNew dry).2.2 = [] := by
  unfold Rip.Compaction.auto
  rcases h with h | h
  · simp [h]
  · simp [h]

/-- the scheduler with nothing to do, or as a dry run, appends nothing -/
theorem schedule_noop_or_dry_run_silent (T : Rip.Compaction.Thread) (fresh : Nat → Nat)
    (job stride maxNew : Nat) (b e d : Bool)
    (h : Rip.Compaction.plan T stride maxNew = [] ∨ d = true) :
    (Rip.Compaction.schedule T fresh job stride maxNew b e d).2.2 = [] := by
  unfold Rip.Compaction.schedule
  rcases h with h | h
  · simp [h]
  · by_cases hp : (Rip.Compaction.plan T stride maxNew).isEmpty <;> simp [h, hp]

/-- the planner functions that spawn compaction jobs (`compaction_auto_schedule_spawn_job_v1`,
`compaction_auto_spawn_job_v1`) return from their dry-run gate before anything that appends a frame
(the in-flight check of the scheduler appends a decision frame, so it must come after the gate) -/
theorem gen_dry_run_gate_precedes_appends :
    (Rip.Gen.orderOf 45).head? = some .dryRunGate ∧ (Rip.Gen.orderOf 46).head? = some .dryRunGate ∧
    (Rip.Gen.orderOf 45).contains .appendFrame = true := by decide

end Rip.Props.C02
