/-
C07 model: the frames one run produces, on its session stream and on the thread it is attached
to (`thread_post_message` in ripd/src/server.rs, `run_session` and `run_openresponses_agent_loop`
in ripd/src/session.rs), as a function of everything the environment can do: the input kind, whether
a provider is configured, whether context compilation succeeds, what each provider turn streams
(any number of provider frames) and which tools it makes the loop run (each with any number of tool
frames), how the loop ends, and whether the provider gave a response id.
-/
namespace Rip.RunLife

/-- thread frame kinds of a run -/
inductive TK
  | message | runSpawned | selDecided | compiled | sideFx | cursor | runEnded
  deriving Repr, DecidableEq

/-- session frame kinds -/
inductive SK
  | started | output | provider | tool | ended
  deriving Repr, DecidableEq

inductive Fr
  | thread (k : TK)
  | session (k : SK)
  deriving Repr, DecidableEq

structure Tool where
  needsLock : Bool          -- requires_workspace_lock(name)
  barred : Bool             -- rejected by tool_choice (agent loop only)
  frames : Nat              -- tool frames emitted besides tool_started (stdout, ended/failed, checkpoint …)
  deriving Repr, DecidableEq

structure Turn where
  providerFrames : Nat      -- request/headers/first-byte/provider_event frames of this request
  tools : List Tool
  deriving Repr, DecidableEq

inductive Input
  | prompt
  | tool (t : Tool)
  | checkpoint (frames : Nat)
  deriving Repr, DecidableEq

structure Run where
  input : Input
  linked : Bool             -- attached to a thread (posted through the thread API)
  provider : Bool           -- a provider is configured
  compileOk : Bool
  turns : List Turn
  completed : Bool          -- the loop's reason is "completed"
  hasCursor : Bool          -- the provider sent a response id
  deriving Repr, DecidableEq

def rep (n : Nat) (f : Fr) : List Fr := List.replicate n f

/-- frames of one executed tool: tool_started, its other frames, then (mutating tool of an attached
run) the side-effects frame on the thread — emitted after the tool's frames, inside the lock -/
def toolFrames (linked inLoop : Bool) (t : Tool) : List Fr :=
  if inLoop && t.barred then [.session .tool, .session .tool]      -- tool_started + tool_failed, nothing runs
  else
    .session .tool :: rep t.frames (.session .tool) ++
      (if linked && t.needsLock then [.thread .sideFx] else [])

def turnFrames (linked : Bool) (t : Turn) : List Fr :=
  rep t.providerFrames (.session .provider) ++ (t.tools.map (toolFrames linked true)).flatten

/-- the body of `run_session` after the start frame -/
def body (r : Run) : List Fr :=
  match r.input with
  | .tool t => toolFrames r.linked false t ++ [.session .output, .session .ended]
  | .checkpoint n => rep n (.session .tool) ++ [.session .output, .session .ended]
  | .prompt =>
    if !r.provider then [.session .output, .session .ended]
    else if r.linked && !r.compileOk then [.session .ended]          -- context_compile_failed
    else
      (if r.linked then [.thread .selDecided, .thread .compiled] else []) ++
      (r.turns.map (turnFrames r.linked)).flatten ++
      (if r.completed && r.linked && r.hasCursor then [.thread .cursor] else []) ++
      [.session .ended]

/-- everything a run writes, in order: `thread_post_message` (message, run_spawned), the session,
and the single exit path (`run_ended` after the terminal session frame and the snapshot) -/
def trace (r : Run) : List Fr :=
  (if r.linked then [.thread .message, .thread .runSpawned] else []) ++
  [.session .started] ++ body r ++
  (if r.linked then [.thread .runEnded] else [])

def threadOf (l : List Fr) : List TK := l.filterMap (fun f => match f with | .thread k => some k | _ => none)
def sessionOf (l : List Fr) : List SK := l.filterMap (fun f => match f with | .session k => some k | _ => none)

/-- the lifecycle grammar of a thread's view of one run:
message, run_spawned, [selection, compiled], side-effects*, [cursor], run_ended -/
def lifecycleOk : List TK → Bool
  | .message :: .runSpawned :: rest =>
    let rest := match rest with
      | .selDecided :: .compiled :: r => r
      | r => r
    let rest := rest.dropWhile (· == .sideFx)
    let rest := match rest with
      | .cursor :: r => r
      | r => r
    rest == [.runEnded]
  | _ => false

/-- several runs on one thread: frames tagged by run; any interleaving that keeps each run's order -/
def projRun (i : Nat) (l : List (Nat × Fr)) : List Fr := (l.filter (fun p => p.1 == i)).map (·.2)

end Rip.RunLife
