/-
C14 model: `Workspace::create_checkpoint` / `rewind_to_checkpoint` of crates/rip-workspace
(after the C13/C14 repair: paths are validated first and read through the root-relative
location), over the file-system model of Rip/Model/Patch.lean.
-/
import Rip.Model.Paths
namespace Rip.Checkpoint
open Rip.Proto Rip.Patch Rip.Paths

structure Entry where
  path : Path            -- root-relative normal components
  mustDir : Bool         -- spelling ends in `/` or `/.`
  content : Option Bytes -- `exists` + stored bytes
  deriving Repr, DecidableEq

abbrev Ckpt := List Entry

inductive CErr | refused (r : Refusal) | io
  deriving Repr, DecidableEq

/-- one path of `create_checkpoint`, already validated: read through `root.join(rel)` -/
def snapshotOne (fs : FS) (p : Path) (mustDir : Bool) : Except CErr Entry :=
  if mustDir then
    if fs.dir p then .error .io else .ok { path := p, mustDir := true, content := none }
  else if fs.exists p then
    match fs.file p with
    | some b => .ok { path := p, mustDir := false, content := some b }
    | none => .error .io                -- a directory: `fs::read` fails
  else .ok { path := p, mustDir := false, content := none }

def snapshotAll (fs : FS) : List (Path × Bool) → Except CErr Ckpt
  | [] => .ok []
  | (p, m) :: rest =>
    match snapshotOne fs p m with
    | .error e => .error e
    | .ok e =>
      match snapshotAll fs rest with
      | .error e2 => .error e2
      | .ok es => .ok (e :: es)

/-- validation pass of `create_checkpoint` (all paths, before anything is created) -/
def validateAll (rootRaw : Bytes) : List Bytes → Except CErr (List (Path × Bool))
  | [] => .ok []
  | raw :: rest =>
    match toRelative rootRaw raw with
    | .error r => .error (.refused r)
    | .ok rel =>
      match validateAll rootRaw rest with
      | .error e => .error e
      | .ok ps =>
        -- `strip_prefix` rebuilds the relative path from components: a trailing `/` or `/.` of the
        -- caller's spelling is gone, so the recorded path never forces "must be a directory"
        .ok ((normals rel, false) :: ps)

def create (rootRaw : Bytes) (fs : FS) (raws : List Bytes) : Except CErr Ckpt :=
  match validateAll rootRaw raws with
  | .error e => .error e
  | .ok ps => snapshotAll fs ps

/-- pre-read phase of rewind: current content of every covered path (`undo` map) -/
def preRead (fs : FS) : Ckpt → Option (List (Path × Option Bytes))
  | [] => some []
  | e :: es =>
    let cur : Option (Option Bytes) :=
      if e.mustDir then (if fs.dir e.path then none else some none)
      else if fs.exists e.path then (match fs.file e.path with | some b => some (some b) | none => none)
      else some none
    match cur with
    | none => none
    | some v =>
      match preRead fs es with
      | none => none
      | some rest => some ((e.path, v) :: rest)

/-- apply phase: restore each entry in order; stops at the first failing step -/
def applyEntries (fs : FS) : Ckpt → FS × Bool
  | [] => (fs, true)
  | e :: es =>
    match e.content with
    | some b =>
      match fs.createDirAll e.path.dropLast with
      | none => (fs, false)
      | some fs1 =>
        match fs1.write e.path b with
        | none => (fs1, false)
        | some fs2 => applyEntries fs2 es
    | none =>
      if e.mustDir then applyEntries fs es
      else if fs.exists e.path then
        match fs.removeFile e.path with
        | none => (fs, false)
        | some fs1 => applyEntries fs1 es
      else applyEntries fs es

/-- rollback of a failed rewind (errors ignored) -/
def rollback (fs : FS) : List (Path × Option Bytes) → FS
  | [] => fs
  | (p, v) :: rest =>
    let fs1 := match v with
      | some b =>
        let f0 := match fs.createDirAll p.dropLast with | some f => f | none => fs
        match f0.write p b with | some f => f | none => f0
      | none => match fs.removeFile p with | some f => f | none => fs
    rollback fs1 rest

/-- `rewind_to_checkpoint`: `(ok?, resulting file system)` -/
def rewind (fs : FS) (ck : Ckpt) : Bool × FS :=
  match preRead fs ck with
  | none => (false, fs)
  | some undo =>
    match applyEntries fs ck with
    | (fs1, true) => (true, fs1)
    | (fs1, false) => (false, rollback fs1 undo)

end Rip.Checkpoint
