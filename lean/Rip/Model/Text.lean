/-
`str::trim`, `trim_start`, `trim_end` (Unicode White_Space) on UTF-8 byte strings. Import-free.
-/
import Rip.Model.Proto
namespace Rip.Text
open Rip.Proto

/-! ### `str::trim` (Unicode White_Space) on UTF-8 bytes -/

def wsSeqs : List Bytes :=
  [[9], [10], [11], [12], [13], [32], [0xC2, 0x85], [0xC2, 0xA0], [0xE1, 0x9A, 0x80],
   [0xE2, 0x80, 0x80], [0xE2, 0x80, 0x81], [0xE2, 0x80, 0x82], [0xE2, 0x80, 0x83], [0xE2, 0x80, 0x84],
   [0xE2, 0x80, 0x85], [0xE2, 0x80, 0x86], [0xE2, 0x80, 0x87], [0xE2, 0x80, 0x88], [0xE2, 0x80, 0x89],
   [0xE2, 0x80, 0x8A], [0xE2, 0x80, 0xA8], [0xE2, 0x80, 0xA9], [0xE2, 0x80, 0xAF], [0xE2, 0x81, 0x9F],
   [0xE3, 0x80, 0x80]]

def stripWsPrefix (s : Bytes) : Option Bytes :=
  (wsSeqs.filterMap (fun w => if w.isPrefixOf s then some (s.drop w.length) else none)).head?

def trimStart (s : Bytes) (fuel : Nat) : Bytes :=
  match fuel with
  | 0 => s
  | fuel + 1 =>
    match stripWsPrefix s with
    | some r => trimStart r fuel
    | none => s

def stripWsSuffix (s : Bytes) : Option Bytes :=
  (wsSeqs.filterMap (fun w => if w.reverse.isPrefixOf s.reverse then some (s.take (s.length - w.length)) else none)).head?

def trimEnd (s : Bytes) (fuel : Nat) : Bytes :=
  match fuel with
  | 0 => s
  | fuel + 1 =>
    match stripWsSuffix s with
    | some r => trimEnd r fuel
    | none => s

def trim (s : Bytes) : Bytes := trimEnd (trimStart s s.length) s.length


end Rip.Text
