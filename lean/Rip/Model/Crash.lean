/-
C05 model: the on-disk state of one thread while frames are appended (rip-log `EventLog::append`,
ripd `ContinuityStore::append_*`, `ContinuityStreamCache::append_best_effort`), a process death
between any two file-system effects, and what a restarted authority does (`EventLog::new`,
`load_next_seq_for`). `fixE` / `fixF` switch the two repairs on: the next seq comes from the truth
log (and a sidecar that disagrees is rebuilt); a dangling last line is terminated on open.
-/
namespace Rip.Crash

/-- the file-system effects of one append, in the order the code performs them (the named crash
points of the hooks sit between them) -/
inductive Eff
  | logBody        -- write_all(body): a frame larger than the writer's buffer reaches the file here
  | logNewline     -- write_all("\n"): buffered
  | logFlush       -- flush: everything buffered reaches the file
  | sideLine       -- the full per-thread sidecar line
  | indexes        -- seek / message indexes of the full sidecar
  | mrLine         -- messages+runs sidecar line (message and run_ended frames only)
  | mrIndexes
  | publish
  | bump           -- in-memory next seq
  deriving Repr, DecidableEq

structure Frame where
  big : Bool       -- larger than the writer's buffer
  mr : Bool        -- a message / run_ended frame (also goes to the messages+runs sidecar)
  deriving Repr, DecidableEq

def effects (f : Frame) : List Eff :=
  [.logBody, .logNewline, .logFlush, .sideLine, .indexes] ++ (if f.mr then [.mrLine, .mrIndexes] else []) ++ [.publish, .bump]

structure Disk where
  log : List (Option Nat)      -- lines of the truth log for this thread: `some seq`, or `none` = unparseable
  dangling : Option Nat        -- a whole frame body at the end of the log without its newline
  side : List Nat              -- full sidecar (seqs)
  mr : List Nat                -- messages+runs sidecar (seqs)
  deriving Repr, DecidableEq

def empty : Disk := { log := [], dangling := none, side := [], mr := [] }

/-- one effect of the append of frame `f` with seq `n` -/
def applyEff (f : Frame) (n : Nat) (d : Disk) : Eff → Disk
  | .logBody => if f.big then { d with dangling := some n } else d
  | .logNewline => d
  | .logFlush => { d with log := d.log ++ [some n], dangling := none }
  | .sideLine => { d with side := d.side ++ [n] }
  | .mrLine => { d with mr := d.mr ++ [n] }
  | _ => d

/-- the disk after the first `k` effects of appending `f` with seq `n` -/
def partialAppend (f : Frame) (n : Nat) (k : Nat) (d : Disk) : Disk :=
  ((effects f).take k).foldl (applyEff f n) d

def lastSeq (l : List (Option Nat)) : Option Nat := (l.filterMap id).getLast?

/-- `EventLog::new` on restart -/
def reopen (fixF : Bool) (d : Disk) : Disk :=
  match d.dangling with
  | some n => if fixF then { d with log := d.log ++ [some n], dangling := none } else d
  | none => d

/-- `load_next_seq_for` on the first write after a restart, and the cache reconciliation it does
(`isMr i` says whether the log's frame with seq `i` is a message / run_ended frame) -/
def coldStart (fixE : Bool) (isMr : Nat → Bool) (d : Disk) : Nat × Disk :=
  if fixE then
    match lastSeq d.log with
    | some l => (l + 1, if d.side.getLast? = some l then d
                        else -- `rebuild_best_effort`: the thread's caches are rewritten from the log's frames
                          { d with side := d.log.filterMap id, mr := (d.log.filterMap id).filter isMr })
    | none => (0, d)
  else
    match d.side.getLast? with
    | some l => (l + 1, d)
    | none => (match lastSeq d.log with | some l => l + 1 | none => 0, d)

/-- a complete append of `f` with seq `n` on disk `d` (the writer appends to whatever the file ends
with: a dangling body that was not terminated swallows the new frame into one unparseable line) -/
def fullAppend (f : Frame) (n : Nat) (d : Disk) : Disk :=
  match d.dangling with
  | some _ => { log := d.log ++ [none], dangling := none, side := d.side ++ [n], mr := if f.mr then d.mr ++ [n] else d.mr }
  | none => { log := d.log ++ [some n], dangling := none, side := d.side ++ [n], mr := if f.mr then d.mr ++ [n] else d.mr }

/-- a history of complete appends by one authority from seq `n` on -/
def appendAll : List Frame → Nat → Disk → Disk
  | [], _, d => d
  | f :: fs, n, d => appendAll fs (n + 1) (fullAppend f n d)

/-- the whole story: `hist` acknowledged appends, a crash after `k` effects of appending `f`,
restart, then `more` further appends -/
def story (fixE fixF : Bool) (hist : List Frame) (f : Frame) (k : Nat) (more : List Frame) : Disk :=
  let d0 := appendAll hist 0 empty
  let crashed := partialAppend f hist.length k d0
  let opened := reopen fixF crashed
  match more with
  | [] => opened
  | _ => let (n, d1) := coldStart fixE (fun i => (((hist ++ [f])[i]?).map (·.mr)).getD false) opened
         appendAll more n d1

/-- the log replays and is numbered 0,1,2,… -/
def GapFree (d : Disk) : Prop := d.dangling = none ∧ d.log = (List.range d.log.length).map some

/-- what the messages+runs sidecar should hold: the seqs of the mr frames of `hist ++ [f]? ++ more` -/
def mrSeqs (fs : List Frame) : List Nat := (List.range fs.length).filter (fun i => (fs[i]?.map (·.mr)).getD false)

end Rip.Crash
