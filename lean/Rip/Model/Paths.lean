/-
C13 model: the lexical path checks (`resolve_path` of rip-tools and ripd tasks, `safe_join`,
`parse_rel_path`, and the checkpoint `to_relative` of rip-workspace) and, independently, the way
the operating system walks a path string (`osWalk`), so that "stays below the root" is a theorem
about the kernel's interpretation and not a restatement of the check.
-/
import Rip.Model.PatchParse
namespace Rip.Paths
open Rip.Proto Rip.Patch

/-- How the kernel resolves a path string (no symlinks): start at `cwd` (or `/` if the string is
absolute), skip empty and `.` segments, `..` pops one component (at `/` it stays), anything else
descends. -/
def osStep (cur : Path) (seg : Bytes) : Path :=
  if seg.isEmpty || seg = [46] then cur
  else if seg = [46, 46] then cur.dropLast
  else cur ++ [seg]

def osWalk (cwd : Path) (raw : Bytes) : Path :=
  (splitSlash raw).foldl osStep (if isAbsolute raw then [] else cwd)

inductive Refusal | absolute | parent | outside
  deriving Repr, DecidableEq

/-- `resolve_path(root, raw)` / `safe_join`: the accepted string is `root.join(raw)`. We return the
relative spelling that gets joined. -/
def resolve (raw : Bytes) : Except Refusal Bytes :=
  if isAbsolute raw then .error .absolute
  else if (components raw).any (· == .parentDir) then .error .parent
  else .ok raw

/-- `Path::strip_prefix(root)` on component lists (both absolute) -/
def stripPrefixComps (root : List Component) (p : List Component) : Option (List Component) :=
  if root.isPrefixOf p then some (p.drop root.length) else none

/-- checkpoint `to_relative` after the C13 repair: join relative inputs to the root, strip the root,
refuse anything that still contains a parent-directory component. `rootRaw` is the root's absolute
spelling. Returns the relative components. -/
def toRelative (rootRaw raw : Bytes) : Except Refusal (List Component) :=
  let abs : Bytes := if isAbsolute raw then raw else rootRaw ++ [47] ++ raw
  match stripPrefixComps (components rootRaw) (components abs) with
  | none => .error .outside
  | some rel => if rel.any (· == .parentDir) then .error .parent else .ok rel

end Rip.Paths
