/-
Line protocol shared by every model driver. One case per line, tokens separated
by single spaces, byte strings hex-encoded ("-" is the empty string).
Import-free so that `ripmodel` links as a native executable.
-/
namespace Rip.Proto

abbrev Bytes := List UInt8

def hexVal (c : Char) : Option Nat :=
  if '0' ≤ c ∧ c ≤ '9' then some (c.toNat - '0'.toNat)
  else if 'a' ≤ c ∧ c ≤ 'f' then some (c.toNat - 'a'.toNat + 10)
  else none

def hexDecodeAux : List Char → Bytes → Option Bytes
  | [], acc => some acc.reverse
  | [_], _ => none
  | a :: b :: rest, acc =>
    match hexVal a, hexVal b with
    | some x, some y => hexDecodeAux rest (UInt8.ofNat (x * 16 + y) :: acc)
    | _, _ => none

def hexDecode (s : String) : Option Bytes :=
  if s = "-" then some [] else hexDecodeAux s.toList []

def hexDigit (n : Nat) : Char :=
  if n < 10 then Char.ofNat (n + '0'.toNat) else Char.ofNat (n - 10 + 'a'.toNat)

def hexEncode (b : Bytes) : String :=
  if b.isEmpty then "-" else
  String.ofList (b.foldr (fun x acc => hexDigit (x.toNat / 16) :: hexDigit (x.toNat % 16) :: acc) [])

/-- Token parser: state is the list of remaining tokens. -/
abbrev P := StateT (List String) Option

def tok : P String := fun ts =>
  match ts with
  | [] => none
  | t :: rest => some (t, rest)

def nat : P Nat := do
  let t ← tok
  match t.toNat? with
  | some n => pure n
  | none => failure

def bytes : P Bytes := do
  let t ← tok
  match hexDecode t with
  | some b => pure b
  | none => failure

def bool : P Bool := do
  let t ← tok
  if t = "1" then pure true else if t = "0" then pure false else failure

def expect (s : String) : P Unit := do
  let t ← tok
  if t = s then pure () else failure

def optNat : P (Option Nat) := do
  let t ← tok
  if t = "_" then pure none else
  match t.toNat? with
  | some n => pure (some n)
  | none => failure

def optBytes : P (Option Bytes) := do
  let t ← tok
  if t = "_" then pure none else
  match hexDecode t with
  | some b => pure (some b)
  | none => failure

def many (n : Nat) (p : P α) : P (List α) :=
  match n with
  | 0 => pure []
  | n + 1 => do
    let x ← p
    let xs ← many n p
    pure (x :: xs)

/-- `count` followed by that many items. -/
def listOf (p : P α) : P (List α) := do
  let n ← nat
  many n p

def runP (p : P α) (line : String) : Option α :=
  match p (line.splitOn " ") with
  | some (a, []) => some a
  | _ => none

def showOptNat : Option Nat → String
  | none => "_"
  | some n => toString n

def showOptBytes : Option Bytes → String
  | none => "_"
  | some b => hexEncode b

def showBool (b : Bool) : String := if b then "1" else "0"

end Rip.Proto
