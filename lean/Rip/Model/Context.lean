/-
C08 model: what `compile_context_bundle_for_run` computes from a thread's frames
(ripd/src/session.rs, ripd/src/context_compiler.rs, the compile-input loaders and checkpoint
selection of ripd/src/continuities.rs): the cut point, the recent messages with their replies, the
summary checkpoints, the strategy and the logged decision. Ids, contents and texts are numbers.
`strictCut = true` is the code after the C08 repair (a checkpoint frame appended after the cut point
is not used); `strictCut = false` is the code before it.
-/
namespace Rip.Context

inductive K
  | message (content : Nat)
  | runEnded (messageId : Nat) (session : Nat)
  | checkpoint (cpId : Nat) (toSeq : Nat) (cumulative : Bool) (artifact : Nat)
  | other
  deriving Repr, DecidableEq

structure F where
  seq : Nat
  id : Nat
  kind : K
  deriving Repr, DecidableEq

def F.isMessage (f : F) : Bool := match f.kind with | .message _ => true | _ => false

def messages (evs : List F) : List F := evs.filter F.isMessage

def headSeq (evs : List F) : Nat := (evs.getLast?.map (·.seq)).getD 0

/-- the inclusive cut point of the run triggered by message `anchor`: the last frame before the next
message after it, or the head -/
def cutpoint (evs : List F) (anchor : Nat) : Option Nat :=
  match (messages evs).dropWhile (fun f => f.id != anchor) with
  | [] => none
  | a :: rest =>
    some (max a.seq (match rest with
      | n :: _ => n.seq - 1
      | [] => headSeq evs))

def inRange (fromSeq : Nat) (after : Option Nat) (f : F) : Bool :=
  f.seq ≤ fromSeq && (match after with | some a => a < f.seq | none => true)

/-- the most recent `limit` messages at or before the cut and after the summary checkpoint, oldest first -/
def selectRecent (evs : List F) (fromSeq : Nat) (after : Option Nat) (limit : Nat) : List F :=
  let ms := (messages evs).filter (inRange fromSeq after)
  ms.drop (ms.length - limit)

/-- the session of the (last) run_ended frame at or before the cut that answers message `mid` -/
def endedFor (evs : List F) (fromSeq : Nat) (mid : Nat) : Option Nat :=
  ((evs.takeWhile (fun f => f.seq ≤ fromSeq)).filterMap (fun f =>
    match f.kind with
    | .runEnded m s => if m == mid then some s else none
    | _ => none)).getLast?

structure Cp where
  frameSeq : Nat
  cpId : Nat
  toSeq : Nat
  cumulative : Bool
  artifact : Nat
  deriving Repr, DecidableEq

def checkpoints (strictCut : Bool) (evs : List F) (fromSeq : Nat) : List Cp :=
  evs.filterMap (fun f =>
    match f.kind with
    | .checkpoint c t cum a =>
      if t ≤ fromSeq && (!strictCut || f.seq ≤ fromSeq) then some ⟨f.seq, c, t, cum, a⟩ else none
    | _ => none)

/-- latest checkpoint of any kind: greatest to_seq, the later frame winning a tie -/
def latestAny (cps : List Cp) : Option Cp :=
  cps.foldl (fun best c =>
    match best with
    | none => some c
    | some b => if c.toSeq > b.toSeq || (c.toSeq == b.toSeq && c.frameSeq > b.frameSeq) then some c else some b) none

def insertByToSeq (c : Cp) : List Cp → List Cp
  | [] => [c]
  | d :: ds => if c.toSeq < d.toSeq then c :: d :: ds
               else if c.toSeq == d.toSeq then (if c.frameSeq ≥ d.frameSeq then c :: ds else d :: ds)
               else d :: insertByToSeq c ds

/-- one entry per to_seq (the latest frame), ascending by to_seq -/
def uniqueByToSeq (cps : List Cp) : List Cp := cps.foldl (fun acc c => insertByToSeq c acc) []

/-- hierarchy by halving: start from the latest, then repeatedly the entry with the greatest
to_seq ≤ half the current one -/
def halving (unique : List Cp) : Nat → Nat → List Cp
  | 0, _ => []
  | fuel + 1, cur =>
    if cur ≤ 1 then [] else
    match (unique.filter (fun c => c.toSeq ≤ cur / 2)).getLast? with
    | none => []
    | some c => if c.toSeq ≥ cur then [] else c :: halving unique fuel c.toSeq

def hierarchy (cps : List Cp) (maxLevels : Nat) : List Cp :=
  if maxLevels = 0 then [] else
  let unique := uniqueByToSeq (cps.filter (·.cumulative))
  match unique.getLast? with
  | none => []
  | some latest => ((latest :: halving unique (maxLevels - 1) latest.toSeq)).reverse

inductive Strategy | recent | summaries | hierarchical
  deriving Repr, DecidableEq

inductive Cause | noCheckpoint | noSupportedCheckpoint | unsupportedKind | checkpoint | checkpointHierarchy
  deriving Repr, DecidableEq

inductive Item
  | summaryRef (artifact : Nat) (toSeq : Nat)
  | user (content : Nat) (seq : Nat) (id : Nat)
  | assistant (text : Nat)
  deriving Repr, DecidableEq

structure Compiled where
  fromSeq : Nat
  strategy : Strategy
  cause : Cause
  reset : Bool                    -- an unsupported latest checkpoint was ignored
  selected : List Nat             -- checkpoint ids recorded in the decision, ascending by to_seq
  items : List Item
  deriving Repr, DecidableEq

def recentLimit : Nat := 16
def maxRefs : Nat := 3

def messageItems (evs : List F) (fromSeq : Nat) (reply : Nat → Nat) (sel : List F) : List Item :=
  (sel.map (fun m =>
    (match m.kind with | .message c => [Item.user c m.seq m.id] | _ => []) ++
    (match endedFor evs fromSeq m.id with
     | some s => if reply s != 0 then [Item.assistant (reply s)] else []
     | none => []))).flatten

/-- `reply s` is the aggregated output text of session `s` (0 = empty) -/
def compile (strictCut : Bool) (evs : List F) (anchor : Nat) (reply : Nat → Nat) : Option Compiled :=
  match cutpoint evs anchor with
  | none => none
  | some fromSeq =>
    let cps := checkpoints strictCut evs fromSeq
    let hier := hierarchy cps maxRefs
    let (strategy, cause, reset) :=
      if hier.isEmpty then
        match latestAny cps with
        | some c => if !c.cumulative then (Strategy.recent, Cause.unsupportedKind, true)
                    else (Strategy.recent, Cause.noSupportedCheckpoint, false)
        | none => (Strategy.recent, Cause.noCheckpoint, false)
      else if hier.length ≥ 2 then (Strategy.hierarchical, Cause.checkpointHierarchy, false)
      else (Strategy.summaries, Cause.checkpoint, false)
    let after : Option Nat := (hier.getLast?).map (·.toSeq)
    let sel := selectRecent evs fromSeq after recentLimit
    some { fromSeq := fromSeq, strategy := strategy, cause := cause, reset := reset,
           selected := hier.map (·.cpId),
           items := hier.map (fun c => Item.summaryRef c.artifact c.toSeq) ++ messageItems evs fromSeq reply sel }

/-- a valid thread: frame i carries seq i -/
def Valid (evs : List F) : Prop := ∀ i (h : i < evs.length), (evs[i]).seq = i

end Rip.Context
