/-
Seq accounting of the frame-building helpers (session.rs, rip-tools runtime.rs, tasks/mod.rs): a
function receives the stream's counter by reference, builds frames numbered from it and advances it.
The token list of a function is regenerated from the source by ripx (Rip/Gen/SeqAccounting.lean).
Import-free.
-/
namespace Rip.SeqAcct

inductive Tok
  /-- a frame literal `… { seq: <expr>, … }`; `plain` = the expression is exactly the counter -/
  | use (plain : Bool)
  /-- `counter += k` with a literal `k` -/
  | bump (k : Nat)
  /-- `counter += <number of frames emitted as a batch>`: the batch is numbered by the mapper from
  the counter's value (offset added to 0,1,2,…) -/
  | batch
  deriving DecidableEq, Repr

structure St where
  ctr : Nat
  frames : List Nat
  deriving DecidableEq, Repr

/-- what the tokens do, from counter value and frames so far; `ms` = the sizes of the batches -/
def run : List Tok → List Nat → St → St
  | [], _, s => s
  | .use plain :: ts, ms, s =>
    run ts ms { s with frames := s.frames ++ [if plain then s.ctr else s.ctr + 1] }
  | .bump k :: ts, ms, s => run ts ms { s with ctr := s.ctr + k }
  | .batch :: ts, ms, s =>
    run ts ms.tail { ctr := s.ctr + ms.headD 0, frames := s.frames ++ List.range' s.ctr (ms.headD 0) }

/-- the discipline the code follows: every frame literal uses the bare counter and is followed by
`+= 1` before anything else happens to the counter; batches stand alone -/
def wellFormed : List Tok → Bool
  | [] => true
  | .use true :: .bump 1 :: ts => wellFormed ts
  | .batch :: ts => wellFormed ts
  | _ => false

/-- decoding of the regenerated table: (counter, kind, argument) -/
def decode (t : Nat × Nat × Nat) : Tok :=
  match t.2.1 with
  | 0 => .use (t.2.2 == 1)
  | 1 => .bump t.2.2
  | _ => .batch

def counters (ts : List (Nat × Nat × Nat)) : List Nat := (ts.map (·.1)).eraseDups

/-- every counter a function touches is handled with the discipline -/
def fnWellFormed (ts : List (Nat × Nat × Nat)) : Bool :=
  (counters ts).all (fun c => wellFormed ((ts.filter (·.1 == c)).map decode))

end Rip.SeqAcct
