/-
C06 / C04 (a reader rebuilds the sidecar while appenders append) model. `ContinuityStore::append_*`
holds the seq lock from the log append to the cache append and the broadcast; `replay_events`
answers from the sidecar when it is readable and otherwise from the log, after which it rewrites the
sidecar from the frames it read. `locked = true` is the code as it is now (the fall-back takes the
seq lock, retries the cache, reads the log and rewrites under the lock); `locked = false` is the code
as it was (log read and rewrite outside the lock). One transition = one effect. Frames are their seq.
Import-free.
-/
namespace Rip.Rebuild

inductive P
  /-- an appender with `left` frames still to append; pc: 0 idle, 1 has the lock, 2 log written,
  3 sidecar written, 4 broadcast done -/
  | app (pc : Nat) (left : Nat)
  /-- a reader (one `replay_events` call); pc: 0 start, 1 cache failed, 2 has the lock, 3 log read
  (`snap`), 4 sidecar rewritten, 5 done -/
  | rd (pc : Nat) (snap : List Nat)
  deriving Repr, DecidableEq

structure S where
  log : List Nat          -- the thread's frames in the truth log
  side : List Nat         -- the sidecar's content
  sideOk : Bool           -- the sidecar is readable (not lost, no torn line)
  lock : Option Nat       -- holder of the seq lock
  published : List Nat    -- frames broadcast so far
  ps : List P
  deriving Repr, DecidableEq

def setP (s : S) (i : Nat) (p : P) : S := { s with ps := s.ps.set i p }

def step (locked : Bool) (s : S) (i : Nat) : S :=
  match s.ps[i]? with
  | none => s
  | some (.app pc left) =>
    if left = 0 then s else
    match pc with
    | 0 => (match s.lock with
            | none => setP { s with lock := some i } i (.app 1 left)
            | some _ => s)
    | 1 => setP { s with log := s.log ++ [s.log.length] } i (.app 2 left)
    | 2 => -- best-effort cache append: a line is added to whatever the file holds
      setP { s with side := s.side ++ [s.log.length - 1] } i (.app 3 left)
    | 3 => setP { s with published := s.published ++ [s.log.length - 1] } i (.app 4 left)
    | _ => setP { s with lock := none } i (.app 0 (left - 1))
  | some (.rd pc snap) =>
    match pc with
    | 0 => if s.sideOk then setP s i (.rd 5 s.side) else setP s i (.rd 1 snap)
    | 1 =>
      if locked then
        (match s.lock with
         | none => setP { s with lock := some i } i (.rd 2 snap)
         | some _ => s)
      else setP s i (.rd 3 s.log)                      -- log read outside the lock
    | 2 => -- under the lock: retry the cache, else read the log
      if s.sideOk then setP { s with lock := none } i (.rd 5 s.side) else setP s i (.rd 3 s.log)
    | 3 => setP { s with side := snap, sideOk := true } i (.rd 4 snap)   -- rewrite from the snapshot
    | 4 => setP { s with lock := if locked then none else s.lock } i (.rd 5 snap)
    | _ => s

/-- start: `n` frames in the log; the sidecar either in step with it or unreadable with arbitrary
content; `apps` appenders with their frame counts and `readers` readers -/
def init (n : Nat) (sideOk : Bool) (junk : List Nat) (apps : List Nat) (readers : Nat) : S :=
  { log := List.range n, side := if sideOk then List.range n else junk, sideOk := sideOk,
    lock := none, published := [],
    ps := apps.map (fun k => .app 0 k) ++ List.replicate readers (.rd 0 []) }

def run (locked : Bool) (s0 : S) (sched : List Nat) : S := sched.foldl (step locked) s0

/-- what a subscriber attaching now would miss for ever: frames already broadcast that the history
it reads (the readable sidecar) does not hold -/
def missed (s : S) : List Nat := if s.sideOk then s.published.filter (fun f => !s.side.contains f) else []

end Rip.Rebuild
