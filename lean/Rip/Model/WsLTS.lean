/-
C11 model: workspace mutations under the one-permit workspace lock (ripd/src/workspace_lock.rs,
the tool branches of ripd/src/session.rs, ripd/src/tasks/mod.rs `run_task`). Actors are sessions
(tool envelopes, checkpoint envelopes, agent-loop tool calls) and background tasks. A mutating
execution is: acquire; the effect on the workspace begins; it ends (or — tool envelopes with
`timeout_ms` — the runner's timeout fires first); tool frames are emitted; for a run attached to
a thread one side-effects frame is appended; release. Read-only tools take no lock.
`kill = true` is the code after the C11 repair: the timeout kills the command before the runner
returns; `kill = false` is the code before it: the command keeps running (a zombie effect).
-/
namespace Rip.WsLTS

inductive Op
  | mutate (canTimeout linked : Bool)
  | readOnly
  deriving Repr, DecidableEq

structure A where
  prog : List Op
  pc : Nat
  opNo : Nat                 -- how many ops this actor has finished (identifies the call)
  deriving Repr, DecidableEq

structure S where
  holder : Option Nat                -- who holds the workspace permit
  running : List (Nat × Nat)         -- (actor, call no) whose effect on the workspace is in progress
  readers : Nat                      -- read-only tools in progress
  mutOrder : List (Nat × Nat)        -- calls of linked runs, in the order their mutations began
  sideFx : List (Nat × Nat)          -- side-effects frames on the thread, in log order
  maxRunning : Nat                   -- high-water mark of `running.length`
  as : List A
  deriving Repr, DecidableEq

def setA (s : S) (i : Nat) (a : A) : S := { s with as := s.as.set i a }

def noteMax (s : S) : S := { s with maxRunning := max s.maxRunning s.running.length }

inductive Act
  | step (i : Nat)            -- actor i performs its next step; the effect runs to completion
  | timeout (i : Nat)         -- the runner's timeout fires for actor i (only while its effect is running)
  | zombieEnd (i k : Nat)     -- a command that outlived its runner finally exits
  deriving Repr, DecidableEq

def stepA (s : S) (i : Nat) (a : A) : S :=
  match a.prog with
  | [] => s
  | .readOnly :: rest =>
    match a.pc with
    | 0 => setA { s with readers := s.readers + 1 } i { a with pc := 1 }
    | _ => setA { s with readers := s.readers - 1 } i { prog := rest, pc := 0, opNo := a.opNo + 1 }
  | .mutate _ linked :: rest =>
    match a.pc with
    | 0 => -- acquire the permit
      match s.holder with
      | none => setA { s with holder := some i } i { a with pc := 1 }
      | some _ => s
    | 1 => -- the effect begins
      noteMax (setA { s with running := s.running ++ [(i, a.opNo)],
                             mutOrder := if linked then s.mutOrder ++ [(i, a.opNo)] else s.mutOrder } i { a with pc := 2 })
    | 2 => -- the effect ends on its own
      setA { s with running := s.running.filter (· != (i, a.opNo)) } i { a with pc := 3 }
    | 3 => -- tool frames emitted
      setA s i { a with pc := 4 }
    | 4 => -- side-effects frame (attached runs only)
      setA { s with sideFx := if linked then s.sideFx ++ [(i, a.opNo)] else s.sideFx } i { a with pc := 5 }
    | _ => -- release
      setA { s with holder := none } i { prog := rest, pc := 0, opNo := a.opNo + 1 }

def act (kill : Bool) (s : S) : Act → S
  | .step i => match s.as[i]? with
    | some a => stepA s i a
    | none => s
  | .timeout i => match s.as[i]? with
    | some a =>
      match a.prog with
      | .mutate true _ :: _ =>
        if a.pc = 2 then
          -- the runner gives up; with `kill` the command is killed first
          if kill then setA { s with running := s.running.filter (· != (i, a.opNo)) } i { a with pc := 3 }
          else setA s i { a with pc := 3 }
        else s
      | _ => s
    | none => s
  | .zombieEnd i k =>
    -- only a command whose runner has already moved on can "finally exit" on its own; the end of an
    -- effect whose actor is still waiting for it is the actor's own pc 2 step
    match s.as[i]? with
    | some a => if a.opNo = k ∧ a.pc = 2 then s else { s with running := s.running.filter (· != (i, k)) }
    | none => { s with running := s.running.filter (· != (i, k)) }

def init (progs : List (List Op)) : S :=
  { holder := none, running := [], readers := 0, mutOrder := [], sideFx := [], maxRunning := 0,
    as := progs.map (fun p => { prog := p, pc := 0, opNo := 0 }) }

def run (kill : Bool) (progs : List (List Op)) (sched : List Act) : S := sched.foldl (act kill) (init progs)

def allDone (s : S) : Bool := s.as.all (fun a => a.prog.isEmpty)

end Rip.WsLTS
