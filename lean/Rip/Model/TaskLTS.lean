/-
C17 (lifecycle) model: one background task (ripd tasks/mod.rs `run_task`, tasks/pipes.rs
`run_pipes_task`) as a labelled transition system. Every `TaskEmitter::emit` is atomic (the
emitter's seq mutex is held across numbering, publish, record and log append), so the recorded
stream is an interleaving of atomic emits by: the main task, the stdout pump, the stderr pump;
the client may request cancellation at any moment.
-/
namespace Rip.TaskLTS

inductive Label
  | spawned | running | delta | cancelReq | cancelled | stExited | stCancelled | stFailed
  deriving Repr, DecidableEq

inductive Actor
  | main          -- the main task takes its next step (at the select: the child exited)
  | mainCancel    -- at the select: the cancel signal wins (enabled only after the client asked)
  | out | err     -- the output pumps
  | client        -- the client requests cancellation
  deriving Repr, DecidableEq

/-- everything the environment decides -/
structure Cfg where
  failEarly : Bool     -- invalid args / log writer / cwd / spawn failure: fails right after the spawn frame
  waitFails : Bool     -- `child.wait()` returns an error
  nOut : Nat           -- chunks the process writes to stdout
  nErr : Nat
  deriving Repr, DecidableEq

structure S where
  pc : Nat             -- 0 start, 1 spawned, 2 running (select), 3 joining pumps, 4 pumps joined, 5 cancelled emitted / skipped, 9 done
  started : Bool       -- pumps spawned
  outLeft : Nat
  errLeft : Nat
  outDone : Bool
  errDone : Bool
  cancelSent : Bool
  cancelSeen : Bool
  trace : List Label
  deriving Repr, DecidableEq

def init (c : Cfg) : S :=
  { pc := 0, started := false, outLeft := c.nOut, errLeft := c.nErr, outDone := false, errDone := false,
    cancelSent := false, cancelSeen := false, trace := [] }

def emit (s : S) (l : Label) : S := { s with trace := s.trace ++ [l] }

def step (c : Cfg) (s : S) : Actor → S
  | .client => { s with cancelSent := true }
  | .out =>
    if s.started && !s.outDone then
      if s.outLeft > 0 then { emit s .delta with outLeft := s.outLeft - 1 } else { s with outDone := true }
    else s
  | .err =>
    if s.started && !s.errDone then
      if s.errLeft > 0 then { emit s .delta with errLeft := s.errLeft - 1 } else { s with errDone := true }
    else s
  | .mainCancel =>
    if s.pc = 2 && s.cancelSent then { emit s .cancelReq with pc := 3, cancelSeen := true } else s
  | .main =>
    match s.pc with
    | 0 => { emit s .spawned with pc := 1 }
    | 1 => if c.failEarly then { emit s .stFailed with pc := 9 }
           else { emit s .running with pc := 2, started := true }
    | 2 => { s with pc := 3 }                                  -- child exited on its own
    | 3 => if s.outDone && s.errDone then { s with pc := 4 } else s   -- join both pumps
    | 4 => if s.cancelSeen then { emit s .cancelled with pc := 5 } else { s with pc := 5 }
    | 5 => if c.waitFails then { emit s .stFailed with pc := 9 }
           else if s.cancelSeen then { emit s .stCancelled with pc := 9 }
           else { emit s .stExited with pc := 9 }
    | _ => s

def run (c : Cfg) (sched : List Actor) : S := sched.foldl (step c) (init c)

/-! ### the lifecycle grammar as an automaton:
`spawned (failed | running (delta)* ((exited|failed) | cancelReq (delta)* cancelled (cancelledSt|failed)))` -/

inductive A | start | spawned | running | cancelling | cancelledEmitted | terminal | reject
  deriving Repr, DecidableEq

def A.next : A → Label → A
  | .start, .spawned => .spawned
  | .spawned, .running => .running
  | .spawned, .stFailed => .terminal
  | .running, .delta => .running
  | .running, .cancelReq => .cancelling
  | .running, .stExited => .terminal
  | .running, .stFailed => .terminal
  | .cancelling, .delta => .cancelling
  | .cancelling, .cancelled => .cancelledEmitted
  | .cancelledEmitted, .stCancelled => .terminal
  | .cancelledEmitted, .stFailed => .terminal
  | _, _ => .reject

def autState (t : List Label) : A := t.foldl A.next .start

/-- a complete, well-formed task stream -/
def lifecycleOK (t : List Label) : Bool := autState t == .terminal

/-- a well-formed prefix of a task stream -/
def prefixOK (t : List Label) : Bool := autState t != .reject

end Rip.TaskLTS
