/-
C09 model: compaction cut points, planning, the auto job and the scheduler decision of
ripd/src/continuities.rs (`compaction_cut_points_v1`, `compaction_auto_*`,
`compaction_checkpoint_cumulative_v1`), as functions of the thread's truth frames.
-/
namespace Rip.Compaction

inductive K
  | message
  | ckpt (toSeq : Nat)              -- continuity_compaction_checkpoint_created (cumulative_v1)
  | jobSpawned (job : Nat)          -- summarizer job
  | jobEnded (job : Nat)
  | decided                          -- continuity_compaction_auto_schedule_decided
  | other
  deriving Repr, DecidableEq

structure F where
  id : Nat
  seq : Nat
  kind : K
  deriving Repr, DecidableEq

abbrev Thread := List F

def isMsg (f : F) : Bool := match f.kind with | .message => true | _ => false

def messages (T : Thread) : List F := T.filter isMsg

def clamp (x lo hi : Nat) : Nat := min (max x lo) hi

structure Cut where
  ordinal : Nat
  toSeq : Nat
  msgId : Nat
  already : Bool
  latestCkpt : Option Nat        -- id of the checkpoint frame that wins for this cut, if already
  deriving Repr, DecidableEq

/-- the checkpoint that wins for `toSeq`: among checkpoint frames with `to_seq ≤ toSeq`, the one with
the greatest `to_seq`, ties broken by the later frame (greater seq) -/
def bestCkpt (T : Thread) (toSeq : Nat) : Option (Nat × Nat × Nat) :=   -- (ckpt.toSeq, frame seq, frame id)
  T.foldl (fun best f =>
    match f.kind with
    | .ckpt q =>
      if q > toSeq then best else
      match best with
      | none => some (q, f.seq, f.id)
      | some (bq, bs, _) => if q > bq || (q == bq && f.seq > bs) then some (q, f.seq, f.id) else best
    | _ => best) none

def mkCut (T : Thread) (ord : Nat) : Option Cut :=
  match (messages T)[ord - 1]? with
  | none => none
  | some m =>
    let best := bestCkpt T m.seq
    let already := match best with | some (q, _, _) => q == m.seq | none => false
    some { ordinal := ord, toSeq := m.seq, msgId := m.id, already := already,
           latestCkpt := if already then best.map (fun b => b.2.2) else none }

/-- `compaction_cut_points_v1` (stride ≥ 1): latest multiples first, at most `clamp limit 1 32` -/
def cutPoints (T : Thread) (stride limit : Nat) : List Cut :=
  let count := (messages T).length
  let latest := (count / stride) * stride
  (List.range (clamp limit 1 32)).filterMap (fun i =>
    let ord := latest - i * stride
    if ord = 0 then none else mkCut T ord)

/-- planning shared by auto and auto-schedule: not-yet-checkpointed cut points among the latest 32,
latest first, at most `clamp maxNew 1 32` -/
def plan (T : Thread) (stride maxNew : Nat) : List Cut :=
  ((cutPoints T stride 32).filter (fun c => !c.already)).take (clamp maxNew 1 32)

/-- insertion sort of the planned cuts by (to_seq, message id) ascending — the job's creation order -/
def insertCut (c : Cut) : List Cut → List Cut
  | [] => [c]
  | d :: ds => if c.toSeq < d.toSeq || (c.toSeq == d.toSeq && c.msgId ≤ d.msgId) then c :: d :: ds else d :: insertCut c ds

def sortCuts (cs : List Cut) : List Cut := cs.foldr insertCut []

def headSeq (T : Thread) : Nat := match T.getLast? with | some f => f.seq + 1 | none => 0

/-- frames appended by a job run for `planned` (ids are supplied by the environment: `fresh k`) -/
def jobFrames (next : Nat) (fresh : Nat → Nat) (job : Nat) (planned : List Cut) : List F :=
  let cs := sortCuts planned
  let ck := cs.mapIdx (fun i c => ({ id := fresh i, seq := next + i, kind := .ckpt c.toSeq } : F))
  ck ++ [{ id := fresh cs.length, seq := next + cs.length, kind := .jobEnded job }]

inductive AutoStatus | noop | completed
  deriving Repr, DecidableEq

/-- `compaction_auto_v1`: frames appended and status -/
def auto (T : Thread) (fresh : Nat → Nat) (job : Nat) (stride maxNew : Nat) (dryRun : Bool) :
    AutoStatus × List Cut × List F :=
  let p := plan T stride maxNew
  if p.isEmpty || dryRun then (.noop, p, [])
  else
    let n := headSeq T
    let spawned : F := { id := fresh 1000, seq := n, kind := .jobSpawned job }
    (.completed, p, spawned :: jobFrames (n + 1) fresh job p)

/-- the in-flight scan: latest summarizer job spawned and not ended (within the scanned tail) -/
def inflight (T : Thread) : Option Nat :=
  let rec go (rev : List F) (ended : List Nat) : Option Nat :=
    match rev with
    | [] => none
    | f :: rest =>
      match f.kind with
      | .jobEnded j => go rest (j :: ended)
      | .jobSpawned j => if ended.contains j then go rest ended else some j
      | _ => go rest ended
  go T.reverse []

inductive Decision | noop | dryRun | skippedInflight | scheduled | completed
  deriving Repr, DecidableEq

/-- `compaction_auto_schedule_v1` -/
def schedule (T : Thread) (fresh : Nat → Nat) (job : Nat) (stride maxNew : Nat)
    (blockOnInflight execute dryRun : Bool) : Decision × List Cut × List F :=
  let p := plan T stride maxNew
  if p.isEmpty then (.noop, p, [])
  else if dryRun then (.dryRun, p, [])
  else
    let n := headSeq T
    match (if blockOnInflight then inflight T else none) with
    | some _ => (.skippedInflight, p, [{ id := fresh 2000, seq := n, kind := .decided }])
    | none =>
      let spawned : F := { id := fresh 1000, seq := n, kind := .jobSpawned job }
      let decided : F := { id := fresh 2000, seq := n + 1, kind := .decided }
      if execute then (.completed, p, spawned :: decided :: jobFrames (n + 2) fresh job p)
      else (.scheduled, p, [spawned, decided])

end Rip.Compaction
