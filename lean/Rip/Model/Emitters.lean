/-
C06 (several emitters on one stream) model: `TaskEmitter::emit` run by any number of concurrent
emitters (the stdout pump, the stderr pump, control frames of one task). One transition = one
effect: take the seq lock, draw the seq, [release it early — the code as a careless refactor would
have it], take the buffer lock, publish on the channel, record in the history buffer and the log,
release. `nested = true` is the code as it is: the seq lock is held around the whole emission.
-/
namespace Rip.Emitters

structure E where
  pc : Nat               -- 0 idle, 1 has seq lock, 2 drew seq, 3 has buffer lock, 4 published, 5 recorded
  drawn : Nat
  left : Nat             -- frames still to emit
  deriving Repr, DecidableEq

structure S where
  seqHolder : Option Nat
  bufHolder : Option Nat
  next : Nat
  published : List Nat   -- seqs in channel order
  recorded : List Nat    -- seqs in buffer / log order
  es : List E
  deriving Repr, DecidableEq

def setE (s : S) (i : Nat) (e : E) : S := { s with es := s.es.set i e }

def step (nested : Bool) (s : S) (i : Nat) : S :=
  match s.es[i]? with
  | none => s
  | some e =>
    if e.left = 0 then s else
    match e.pc with
    | 0 => (match s.seqHolder with
            | none => setE { s with seqHolder := some i } i { e with pc := 1 }
            | some _ => s)
    | 1 => -- draw; without nesting the seq lock is released right here
      setE { s with next := s.next + 1, seqHolder := if nested then s.seqHolder else none } i { e with pc := 2, drawn := s.next }
    | 2 => (match s.bufHolder with
            | none => setE { s with bufHolder := some i } i { e with pc := 3 }
            | some _ => s)
    | 3 => setE { s with published := s.published ++ [e.drawn] } i { e with pc := 4 }
    | 4 => setE { s with recorded := s.recorded ++ [e.drawn] } i { e with pc := 5 }
    | _ => -- release the buffer lock (and the seq lock when nested)
      setE { s with bufHolder := none, seqHolder := if nested then none else s.seqHolder } i { e with pc := 0, left := e.left - 1 }

def init (counts : List Nat) : S :=
  { seqHolder := none, bufHolder := none, next := 0, published := [], recorded := [],
    es := counts.map (fun n => { pc := 0, drawn := 0, left := n }) }

def run (nested : Bool) (counts : List Nat) (sched : List Nat) : S := sched.foldl (step nested) (init counts)

def allDone (s : S) : Bool := s.es.all (fun e => e.left == 0)

end Rip.Emitters
