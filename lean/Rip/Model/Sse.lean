/-
C15 model: `SseDecoder` / `EventFrameMapper` of crates/rip-provider-openresponses and the
`OpenResponsesSsePipe` byte pipe + read loop of crates/ripd/src/session.rs.
Strings are UTF-8 byte lists. JSON parsing and delta extraction are an uninterpreted table
(`deltaOf : raw ↦ text delta`), supplied by the caller.
-/
import Rip.Model.Utf8
import Rip.Model.Text
namespace Rip.Sse
open Rip.Proto Rip.Text

/-! ### SseDecoder -/

structure Parsed where
  event : Option Bytes
  raw : Bytes
  deriving Repr, DecidableEq

structure Dec where
  buf : Bytes
  ev : Option Bytes
  data : List Bytes      -- in push order
  deriving Repr, DecidableEq

def Dec.init : Dec := { buf := [], ev := none, data := [] }

def lit (s : String) : Bytes := s.toUTF8.toList

def evPrefix : Bytes := [101, 118, 101, 110, 116, 58]   -- "event:"
def dataPrefix : Bytes := [100, 97, 116, 97, 58]        -- "data:"
def doneRaw : Bytes := [91, 68, 79, 78, 69, 93]         -- "[DONE]"

/-- `trim_end_matches('\r')` -/
def stripCrs (l : Bytes) : Bytes := (l.reverse.dropWhile (· == 13)).reverse

def joinNl : List Bytes → Bytes
  | [] => []
  | [x] => x
  | x :: xs => x ++ [10] ++ joinNl xs

/-- one complete line (without its `\n`) -/
def Dec.line (d : Dec) (raw : Bytes) : Dec × List Parsed :=
  let l := stripCrs raw
  if evPrefix.isPrefixOf l then
    let v := trim (l.drop evPrefix.length)
    ({ d with ev := if v.isEmpty then none else some v }, [])
  else if dataPrefix.isPrefixOf l then
    let v := trimStart (l.drop dataPrefix.length) l.length
    ({ d with data := d.data ++ [v] }, [])
  else if l.isEmpty then
    if d.data.isEmpty then (d, [])
    else
      let raw := joinNl d.data
      -- `ParsedEvent::done` carries no event name
      ({ d with data := [], ev := none }, [{ event := if raw == doneRaw then none else d.ev, raw := raw }])
  else (d, [])

/-- feed text byte by byte: a line is processed when its `\n` arrives -/
def Dec.feed (d : Dec) : Bytes → Dec × List Parsed
  | [] => (d, [])
  | b :: rest =>
    if b = 10 then
      let (d1, e1) := Dec.line { d with buf := [] } d.buf
      let (d2, e2) := Dec.feed d1 rest
      (d2, e1 ++ e2)
    else Dec.feed { d with buf := d.buf ++ [b] } rest

/-- `SseDecoder::push` -/
def Dec.push (d : Dec) (chunk : Bytes) : Dec × List Parsed := d.feed chunk

/-- `SseDecoder::finish` -/
def Dec.finish (d : Dec) : Dec × List Parsed :=
  if d.buf.isEmpty then (d, []) else d.push [10]

/-! ### frames -/

inductive FrameOut
  | provider (seq : Nat) (event : Option Bytes) (raw : Bytes) (done : Bool)
  | textDelta (seq : Nat) (delta : Bytes)
  deriving Repr, DecidableEq

def isDone (p : Parsed) : Bool := p.raw == doneRaw

/-- `EventFrameMapper::map` with the pipe's seq offset already applied -/
def mapParsed (deltaOf : Bytes → Option Bytes) (seq : Nat) (p : Parsed) : List FrameOut :=
  let f := FrameOut.provider seq p.event p.raw (isDone p)
  if isDone p then [f] else
  match deltaOf p.raw with
  | some d => [f, .textDelta (seq + 1) d]
  | none => [f]

def mapAll (deltaOf : Bytes → Option Bytes) (seq : Nat) : List Parsed → List FrameOut
  | [] => []
  | p :: ps =>
    let fs := mapParsed deltaOf seq p
    fs ++ mapAll deltaOf (seq + fs.length) ps

/-- events up to and including the first `[DONE]` (the C15 repair: nothing after the terminal marker is mapped) -/
def uptoDone : List Parsed → List Parsed
  | [] => []
  | p :: ps => if isDone p then [p] else p :: uptoDone ps

/-! ### the pipe -/

structure Pipe where
  carry : Bytes          -- `utf8_buf`
  dec : Dec
  seq : Nat
  done : Bool
  out : List FrameOut    -- everything emitted so far
  deriving Repr

def Pipe.init (seqStart : Nat) : Pipe := { carry := [], dec := Dec.init, seq := seqStart, done := false, out := [] }

def fffd : Bytes := [0xEF, 0xBF, 0xBD]

/-- `push_sse_str` -/
def Pipe.pushStr (deltaOf : Bytes → Option Bytes) (p : Pipe) (text : Bytes) : Pipe :=
  let (d, parsed) := p.dec.push text
  let parsed := uptoDone parsed
  let fs := mapAll deltaOf p.seq parsed
  { p with dec := d, seq := p.seq + fs.length, out := p.out ++ fs, done := parsed.any isDone }

def Pipe.clear (p : Pipe) : Pipe := { p with carry := [] }

def Pipe.dropCarry (p : Pipe) (n : Nat) : Pipe := { p with carry := p.carry.drop n }

/-- replace an invalid sequence of `e` bytes at the head of the carry buffer by U+FFFD -/
def Pipe.replace (deltaOf : Bytes → Option Bytes) (p : Pipe) (e : Nat) : Pipe :=
  (p.dropCarry e).pushStr deltaOf fffd

/-- push the valid prefix of `n` bytes of the carry buffer -/
def Pipe.pushValid (deltaOf : Bytes → Option Bytes) (p : Pipe) (n : Nat) : Pipe :=
  (p.dropCarry n).pushStr deltaOf (p.carry.take n)

/-- the `loop` of `push_bytes` on the carry buffer; `fuel` bounds the iterations (each one
consumes at least one byte or stops) -/
def Pipe.drain (deltaOf : Bytes → Option Bytes) (p : Pipe) (fuel : Nat) : Pipe :=
  match fuel with
  | 0 => p
  | fuel + 1 =>
    match Rip.Utf8.validate p.carry with
    | none => (p.pushStr deltaOf p.carry).clear
    | some (0, none) => p
    | some (0, some e) =>
      if (p.replace deltaOf e).done then (p.replace deltaOf e).clear
      else (p.replace deltaOf e).drain deltaOf fuel
    | some (valid + 1, errLen) =>
      if (p.pushValid deltaOf (valid + 1)).done then (p.pushValid deltaOf (valid + 1)).clear
      else
        match errLen with
        | none => p.pushValid deltaOf (valid + 1)
        | some e =>
          if ((p.pushValid deltaOf (valid + 1)).replace deltaOf e).done then
            ((p.pushValid deltaOf (valid + 1)).replace deltaOf e).clear
          else ((p.pushValid deltaOf (valid + 1)).replace deltaOf e).drain deltaOf fuel

/-- `push_bytes` (a pipe that has seen `[DONE]` is never fed again by the read loop) -/
def Pipe.pushBytes (deltaOf : Bytes → Option Bytes) (p : Pipe) (chunk : Bytes) : Pipe :=
  if p.done then p else
  let p0 := { p with carry := p.carry ++ chunk }
  p0.drain deltaOf (p0.carry.length + 1)

/-- `OpenResponsesSsePipe::finish` -/
def Pipe.finish (deltaOf : Bytes → Option Bytes) (p : Pipe) : Pipe :=
  if p.done then p else
  let (d, parsed) := p.dec.finish
  let fs := mapAll deltaOf p.seq parsed
  { p with dec := d, seq := p.seq + fs.length, out := p.out ++ fs }

/-- the read loop of `stream_openresponses_request` over a chunk list -/
def feed (deltaOf : Bytes → Option Bytes) (seqStart : Nat) (chunks : List Bytes) : Pipe :=
  (chunks.foldl (Pipe.pushBytes deltaOf) (Pipe.init seqStart)).finish deltaOf

end Rip.Sse
