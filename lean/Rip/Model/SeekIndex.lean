/-
C04 / C08 model: the windowed read of a thread's full sidecar through its seek index
(`ripd/src/continuity_seek_index.rs`: `load_seq_index_v1`, `best_offset_for_seq`,
`validate_seq_index_against_sidecar`, `rebuild_seq_index_from_sidecar_v1`;
`ripd/src/continuity_stream_cache.rs`: `ensure_seq_index_v1`, `boundary_pos_for_seq_v1`,
`window_recent_messages_v1_from_cut_v1`) at the level of byte offsets.

A sidecar is a list of lines; a line has a seq, says whether it is a message and whether the window
keeps it (message or run_ended), and has `len + 1` bytes (so no line is empty). The index file is an
arbitrary list of `(seq, offset)` entries - whatever is on disk. `checkUse = true` is the code after
the repair (the entry a scan starts from is checked against the line it points at), `false` the code
before it (only the last entry of the index was ever checked).

Assumption recorded in the trusted base: a read that starts inside a line does not parse (a proper
suffix of a frame line is not a JSON document), so such an offset is an error, never a frame.
-/
namespace Rip.SeekIndex

structure Line where
  seq : Nat
  msg : Bool
  keep : Bool
  len : Nat
  deriving Repr, DecidableEq

def Line.size (l : Line) : Nat := l.len + 1

structure Entry where
  seq : Nat
  off : Nat
  deriving Repr, DecidableEq

def fileLen : List Line → Nat
  | [] => 0
  | l :: ls => l.size + fileLen ls

/-- what a reader finds that seeks to byte `off` and reads lines: `some rest` when `off` is the start
of a line (`rest = []` at or past the end of the file), `none` inside a line (parse error) -/
def linesFrom : List Line → Nat → Option (List Line)
  | ls, 0 => some ls
  | [], _ + 1 => some []
  | l :: ls, off + 1 => if off + 1 < l.size then none else linesFrom ls (off + 1 - l.size)

/-! ### loading, rebuilding and validating the index -/

def monoBy (f : Entry → Nat) : List Entry → Bool
  | a :: b :: rest => decide (f a ≤ f b) && monoBy f (b :: rest)
  | _ => true

/-- `load_seq_index_v1`: not empty, seqs and offsets never decrease -/
def loadOk (es : List Entry) : Bool :=
  !es.isEmpty && monoBy (·.seq) es && monoBy (·.off) es

/-- `rebuild_seq_index_from_sidecar_v1`: needs seqs 0,1,2,…; an entry for every `stride`-th seq -/
def rebuildGo (stride : Nat) : Nat → Nat → List Line → Option (List Entry)
  | _, _, [] => some []
  | off, exp, l :: ls =>
    if l.seq != exp then none
    else match rebuildGo stride (off + l.size) (exp + 1) ls with
      | none => none
      | some es => some (if l.seq % stride == 0 then ⟨l.seq, off⟩ :: es else es)

def rebuild (stride : Nat) (ls : List Line) : Option (List Entry) := rebuildGo stride 0 0 ls

/-- `validate_seq_index_against_sidecar` for one entry: it points inside the file, at the start of a
line, and that line carries the entry's seq -/
def entryValid (ls : List Line) (e : Entry) : Bool :=
  decide (e.off < fileLen ls) &&
    (match linesFrom ls e.off with
     | some (l :: _) => l.seq == e.seq
     | _ => false)

/-- `ensure_seq_index_v1`: load, rebuild when missing or rejected, validate the LAST entry -/
def ensure (stride : Nat) (ls : List Line) (file : Option (List Entry)) : Option (List Entry) :=
  let loaded : Option (List Entry) :=
    match file with
    | some es => if loadOk es then some es else none
    | none => none
  let es? : Option (List Entry) :=
    match loaded with
    | some es => some es
    | none => match rebuild stride ls with
      | some es => if loadOk es then some es else none
      | none => none
  match es? with
  | none => none
  | some es => match es.getLast? with
    | some e => if entryValid ls e then some es else none
    | none => none

/-- `best_offset_for_seq`'s entry: the last entry with `seq ≤ t` -/
def bestEntry (es : List Entry) (t : Nat) : Option Entry :=
  (es.filter (fun e => decide (e.seq ≤ t))).getLast?

/-- where a forward scan for `t` starts; `none` = the entry does not match the sidecar (Err) -/
def startOffset (checkUse : Bool) (ls : List Line) (es : List Entry) (t : Nat) : Option Nat :=
  match bestEntry es t with
  | none => some 0
  | some e => if checkUse && !entryValid ls e then none else some e.off

/-! ### the three scans of a window read -/

/-- `boundary_pos_for_seq_v1`: start of the first line with `seq > fromSeq`, else the file length -/
def boundaryGo (fromSeq total : Nat) : Nat → List Line → Nat
  | _, [] => total
  | cur, l :: ls => if fromSeq < l.seq then cur else boundaryGo fromSeq total (cur + l.size) ls

def boundaryPos (checkUse : Bool) (ls : List Line) (es : List Entry) (fromSeq : Nat) : Option Nat :=
  match startOffset checkUse ls es fromSeq with
  | none => none
  | some off => match linesFrom ls off with
    | none => none
    | some rest => some (boundaryGo fromSeq (fileLen ls) off rest)

/-- lines that start before byte `boundary` -/
def linesBefore : Nat → Nat → List Line → List Line
  | _, _, [] => []
  | boundary, cur, l :: ls => if cur < boundary then l :: linesBefore boundary (cur + l.size) ls else []

/-- the backward header scan, newest first: seq of the `limit`-th message at or below `fromSeq` -/
def backFind (fromSeq limit : Nat) : Nat → List Line → Nat
  | _, [] => 0
  | found, l :: ls =>
    if fromSeq < l.seq then backFind fromSeq limit found ls
    else if l.msg then (if limit ≤ found + 1 then l.seq else backFind fromSeq limit (found + 1) ls)
    else backFind fromSeq limit found ls

/-- `budget` = how many lines back the scan may look (bytes / events caps) -/
def startSeq (ls : List Line) (boundary fromSeq limit budget : Nat) : Nat :=
  backFind fromSeq limit 0 ((linesBefore boundary 0 ls).reverse.take budget)

/-- the forward scan of `window_recent_messages_v1_from_cut_v1` -/
def forwardGo (s fromSeq boundary : Nat) : Nat → List Line → List Nat
  | _, [] => []
  | cur, l :: ls =>
    if boundary ≤ cur then []
    else if l.seq < s then forwardGo s fromSeq boundary (cur + l.size) ls
    else if fromSeq < l.seq then []
    else (if l.keep then [l.seq] else []) ++ forwardGo s fromSeq boundary (cur + l.size) ls

/-- `window_recent_messages_v1_from_seq` given the index entries in use -/
def windowWith (checkUse : Bool) (budget : Nat) (ls : List Line) (es : List Entry) (fromSeq limit : Nat) :
    Option (List Nat) :=
  match boundaryPos checkUse ls es fromSeq with
  | none => none
  | some b =>
    let s := startSeq ls b fromSeq limit budget
    match startOffset checkUse ls es s with
    | none => none
    | some off => match linesFrom ls off with
      | none => none
      | some rest => some (forwardGo s fromSeq b off rest)

/-- the same with the index file as found on disk (`none` = missing) -/
def window (checkUse : Bool) (stride budget : Nat) (ls : List Line) (file : Option (List Entry))
    (fromSeq limit : Nat) : Option (List Nat) :=
  match ensure stride ls file with
  | none => none
  | some es => windowWith checkUse budget ls es fromSeq limit

/-- the index-free reference: every scan starts at byte 0 -/
def windowLinear (budget : Nat) (ls : List Line) (fromSeq limit : Nat) : List Nat :=
  let b := boundaryGo fromSeq (fileLen ls) 0 ls
  let s := startSeq ls b fromSeq limit budget
  forwardGo s fromSeq b 0 ls

/-- what the window is for: the kept frames with `s ≤ seq ≤ fromSeq` -/
def windowSpec (s fromSeq : Nat) (ls : List Line) : List Nat :=
  (ls.filter (fun l => l.keep && decide (s ≤ l.seq) && decide (l.seq ≤ fromSeq))).map (·.seq)

def Sorted (ls : List Line) : Prop := ls.Pairwise (fun a b => a.seq < b.seq)

end Rip.SeekIndex
