/-
C02 model: the truth log as a byte string. `EventLog::append` writes the JSON text of one frame
(which contains no raw newline: serde_json escapes it) followed by `\n`, through a file opened
with create+append. Plus: reachability in the regenerated call graph of `impl ContinuityStore`.
-/
import Rip.Model.Proto
namespace Rip.LogBytes
open Rip.Proto

def appendLine (log line : Bytes) : Bytes := log ++ line ++ [10]

def appendAll (log : Bytes) (ls : List Bytes) : Bytes := ls.foldl appendLine log

/-- the log consists of whole newline-terminated lines -/
def WholeLines (log : Bytes) : Prop := log = [] ∨ log.getLast? = some 10

def NoNl (line : Bytes) : Prop := ∀ b ∈ line, b ≠ 10

/-- the lines of a log made of whole lines -/
def linesOf (log : Bytes) : List Bytes :=
  let rec go (s : Bytes) (cur : Bytes) : List Bytes :=
    match s with
    | [] => []            -- a trailing partial line is not a frame
    | b :: r => if b = 10 then cur.reverse :: go r [] else go r (b :: cur)
  go log []

/-! ### reachability in a call graph given as (id, callees, appendsDirectly) -/

def callees (g : List (Nat × List Nat × Bool)) (n : Nat) : List Nat :=
  match g.find? (fun e => e.1 == n) with
  | some e => e.2.1
  | none => []

def appendsDirectly (g : List (Nat × List Nat × Bool)) (n : Nat) : Bool :=
  match g.find? (fun e => e.1 == n) with
  | some e => e.2.2
  | none => false

/-- nodes reachable from `frontier` within `fuel` expansion rounds -/
def reach (g : List (Nat × List Nat × Bool)) : Nat → List Nat → List Nat → List Nat
  | 0, _, visited => visited
  | fuel + 1, frontier, visited =>
    let next := (frontier.map (callees g)).flatten.filter (fun n => !visited.contains n)
    let next := next.eraseDups
    if next.isEmpty then visited else reach g fuel next (visited ++ next)

def canAppend (g : List (Nat × List Nat × Bool)) (entry : Nat) : Bool :=
  (reach g g.length [entry] [entry]).any (appendsDirectly g)

end Rip.LogBytes
