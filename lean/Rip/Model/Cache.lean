/-
C04 model: the tail-scanning read paths of ripd/src/continuities.rs over a per-thread cache file
(`provider_cursor_status_v1`, `context_selection_status_v1`): the truth answer as a function of the
thread's frames, the bounded tail scan, the doubling-window loop, and validate-then-fall-back.
Windows are counted in frames (bytes and event caps are both monotone budgets; the theorems
quantify over every first window and every maximum). `Shape` records the three features of the
loops that the repairs touch, so both the code before and after them can be run.
-/
namespace Rip.Cache

inductive K
  | cursor (key : Nat)       -- provider cursor frame for (provider, endpoint, model) = key
  | decision                 -- context selection decision frame
  | other
  deriving Repr, DecidableEq

structure F where
  seq : Nat
  kind : K
  deriving Repr, DecidableEq

def maxKeys : Nat := 32

/-! ### truth answers -/

def cursorRows (fs : List F) : List (Nat × Nat) :=          -- (key, seq), newest first
  fs.reverse.filterMap (fun f => match f.kind with | .cursor k => some (k, f.seq) | _ => none)

/-- first row per key while scanning newest → oldest, stopping once `cap` keys are known -/
def firstPerKey (cap : Nat) : List (Nat × Nat) → List (Nat × Nat) → List (Nat × Nat)
  | acc, [] => acc
  | acc, r :: rs =>
    if acc.length ≥ cap then acc
    else if acc.any (fun a => a.1 == r.1) then firstPerKey cap acc rs
    else firstPerKey cap (acc ++ [r]) rs

structure CursorAnswer where
  active : Option Nat            -- seq of the newest cursor frame
  cursors : List (Nat × Nat)     -- per key, the newest frame
  deriving Repr, DecidableEq

def cursorTruth (fs : List F) : CursorAnswer :=
  { active := (cursorRows fs).head?.map (·.2), cursors := firstPerKey maxKeys [] (cursorRows fs) }

def decisionSeqs (fs : List F) : List Nat :=                 -- newest first
  fs.reverse.filterMap (fun f => match f.kind with | .decision => some f.seq | _ => none)

def selectionTruth (fs : List F) (limit : Nat) : List Nat := (decisionSeqs fs).take limit

/-! ### the cache file and the bounded tail scan -/

/-- what the tail scan of a cache file holding `cs` returns for a window of `w` frames -/
structure Tail where
  events : List F                -- oldest first
  reachedStart : Bool
  deriving Repr, DecidableEq

def tailOf (cs : List F) (w : Nat) : Tail :=
  { events := cs.drop (cs.length - w), reachedStart := decide (cs.length ≤ w) }

structure Shape where
  exitAtMax : Bool               -- `if tail_bytes >= MAX { break }` before doubling
  resetAcc : Bool                -- the accumulator is cleared for each (larger) window
  headCheck : Bool               -- a tail that reached the start of the file must start at seq 0
  fallback : Bool                -- cursor status: an incomplete scan falls back to the truth log
  deriving Repr, DecidableEq

def asIs : Shape := { exitAtMax := false, resetAcc := false, headCheck := false, fallback := false }
def repaired : Shape := { exitAtMax := true, resetAcc := true, headCheck := true, fallback := true }

/-- `complete` as the loop sees it; `none` = the scan is rejected (falls back to truth) -/
def completeOf (sh : Shape) (t : Tail) : Option Bool :=
  if t.reachedStart && sh.headCheck && (match t.events.head? with | some f => f.seq != 0 | none => false)
  then none else some t.reachedStart

/-- `context_selection_status_v1` over a cache file `cs` of a thread whose truth is `fs`;
`none` = the loop is still running when the fuel runs out -/
def selectionLoop (sh : Shape) (cs : List F) (limit w max : Nat) (acc : List Nat) : Nat → Option (List Nat × Bool × Bool)
  | 0 => none
  | fuel + 1 =>
    if !(w ≤ max && acc.length < limit) then some (acc, true, false)       -- (acc, scanned, complete)
    else
      let t := tailOf cs w
      match completeOf sh t with
      | none => some (acc, false, false)                                   -- Err ⇒ break, not scanned
      | some complete =>
        let base := if sh.resetAcc then [] else acc
        let acc' := base ++ (decisionSeqs t.events).take (limit - base.length)
        if complete then some (acc', true, true)
        else if sh.exitAtMax && w ≥ max then some (acc', true, false)
        else selectionLoop sh cs limit (min (2 * w) max) max acc' fuel

def selectionFast (sh : Shape) (fs cs : List F) (limit w0 max fuel : Nat) : Option (List Nat) :=
  match selectionLoop sh cs limit w0 max [] fuel with
  | none => none
  | some (acc, scanned, complete) =>
    if !scanned || (!complete && acc.length < limit) then some (selectionTruth fs limit) else some acc

/-- `provider_cursor_status_v1` likewise (its accumulators are insert-if-absent, so repeated windows
do not duplicate) -/
def cursorLoop (sh : Shape) (cs : List F) (w max : Nat) : Nat → Option (Option (CursorAnswer × Bool))
  | 0 => none
  | fuel + 1 =>
    if !(w ≤ max) then some none
    else
      let t := tailOf cs w
      match completeOf sh t with
      | none => some none                                                   -- Err ⇒ break; not scanned
      | some complete =>
        let ans := cursorTruth t.events
        if complete || ans.cursors.length ≥ maxKeys then some (some (ans, true))
        else if sh.exitAtMax && w ≥ max then some (some (ans, false))
        else cursorLoop sh cs (min (2 * w) max) max fuel

def cursorFast (sh : Shape) (fs cs : List F) (w0 max fuel : Nat) : Option CursorAnswer :=
  match cursorLoop sh cs w0 max fuel with
  | none => none
  | some none => some (cursorTruth fs)
  | some (some (ans, enough)) => if !enough && sh.fallback then some (cursorTruth fs) else some ans

/-- a valid thread: frame i carries seq i -/
def Valid (fs : List F) : Prop := ∀ i (h : i < fs.length), (fs[i]).seq = i

/-- what `append_best_effort` can leave behind: the cache holds a suffix of the truth (all of it, or —
after the file was lost and recreated by later appends — only the newest frames) -/
def SuffixOf (cs fs : List F) : Prop := ∃ pre, fs = pre ++ cs

end Rip.Cache
