/-
C19 model: layered provider configuration, its resolution (`resolve_openresponses_config` in
ripd/src/config.rs), what diagnostics report (`config_doctor` in ripd/src/server.rs), what a run
records about the provider (request-started frames, request dumps) and what is attached to the
outgoing HTTP request (`stream_openresponses_request`). Names are numbers; a secret value is a
number, 0 standing for a blank (empty or whitespace-only) value.
-/
namespace Rip.Secrets

abbrev Secret := Nat

structure Endpoint where
  id : Nat
  openai : Bool          -- the URL contains "openai.com"
  openrouter : Bool      -- the URL contains "openrouter.ai"
  deriving Repr, DecidableEq

inductive KeySrc
  | inline (v : Secret)
  | env (name : Nat)
  deriving Repr, DecidableEq

/-- one provider entry of one configuration layer (all fields optional; layers are deep-merged) -/
structure PProvider where
  endpoint : Option Endpoint := none
  apiKey : Option KeySrc := none
  headers : List (Nat × Secret) := []       -- (name, value), sorted by name
  deriving Repr, DecidableEq

structure Layer where
  providers : List (Nat × PProvider) := []  -- sorted by provider id
  primary : Option (Nat × Nat) := none      -- roles.primary as (provider id, model id)
  model : Option (Nat × Nat) := none        -- top-level model route
  deriving Repr, DecidableEq

/-- process environment -/
structure Env where
  endpoint : Option Endpoint := none        -- RIP_OPENRESPONSES_ENDPOINT
  model : Option Nat := none                -- RIP_OPENRESPONSES_MODEL
  ripKey : Option Secret := none            -- RIP_OPENRESPONSES_API_KEY
  openaiKey : Option Secret := none         -- OPENAI_API_KEY
  openrouterKey : Option Secret := none     -- OPENROUTER_API_KEY
  named : List (Nat × Secret) := []         -- variables referenced by {"env": NAME}
  deriving Repr, DecidableEq

structure Override where
  endpoint : Option Endpoint := none
  model : Option Nat := none
  deriving Repr, DecidableEq

/-! ### layer merge (`merge_json_value`: objects deep, everything else replaced) -/

def insertSorted (k : Nat) (v : α) : List (Nat × α) → List (Nat × α)
  | [] => [(k, v)]
  | (k', v') :: rest => if k < k' then (k, v) :: (k', v') :: rest
                        else if k = k' then (k, v) :: rest else (k', v') :: insertSorted k v rest

def lookup (k : Nat) (l : List (Nat × α)) : Option α := (l.find? (fun e => e.1 == k)).map (·.2)

def mergeHeaders (base over : List (Nat × Secret)) : List (Nat × Secret) :=
  over.foldl (fun acc e => insertSorted e.1 e.2 acc) base

def mergeProvider (base over : PProvider) : PProvider :=
  { endpoint := over.endpoint.or base.endpoint,
    apiKey := over.apiKey.or base.apiKey,
    headers := mergeHeaders base.headers over.headers }

def mergeProviders (base over : List (Nat × PProvider)) : List (Nat × PProvider) :=
  over.foldl (fun acc e =>
    match lookup e.1 acc with
    | some b => insertSorted e.1 (mergeProvider b e.2) acc
    | none => insertSorted e.1 e.2 acc) base

def mergeLayer (base over : Layer) : Layer :=
  { providers := mergeProviders base.providers over.providers,
    primary := over.primary.or base.primary,
    model := over.model.or base.model }

def mergeAll (layers : List Layer) : Layer := layers.foldl mergeLayer {}

/-! ### resolution -/

inductive Source
  | inline | envNamed (name : Nat) | envRip | envOpenAI | envOpenRouter
  deriving Repr, DecidableEq

structure Resolved where
  providerId : Option Nat
  endpoint : Endpoint
  model : Option Nat
  headers : List (Nat × Secret)
  apiKey : Option Secret
  source : Option Source
  deriving Repr, DecidableEq

def nonBlank (s : Option Secret) : Option Secret := s.filter (· != 0)

def KeySrc.resolve (env : Env) : KeySrc → Option Secret
  | .inline v => nonBlank (some v)
  | .env n => nonBlank (lookup n env.named)

def KeySrc.source : KeySrc → Source
  | .inline _ => .inline
  | .env n => .envNamed n

def keyFromEnv (env : Env) (ep : Endpoint) : Option Secret × Option Source :=
  match nonBlank env.ripKey with
  | some k => (some k, some .envRip)
  | none =>
    if ep.openai then (nonBlank env.openaiKey, some .envOpenAI)
    else if ep.openrouter then (nonBlank env.openrouterKey, some .envOpenRouter)
    else (none, none)

def resolve (cfg : Layer) (env : Env) (ov : Override) : Option Resolved :=
  let route := cfg.primary.or cfg.model
  let routeProvider := route.bind (fun r => lookup r.1 cfg.providers)
  let endpoint := ov.endpoint.or (env.endpoint.or (routeProvider.bind (·.endpoint)))
  match endpoint with
  | none => none
  | some ep =>
    let pm : Option (Nat × PProvider) :=
      match route with
      | some r => (lookup r.1 cfg.providers).map (fun p => (r.1, p))
      | none => cfg.providers.find? (fun e => e.2.endpoint.map (·.id) == some ep.id)
    let headers := match pm with | some p => p.2.headers | none => []
    let fromCfg : Option Secret × Option Source :=
      match pm.bind (·.2.apiKey) with
      | some src => (src.resolve env, some src.source)
      | none => (none, none)
    let (key, source) := if fromCfg.1.isNone then keyFromEnv env ep else fromCfg
    some { providerId := pm.map (·.1), endpoint := ep,
           model := ov.model.or (env.model.or (route.map (·.2))),
           headers := headers, apiKey := key, source := source }

/-! ### what is observable, and what goes on the wire -/

structure Doctor where
  providerId : Option Nat
  endpoint : Nat
  model : Option Nat
  hasApiKey : Bool
  source : Option Source
  headerNames : List Nat
  deriving Repr, DecidableEq

def doctor (r : Resolved) : Doctor :=
  { providerId := r.providerId, endpoint := r.endpoint.id, model := r.model,
    hasApiKey := (nonBlank r.apiKey).isSome, source := r.source, headerNames := r.headers.map (·.1) }

/-- what frames, dumps and snapshots record about the provider of a run: endpoint and model -/
def recorded (r : Resolved) : Nat × Option Nat := (r.endpoint.id, r.model)

/-- what is attached to the outgoing HTTP request, and nowhere else -/
def wire (r : Resolved) : Option Secret × List (Nat × Secret) := (r.apiKey, r.headers)

/-! ### renaming of secret values -/

def KeySrc.mapS (f : Secret → Secret) : KeySrc → KeySrc
  | .inline v => .inline (f v)
  | .env n => .env n

def PProvider.mapS (f : Secret → Secret) (p : PProvider) : PProvider :=
  { p with apiKey := p.apiKey.map (KeySrc.mapS f), headers := p.headers.map (fun h => (h.1, f h.2)) }

def Layer.mapS (f : Secret → Secret) (l : Layer) : Layer :=
  { l with providers := l.providers.map (fun e => (e.1, e.2.mapS f)) }

def Env.mapS (f : Secret → Secret) (e : Env) : Env :=
  { e with ripKey := e.ripKey.map f, openaiKey := e.openaiKey.map f, openrouterKey := e.openrouterKey.map f,
           named := e.named.map (fun h => (h.1, f h.2)) }

/-- a renaming that keeps blank values blank and non-blank values non-blank -/
def KeepsBlank (f : Secret → Secret) : Prop := ∀ s, f s = 0 ↔ s = 0

end Rip.Secrets
