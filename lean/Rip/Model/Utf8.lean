/-
UTF-8 validation with the observable behaviour of Rust's `core::str::from_utf8`
(`Utf8Error::valid_up_to`, `Utf8Error::error_len`). Import-free.
-/
import Rip.Model.Proto
namespace Rip.Utf8
open Rip.Proto

inductive Step
  | ok (len : Nat)                 -- a complete scalar value of `len` bytes
  | invalid (errLen : Nat)         -- `error_len = Some errLen`
  | incomplete                     -- `error_len = None` (input ends inside a sequence)
  deriving Repr, DecidableEq

def inR (b : UInt8) (lo hi : UInt8) : Bool := lo ≤ b && b ≤ hi

/-- Decode one scalar value at the head of `s` (`s ≠ []`), as `run_utf8_validation` does. -/
def step (s : Bytes) : Step :=
  match s with
  | [] => .incomplete
  | b0 :: r =>
    if b0 < 0x80 then .ok 1
    else if inR b0 0xC2 0xDF then
      match r with
      | [] => .incomplete
      | b1 :: _ => if inR b1 0x80 0xBF then .ok 2 else .invalid 1
    else if inR b0 0xE0 0xEF then
      match r with
      | [] => .incomplete
      | b1 :: r2 =>
        let ok1 :=
          if b0 == 0xE0 then inR b1 0xA0 0xBF
          else if b0 == 0xED then inR b1 0x80 0x9F
          else inR b1 0x80 0xBF
        if !ok1 then .invalid 1 else
        match r2 with
        | [] => .incomplete
        | b2 :: _ => if inR b2 0x80 0xBF then .ok 3 else .invalid 2
    else if inR b0 0xF0 0xF4 then
      match r with
      | [] => .incomplete
      | b1 :: r2 =>
        let ok1 :=
          if b0 == 0xF0 then inR b1 0x90 0xBF
          else if b0 == 0xF4 then inR b1 0x80 0x8F
          else inR b1 0x80 0xBF
        if !ok1 then .invalid 1 else
        match r2 with
        | [] => .incomplete
        | b2 :: r3 =>
          if !inR b2 0x80 0xBF then .invalid 2 else
          match r3 with
          | [] => .incomplete
          | b3 :: _ => if inR b3 0x80 0xBF then .ok 4 else .invalid 3
    else .invalid 1

/-- Result of validating a whole buffer: `none` = valid; `some (validUpTo, errorLen?)`. -/
def validateAux (s : Bytes) (pos : Nat) (fuel : Nat) : Option (Nat × Option Nat) :=
  match fuel with
  | 0 => none
  | fuel + 1 =>
    match s with
    | [] => none
    | _ :: _ =>
      match step s with
      | .ok n => validateAux (s.drop n) (pos + n) fuel
      | .invalid e => some (pos, some e)
      | .incomplete => some (pos, none)

def validate (s : Bytes) : Option (Nat × Option Nat) := validateAux s 0 (s.length + 1)

def isValid (s : Bytes) : Bool := (validate s).isNone

end Rip.Utf8
