/-
C01 model: concurrent writers of the truth log (ripd/src/continuities.rs). Every `append_*`
function takes the `next_seq` mutex, chooses the stream's next seq (from the in-memory map, or —
after a restart — from the log), appends to the log, bumps the map, releases. `branch`/`handoff`
create a thread WITHOUT that discipline: creation frame at seq 0, map := 1, lineage frame at the
hard-coded seq 1, map := 2. One transition = one effect (the granularity of the yield points /
of Rip.Gen.EffectOrder).
-/
namespace Rip.StoreLTS

inductive Op
  | append (σ : Nat)        -- any of the 11 locked append functions on stream σ
  | create (σ : Nat)        -- branch / handoff / ensure_default creating stream σ (+ lineage frame)
  deriving Repr, DecidableEq

structure W where
  prog : List Op
  pc : Nat                   -- micro position inside the head op
  chosen : Nat               -- seq chosen by the append in progress
  deriving Repr, DecidableEq

structure S where
  log : List (Nat × Nat)     -- (stream, seq) in file order
  next : List (Nat × Nat)    -- the in-memory next_seq map (association list, first match wins)
  lock : Option Nat          -- holder of the next_seq mutex
  ws : List W
  deriving Repr, DecidableEq

def count (log : List (Nat × Nat)) (σ : Nat) : Nat := (log.filter (fun e => e.1 == σ)).length

def lookup (m : List (Nat × Nat)) (σ : Nat) : Option Nat := (m.find? (fun e => e.1 == σ)).map (·.2)

def setNext (m : List (Nat × Nat)) (σ k : Nat) : List (Nat × Nat) := (σ, k) :: m.filter (fun e => e.1 != σ)

def setW (s : S) (i : Nat) (w : W) : S := { s with ws := s.ws.set i w }

inductive Act
  | step (i : Nat)           -- writer i performs its next effect (stutters if blocked on the mutex)
  | restart                  -- authority restart: the in-memory map is lost (only when nobody is mid-operation)
  deriving Repr, DecidableEq

/-- `known σ`: the thread exists from before the run (its frames are not part of this log; the
first append numbers from the log = 0 here, as after a restart) -/
def stepW (locked : Bool) (known : Nat → Bool) (s : S) (i : Nat) (w : W) : S :=
  match w.prog with
  | [] => s
  | .append σ :: rest =>
    match w.pc with
    | 0 => -- lock
      match s.lock with
      | none => setW { s with lock := some i } i { w with pc := 1 }
      | some _ => s
    | 1 => -- choose the seq (map, else last seq in the log + 1) and append to the log
      match lookup s.next σ with
      | some k => setW { s with log := s.log ++ [(σ, k)] } i { w with pc := 2, chosen := k }
      | none =>
        if count s.log σ = 0 && !known σ then
          -- `load_next_seq_for` finds no frame: the call fails, nothing is written
          setW { s with lock := none } i { prog := rest, pc := 0, chosen := 0 }
        else
          let k := count s.log σ
          setW { s with log := s.log ++ [(σ, k)] } i { w with pc := 2, chosen := k }
    | 2 => -- bump
      setW { s with next := setNext s.next σ (w.chosen + 1) } i { w with pc := 3 }
    | _ => -- unlock, operation done
      setW { s with lock := none } i { prog := rest, pc := 0, chosen := 0 }
  | .create σ :: rest =>
    match w.pc with
    | 0 =>
      if locked then
        match s.lock with
        | none => setW { s with lock := some i } i { w with pc := 1 }              -- take the seq lock first
        | some _ => s
      else setW s i { w with pc := 1 }
    | 1 => setW { s with log := s.log ++ [(σ, 0)] } i { w with pc := 2 }          -- creation frame
    | 2 =>                                                                         -- map := 1
      if locked then setW { s with next := setNext s.next σ 1 } i { w with pc := 3 }
      else match s.lock with
        | none => setW { s with next := setNext s.next σ 1 } i { w with pc := 3 }
        | some _ => s                                                              -- brief lock, blocked while held
    | 3 => setW { s with log := s.log ++ [(σ, 1)] } i { w with pc := 4 }          -- lineage frame, hard-coded seq 1
    | _ =>                                                                         -- map := 2 (and unlock)
      if locked then setW { s with next := setNext s.next σ 2, lock := none } i { prog := rest, pc := 0, chosen := 0 }
      else match s.lock with
        | none => setW { s with next := setNext s.next σ 2 } i { prog := rest, pc := 0, chosen := 0 }
        | some _ => s

def idle (s : S) : Bool := s.lock.isNone && s.ws.all (fun w => w.pc == 0)

def act (locked : Bool) (known : Nat → Bool) (s : S) : Act → S
  | .step i => match s.ws[i]? with
    | some w => stepW locked known s i w
    | none => s
  | .restart => if idle s then { s with next := [] } else s

def init (progs : List (List Op)) : S :=
  { log := [], next := [], lock := none, ws := progs.map (fun p => { prog := p, pc := 0, chosen := 0 }) }

def run (locked : Bool) (known : Nat → Bool) (progs : List (List Op)) (sched : List Act) : S :=
  sched.foldl (act locked known) (init progs)

/-- every stream's frames carry seq 0,1,2,… in file order (what `validate_event_order` accepts) -/
def validLog (log : List (Nat × Nat)) : Bool :=
  let rec go (l : List (Nat × Nat)) (seen : List (Nat × Nat)) : Bool :=
    match l with
    | [] => true
    | (σ, k) :: rest => k == count seen σ && go rest (seen ++ [(σ, k)])
  go log []

/-- streams created by some writer's program -/
def created (progs : List (List Op)) : List Nat :=
  progs.flatten.filterMap (fun o => match o with | .create σ => some σ | _ => none)

/-- thread ids are fresh: a stream is created at most once in a run, and a created stream is not
one that existed before the run -/
def FreshIds (known : Nat → Bool) (progs : List (List Op)) : Prop :=
  (created progs).Nodup ∧ ∀ σ ∈ created progs, known σ = false

end Rip.StoreLTS
