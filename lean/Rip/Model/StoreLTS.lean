/-
C01 model: concurrent writers of the truth log (ripd/src/continuities.rs). Every `append_*`
function takes the `next_seq` mutex, chooses the stream's next seq (from the in-memory map, or —
after a restart — from the log), appends to the log, bumps the map, releases. `branch`/`handoff`
create a thread WITHOUT that discipline: creation frame at seq 0, map := 1, lineage frame at the
hard-coded seq 1, map := 2. One transition = one effect (the granularity of the yield points /
of Rip.Gen.EffectOrder).
-/
namespace Rip.StoreLTS

inductive Op
  | append (σ : Nat)        -- any of the 11 locked append functions on stream σ
  | create (σ : Nat)        -- branch / handoff / ensure_default creating stream σ (+ lineage frame)
  deriving Repr, DecidableEq

structure W where
  prog : List Op
  pc : Nat                   -- micro position inside the head op
  chosen : Nat               -- seq chosen by the append in progress
  deriving Repr, DecidableEq

structure S where
  log : List (Nat × Nat)     -- (stream, seq) in file order
  next : List (Nat × Nat)    -- the in-memory next_seq map (association list, first match wins)
  lock : Option Nat          -- holder of the next_seq mutex
  ws : List W
  deriving Repr, DecidableEq

def count (log : List (Nat × Nat)) (σ : Nat) : Nat := (log.filter (fun e => e.1 == σ)).length

def lookup (m : List (Nat × Nat)) (σ : Nat) : Option Nat := (m.find? (fun e => e.1 == σ)).map (·.2)

def setNext (m : List (Nat × Nat)) (σ k : Nat) : List (Nat × Nat) := (σ, k) :: m.filter (fun e => e.1 != σ)

def setW (s : S) (i : Nat) (w : W) : S := { s with ws := s.ws.set i w }

inductive Act
  | step (i : Nat)           -- writer i performs its next effect (stutters if blocked on the mutex)
  | restart                  -- authority restart: the in-memory map is lost (only when nobody is mid-operation)
  deriving Repr, DecidableEq

def stepW (s : S) (i : Nat) (w : W) : S :=
  match w.prog with
  | [] => s
  | .append σ :: rest =>
    match w.pc with
    | 0 => -- lock
      match s.lock with
      | none => setW { s with lock := some i } i { w with pc := 1 }
      | some _ => s
    | 1 => -- choose the seq (map, else last seq in the log + 1) and append to the log
      let k := match lookup s.next σ with | some k => k | none => count s.log σ
      setW { s with log := s.log ++ [(σ, k)] } i { w with pc := 2, chosen := k }
    | 2 => -- bump
      setW { s with next := setNext s.next σ (w.chosen + 1) } i { w with pc := 3 }
    | _ => -- unlock, operation done
      setW { s with lock := none } i { prog := rest, pc := 0, chosen := 0 }
  | .create σ :: rest =>
    match w.pc with
    | 0 => setW { s with log := s.log ++ [(σ, 0)] } i { w with pc := 1 }          -- creation frame, no lock
    | 1 => setW { s with next := setNext s.next σ 1 } i { w with pc := 2 }         -- map := 1
    | 2 => setW { s with log := s.log ++ [(σ, 1)] } i { w with pc := 3 }          -- lineage frame, hard-coded seq 1
    | _ => setW { s with next := setNext s.next σ 2 } i { prog := rest, pc := 0, chosen := 0 }

def idle (s : S) : Bool := s.lock.isNone && s.ws.all (fun w => w.pc == 0)

def act (s : S) : Act → S
  | .step i => match s.ws[i]? with
    | some w => stepW s i w
    | none => s
  | .restart => if idle s then { s with next := [] } else s

def init (progs : List (List Op)) : S :=
  { log := [], next := [], lock := none, ws := progs.map (fun p => { prog := p, pc := 0, chosen := 0 }) }

def run (progs : List (List Op)) (sched : List Act) : S := sched.foldl act (init progs)

/-- every stream's frames carry seq 0,1,2,… in file order (what `validate_event_order` accepts) -/
def validLog (log : List (Nat × Nat)) : Bool :=
  let rec go (l : List (Nat × Nat)) (seen : List (Nat × Nat)) : Bool :=
    match l with
    | [] => true
    | (σ, k) :: rest => k == count seen σ && go rest (seen ++ [(σ, k)])
  go log []

/-- streams created by some writer's program -/
def created (progs : List (List Op)) : List Nat :=
  progs.flatten.filterMap (fun o => match o with | .create σ => some σ | _ => none)

/-- nobody addresses a thread that a concurrent `create` is still producing: a created stream is
created once, is appended to only by the creating writer, and only after the creation (a client
learns the new thread id when the creating call returns). Streams that are appended to without
being created model threads that exist already (numbering from the log, as after a restart). -/
def NoEarlyAddress (progs : List (List Op)) : Prop :=
  (created progs).Nodup ∧
  ∀ (i j : Nat) (p q : List Op) (σ : Nat), progs[i]? = some p → progs[j]? = some q → Op.create σ ∈ p →
    (i ≠ j → Op.append σ ∉ q) ∧
    (∀ ops1 ops2, p = ops1 ++ Op.create σ :: ops2 → Op.append σ ∉ ops1)

end Rip.StoreLTS
