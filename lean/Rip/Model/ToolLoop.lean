/-
C16 model: `ToolCallCollector`, `ToolChoiceEnforcement` and the request/answer bookkeeping of
`run_openresponses_agent_loop` (ripd/src/session.rs). Strings are numbers (0 = the empty string);
argument text is a list of chunks (concatenation = append).
-/
namespace Rip.ToolLoop

abbrev Str := Nat            -- 0 is ""
abbrev Text := List Nat      -- argument text as chunks

structure Call where
  outputIndex : Nat
  callId : Str
  itemId : Str
  name : Str
  args : Text
  deriving Repr, DecidableEq

/-- the JSON `data` of a provider event, as far as the collector reads it -/
inductive PEv
  | item (done : Bool) (outputIndex : Nat) (isFunctionCall : Bool)
         (itemId callId name : Option Str) (args : Option Text)     -- raw fields of `item`
  | argsDelta (itemId : Option Str) (outputIndex : Nat) (delta : Text)
  | argsDone (itemId : Option Str) (outputIndex : Nat) (args : Text)
  | other
  deriving Repr, DecidableEq

structure Buf where
  outputIndex : Nat := 0
  callId : Option Str := none
  name : Option Str := none
  args : Text := []
  deriving Repr, DecidableEq

structure Collector where
  byItem : List (Str × Buf) := []        -- function_call_by_item_id
  itemOfCall : List (Str × Str) := []    -- item_id_by_call_id
  completed : List Call := []
  deriving Repr, DecidableEq

def getBuf (m : List (Str × Buf)) (k : Str) : Buf :=
  match m.find? (fun e => e.1 == k) with
  | some e => e.2
  | none => {}

def putBuf (m : List (Str × Buf)) (k : Str) (b : Buf) : List (Str × Buf) :=
  (k, b) :: m.filter (fun e => e.1 != k)

def nonEmpty (o : Option Str) : Option Str := o.filter (· != 0)

def Collector.observe (c : Collector) : PEv → Collector
  | .item done idx isFn itemIdRaw callIdRaw nameRaw argsRaw =>
    if !isFn then c else
    let callId := nonEmpty callIdRaw
    let itemId : Str :=
      match nonEmpty itemIdRaw with
      | some i => i
      | none =>
        match callId.bind (fun cid => (c.itemOfCall.find? (fun e => e.1 == cid)).map (·.2)) with
        | some i => i
        | none => callId.getD 0
    if itemId == 0 then c else
    let itemOfCall :=
      match callId with
      | some cid => if c.itemOfCall.any (fun e => e.1 == cid) then c.itemOfCall else c.itemOfCall ++ [(cid, itemId)]
      | none => c.itemOfCall
    let e := getBuf c.byItem itemId
    let argsNE : Option Text := argsRaw.filter (fun a => !a.isEmpty)
    let e : Buf := { outputIndex := idx, callId := callId.or e.callId, name := nameRaw.or e.name,
                     args := match argsNE with | some a => a | none => e.args }
    if !done then { c with byItem := putBuf c.byItem itemId e, itemOfCall := itemOfCall }
    else
      let byItem := c.byItem.filter (fun x => x.1 != itemId)
      let callIdF := callIdRaw.or e.callId           -- NOT filtered for emptiness here
      let nameF := nameRaw.or e.name
      let argsF : Text := match argsNE with | some a => a | none => e.args
      match callIdF, nameF with
      | some cid, some n =>
        { byItem := byItem, itemOfCall := itemOfCall,
          completed := c.completed ++ [{ outputIndex := idx, callId := cid, itemId := itemId, name := n, args := argsF }] }
      | _, _ => { c with byItem := byItem, itemOfCall := itemOfCall }
  | .argsDelta itemId idx delta =>
    match itemId with
    | none => c
    | some i =>
      let e := getBuf c.byItem i
      { c with byItem := putBuf c.byItem i { e with outputIndex := idx, args := e.args ++ delta } }
  | .argsDone itemId idx args =>
    match itemId with
    | none => c
    | some i =>
      let e := getBuf c.byItem i
      { c with byItem := putBuf c.byItem i { e with outputIndex := idx, args := args } }
  | .other => c

def insertByIndex (x : Call) : List Call → List Call
  | [] => [x]
  | y :: ys => if x.outputIndex < y.outputIndex then x :: y :: ys else y :: insertByIndex x ys

/-- `drain_function_calls`: stable sort by output_index -/
def drain (c : Collector) : List Call := c.completed.foldl (fun acc x => insertByIndex x acc) []

def collect (evs : List PEv) : List Call := drain (evs.foldl Collector.observe {})

/-! ### tool choice -/

inductive Enforcement
  | all | none | only (names : List Str)
  deriving Repr, DecidableEq

def Enforcement.allows : Enforcement → Str → Bool
  | .all, _ => true
  | .none, _ => false
  | .only ns, n => ns.contains n

/-- the configured tool choice (the JSON value of `tool_choice`), as far as enforcement reads it -/
inductive ToolChoice
  | auto | required | noneChoice
  | function (name : Option Str)                                   -- {"type":"function","name":…}
  | allowedTools (modeNone : Bool) (tools : List (Bool × Option Str)) -- entries: (type = "function", name)
  | other                                                           -- any other string / object type / JSON value
  deriving Repr, DecidableEq

def functionNames (tools : List (Bool × Option Str)) : List Str :=
  tools.filterMap (fun e => if e.1 then e.2.filter (· != 0) else none)

def ToolChoice.enforcement : ToolChoice → Enforcement
  | .auto => .all
  | .required => .all
  | .other => .all
  | .noneChoice => .none
  | .function n => .only (match n.filter (· != 0) with | some n => [n] | none => [])
  | .allowedTools true _ => .none
  | .allowedTools false ts => .only (functionNames ts)

/-- what the tool choice EXCLUDES (the specification, stated separately from `allows`):
`none` bars everything; a named function bars every other name; an allowed-tools list bars every
name that is not one of its function entries (and everything when its mode is none) -/
def Excluded : ToolChoice → Str → Prop
  | .auto, _ => False
  | .required, _ => False
  | .other, _ => False
  | .noneChoice, _ => True
  | .function n, m => n ≠ some m
  | .allowedTools true _, _ => True
  | .allowedTools false ts, m => (true, some m) ∉ ts

/-! ### the loop -/

structure Response where
  streamOk : Bool               -- the request could be sent and streamed
  hasResponseId : Bool
  events : List PEv
  deriving Repr, DecidableEq

/-- an input item of a request, as far as the property reads it -/
inductive Item
  | user                        -- the prompt / the initial items
  | followupMsg                 -- the configured follow-up user message
  | fcall (callId : Str)        -- a function_call item echoed back (stateless history)
  | foutput (callId : Str)      -- a function_call_output item: the answer to a call
  deriving Repr, DecidableEq

structure Request where
  hasPrev : Bool                -- carries previous_response_id
  input : List Item
  deriving Repr, DecidableEq

/-- one turn: the request that was sent, the calls its response produced (provider order), and
what was done with them -/
structure Round where
  request : Request
  calls : List Call := []
  executed : List (Str × Str) := []   -- (call id, tool name) actually run, in order
  rejected : List (Str × Str) := []   -- answered with a rejection, never run
  deriving Repr, DecidableEq

structure Outcome where
  rounds : List Round
  reason : String
  deriving Repr, DecidableEq

structure Config where
  stateless : Bool
  followupMsg : Bool            -- followup_user_message configured
  enf : Enforcement
  valid : Request → Bool        -- the schema validation gate (an oracle of the model)
  maxCalls : Nat                -- DEFAULT_MAX_TOOL_CALLS (regenerated from the source by the driver)

/-- answer the calls of one response: (answered ids, executed, rejected, new count, hit the bound) -/
def answerCalls (enf : Enforcement) (maxCalls : Nat) : List Call → Nat → List Str × List (Str × Str) × List (Str × Str) × Nat × Bool
  | [], count => ([], [], [], count, false)
  | c :: cs, count =>
    if count ≥ maxCalls then ([], [], [], count, true)
    else
      match answerCalls enf maxCalls cs (count + 1) with
      | (ans, ex, rj, cnt, hit) =>
        if enf.allows c.name then (c.callId :: ans, (c.callId, c.name) :: ex, rj, cnt, hit)
        else (c.callId :: ans, ex, (c.callId, c.name) :: rj, cnt, hit)

def msgItems (cfg : Config) : List Item := if cfg.followupMsg then [.followupMsg] else []

/-- state between turns -/
structure LoopSt where
  followup : Option (List Item) := none   -- tool outputs waiting to be sent
  havePrev : Bool := false
  count : Nat := 0
  history : List Item := [.user]          -- stateless history (initialised with the first input)
  rounds : List Round := []
  deriving Repr, DecidableEq

def finish (st : LoopSt) (reason : String) : Outcome := { rounds := st.rounds, reason := reason }

def loop (cfg : Config) : List Response → LoopSt → Outcome
  | [], st => finish st "script-exhausted"
  | r :: rs, st =>
    if st.count ≥ cfg.maxCalls then finish st "max_tool_calls_exceeded" else
    let mk : Option Request :=
      match st.followup with
      | some outs =>
        if cfg.stateless then some { hasPrev := false, input := st.history }
        else if st.havePrev then some { hasPrev := true, input := outs ++ msgItems cfg } else none
      | none => some { hasPrev := false, input := [.user] }
    match mk with
    | none => finish st "provider_error"
    | some req =>
      if !cfg.valid req then finish st "invalid_request" else      -- never sent
      if !r.streamOk then finish { st with rounds := st.rounds ++ [{ request := req }] } "provider_error" else
      let havePrev := st.havePrev || r.hasResponseId
      let calls := collect r.events
      if calls.isEmpty then finish { st with rounds := st.rounds ++ [{ request := req }] } "completed"
      else if !havePrev && !cfg.stateless then
        finish { st with rounds := st.rounds ++ [{ request := req, calls := calls }] } "provider_error"
      else
        match answerCalls cfg.enf cfg.maxCalls calls st.count with
        | (ans, ex, rj, cnt, hit) =>
          let round : Round := { request := req, calls := calls, executed := ex, rejected := rj }
          let history := if cfg.stateless then st.history ++ calls.map (fun c => Item.fcall c.callId) else st.history
          if hit then finish { st with rounds := st.rounds ++ [round] } "max_tool_calls_exceeded"
          else
            let outs := ans.map Item.foutput
            -- stateless: the follow-up user message joins the accumulated history (after the repair;
            -- before it, the message was appended to the request only and vanished from later requests)
            loop cfg rs { followup := some outs, havePrev := havePrev, count := cnt,
                          history := if cfg.stateless then history ++ outs ++ msgItems cfg else history,
                          rounds := st.rounds ++ [round] }

def agentLoop (cfg : Config) (rs : List Response) : Outcome := loop cfg rs {}

end Rip.ToolLoop
