/-
C16 model: `ToolCallCollector`, `ToolChoiceEnforcement` and the request/answer bookkeeping of
`run_openresponses_agent_loop` (ripd/src/session.rs). Strings are numbers (0 = the empty string);
argument text is a list of chunks (concatenation = append).
-/
namespace Rip.ToolLoop

abbrev Str := Nat            -- 0 is ""
abbrev Text := List Nat      -- argument text as chunks

structure Call where
  outputIndex : Nat
  callId : Str
  itemId : Str
  name : Str
  args : Text
  deriving Repr, DecidableEq

/-- the JSON `data` of a provider event, as far as the collector reads it -/
inductive PEv
  | item (done : Bool) (outputIndex : Nat) (isFunctionCall : Bool)
         (itemId callId name : Option Str) (args : Option Text)     -- raw fields of `item`
  | argsDelta (itemId : Option Str) (outputIndex : Nat) (delta : Text)
  | argsDone (itemId : Option Str) (outputIndex : Nat) (args : Text)
  | other
  deriving Repr, DecidableEq

structure Buf where
  outputIndex : Nat := 0
  callId : Option Str := none
  name : Option Str := none
  args : Text := []
  deriving Repr, DecidableEq

structure Collector where
  byItem : List (Str × Buf) := []        -- function_call_by_item_id
  itemOfCall : List (Str × Str) := []    -- item_id_by_call_id
  completed : List Call := []
  deriving Repr, DecidableEq

def getBuf (m : List (Str × Buf)) (k : Str) : Buf :=
  match m.find? (fun e => e.1 == k) with
  | some e => e.2
  | none => {}

def putBuf (m : List (Str × Buf)) (k : Str) (b : Buf) : List (Str × Buf) :=
  (k, b) :: m.filter (fun e => e.1 != k)

def nonEmpty (o : Option Str) : Option Str := o.filter (· != 0)

def Collector.observe (c : Collector) : PEv → Collector
  | .item done idx isFn itemIdRaw callIdRaw nameRaw argsRaw =>
    if !isFn then c else
    let callId := nonEmpty callIdRaw
    let itemId : Str :=
      match nonEmpty itemIdRaw with
      | some i => i
      | none =>
        match callId.bind (fun cid => (c.itemOfCall.find? (fun e => e.1 == cid)).map (·.2)) with
        | some i => i
        | none => callId.getD 0
    if itemId == 0 then c else
    let itemOfCall :=
      match callId with
      | some cid => if c.itemOfCall.any (fun e => e.1 == cid) then c.itemOfCall else c.itemOfCall ++ [(cid, itemId)]
      | none => c.itemOfCall
    let e := getBuf c.byItem itemId
    let argsNE : Option Text := argsRaw.filter (fun a => !a.isEmpty)
    let e : Buf := { outputIndex := idx, callId := callId.or e.callId, name := nameRaw.or e.name,
                     args := match argsNE with | some a => a | none => e.args }
    if !done then { c with byItem := putBuf c.byItem itemId e, itemOfCall := itemOfCall }
    else
      let byItem := c.byItem.filter (fun x => x.1 != itemId)
      let callIdF := callIdRaw.or e.callId           -- NOT filtered for emptiness here
      let nameF := nameRaw.or e.name
      let argsF : Text := match argsNE with | some a => a | none => e.args
      match callIdF, nameF with
      | some cid, some n =>
        { byItem := byItem, itemOfCall := itemOfCall,
          completed := c.completed ++ [{ outputIndex := idx, callId := cid, itemId := itemId, name := n, args := argsF }] }
      | _, _ => { c with byItem := byItem, itemOfCall := itemOfCall }
  | .argsDelta itemId idx delta =>
    match itemId with
    | none => c
    | some i =>
      let e := getBuf c.byItem i
      { c with byItem := putBuf c.byItem i { e with outputIndex := idx, args := e.args ++ delta } }
  | .argsDone itemId idx args =>
    match itemId with
    | none => c
    | some i =>
      let e := getBuf c.byItem i
      { c with byItem := putBuf c.byItem i { e with outputIndex := idx, args := args } }
  | .other => c

def insertByIndex (x : Call) : List Call → List Call
  | [] => [x]
  | y :: ys => if x.outputIndex < y.outputIndex then x :: y :: ys else y :: insertByIndex x ys

/-- `drain_function_calls`: stable sort by output_index -/
def drain (c : Collector) : List Call := c.completed.foldl (fun acc x => insertByIndex x acc) []

def collect (evs : List PEv) : List Call := drain (evs.foldl Collector.observe {})

/-! ### tool choice -/

inductive Enforcement
  | all | none | only (names : List Str)
  deriving Repr, DecidableEq

def Enforcement.allows : Enforcement → Str → Bool
  | .all, _ => true
  | .none, _ => false
  | .only ns, n => ns.contains n

/-- the configured tool choice, as the property names its forms -/
inductive ToolChoice
  | auto | required | noneChoice
  | function (name : Str)
  | allowedTools (modeNone : Bool) (names : List Str)
  deriving Repr, DecidableEq

def ToolChoice.enforcement : ToolChoice → Enforcement
  | .auto => .all
  | .required => .all
  | .noneChoice => .none
  | .function n => .only (if n == 0 then [] else [n])
  | .allowedTools true _ => .none
  | .allowedTools false ns => .only (ns.filter (· != 0))

/-- what the tool choice EXCLUDES (the specification, stated separately from `allows`) -/
def Excluded : ToolChoice → Str → Prop
  | .auto, _ => False
  | .required, _ => False
  | .noneChoice, _ => True
  | .function n, m => m ≠ n
  | .allowedTools true _, _ => True
  | .allowedTools false ns, m => m ∉ ns

/-! ### the loop -/

structure Response where
  streamOk : Bool               -- the request could be sent and streamed
  hasResponseId : Bool
  events : List PEv
  deriving Repr, DecidableEq

inductive ReqKind | first | followup | followupStateless
  deriving Repr, DecidableEq

structure Request where
  kind : ReqKind
  answers : List Str            -- call ids answered by function_call_output items added by this request
  deriving Repr, DecidableEq

structure Outcome where
  requests : List Request
  executed : List (Str × Str)   -- (call id, tool name) actually run, in order
  rejected : List (Str × Str)   -- answered with a rejection, never run
  reason : String
  deriving Repr, DecidableEq

def maxToolCalls : Nat := 32

/-- answer the calls of one response: returns (answered ids, executed, rejected, count, hitMax) -/
def answerCalls (enf : Enforcement) : List Call → Nat → List Str × List (Str × Str) × List (Str × Str) × Nat × Bool
  | [], count => ([], [], [], count, false)
  | c :: cs, count =>
    if count ≥ maxToolCalls then ([], [], [], count, true)
    else
      let (ans, ex, rj, cnt, hit) := answerCalls enf cs (count + 1)
      if enf.allows c.name then (c.callId :: ans, (c.callId, c.name) :: ex, rj, cnt, hit)
      else (c.callId :: ans, ex, (c.callId, c.name) :: rj, cnt, hit)

def loop (stateless : Bool) (enf : Enforcement) :
    List Response → Option (List Str) → Bool → Nat → Outcome → Outcome
  | [], _, _, _, out => { out with reason := "script-exhausted" }
  | r :: rs, followup, havePrev, count, out =>
    if count ≥ maxToolCalls then { out with reason := "max_tool_calls_exceeded" } else
    let mk : Option Request :=
      match followup with
      | some answers =>
        if stateless then some { kind := .followupStateless, answers := answers }
        else if havePrev then some { kind := .followup, answers := answers } else none
      | none => some { kind := .first, answers := [] }
    match mk with
    | none => { out with reason := "provider_error" }
    | some req =>
      let out := { out with requests := out.requests ++ [req] }
      if !r.streamOk then { out with reason := "provider_error" } else
      let havePrev := havePrev || r.hasResponseId
      let calls := collect r.events
      if calls.isEmpty then { out with reason := "completed" }
      else if !havePrev && !stateless then { out with reason := "provider_error" }
      else
        let (ans, ex, rj, cnt, hit) := answerCalls enf calls count
        let out := { out with executed := out.executed ++ ex, rejected := out.rejected ++ rj }
        if hit then { out with reason := "max_tool_calls_exceeded" }
        else loop stateless enf rs (some ans) havePrev cnt out

def agentLoop (stateless : Bool) (tc : ToolChoice) (rs : List Response) : Outcome :=
  loop stateless tc.enforcement rs none false 0 { requests := [], executed := [], rejected := [], reason := "" }

end Rip.ToolLoop
