/-
C17 (bytes) model: `TaskLogWriter::append` (ripd tasks/logs.rs), `capture_stream` (rip-tools
builtins/shell.rs), `read_artifact_range` and `truncate_utf8`. Byte lists throughout; SHA-256 is
not modelled (the harness recomputes the hash of the stored bytes).
-/
import Rip.Model.Utf8
namespace Rip.Capture
open Rip.Proto

/-! ### TaskLogWriter -/

structure LogW where
  cap : Nat
  total : Nat
  stored : Bytes
  truncated : Bool
  deriving Repr, DecidableEq

structure Range where
  offset : Nat
  bytes : Nat
  total : Nat
  storedLen : Nat
  truncated : Bool
  deriving Repr, DecidableEq

def LogW.init (cap : Nat) : LogW := { cap := cap, total := 0, stored := [], truncated := false }

def LogW.append (w : LogW) (chunk : Bytes) : LogW × Range :=
  let offset := w.stored.length
  let take := min (w.cap - w.stored.length) chunk.length
  let w' : LogW :=
    { w with total := w.total + chunk.length, stored := w.stored ++ chunk.take take,
             truncated := w.truncated || decide (take < chunk.length) }
  (w', { offset := offset, bytes := take, total := w'.total, storedLen := w'.stored.length, truncated := w'.truncated })

def LogW.feed (w : LogW) : List Bytes → LogW × List Range
  | [] => (w, [])
  | c :: cs =>
    let (w1, r) := w.append c
    let (w2, rs) := LogW.feed w1 cs
    (w2, r :: rs)

/-! ### truncate_utf8 / read_artifact_range -/

/-- longest prefix of `b` of length ≤ `max` that is valid UTF-8 on its own
(the `while end > 0 && from_utf8(&bytes[..end]).is_err() { end -= 1 }` loop) -/
def backoff (b : Bytes) (n : Nat) : Nat :=
  match n with
  | 0 => 0
  | n + 1 => if Rip.Utf8.isValid (b.take (n + 1)) then n + 1 else backoff b n

/-- `truncate_utf8(bytes, max)`: the bytes kept (before lossy decoding), truncated flag -/
def truncateUtf8 (b : Bytes) (max : Nat) : Bytes × Bool :=
  if b.length ≤ max then (b, false) else (b.take (backoff b max), true)

structure Page where
  raw : Bytes          -- the bytes the page covers (`bytes` = its length)
  total : Nat
  truncated : Bool
  deriving Repr, DecidableEq

/-- `read_artifact_range(file, offset, max)` (after the C17 repair: a page that ends inside a
multi-byte character backs off to the character boundary, unless that would make no progress). -/
def readRange (file : Bytes) (off max : Nat) : Page :=
  let buf := (file.drop off).take max
  let cut : Nat :=
    match Rip.Utf8.validate buf with
    | some (v, none) => if v = 0 then buf.length else v     -- incomplete sequence at the end
    | _ => buf.length
  let raw := buf.take cut
  { raw := raw, total := file.length, truncated := decide (off + raw.length < file.length) }

/-! ### capture_stream -/

structure Cap where
  preview : Bytes
  total : Nat
  full : Bool
  file : Option Bytes      -- spill file content once created
  deriving Repr, DecidableEq

def Cap.init : Cap := { preview := [], total := 0, full := false, file := none }

def tailWrite (artMax : Nat) (stored : Bytes) (chunk : Bytes) : Bytes :=
  stored ++ chunk.take (artMax - stored.length)

def Cap.step (maxPrev artMax : Nat) (c : Cap) (chunk : Bytes) : Cap :=
  let total := c.total + chunk.length
  let before := c.preview.length
  let preview := if c.full then c.preview else c.preview ++ chunk.take (maxPrev - c.preview.length)
  let full := c.full || decide (preview.length ≥ maxPrev)
  match c.file with
  | some stored => { preview := preview, total := total, full := full, file := some (tailWrite artMax stored chunk) }
  | none =>
    if !full then { preview := preview, total := total, full := full, file := none }
    else if artMax = 0 then { preview := preview, total := total, full := full, file := none }
    else
      let initial := preview.take (min preview.length artMax)
      let already := min (preview.length - before) chunk.length
      { preview := preview, total := total, full := full, file := some (tailWrite artMax initial (chunk.drop already)) }

def Cap.run (maxPrev artMax : Nat) (cs : List Bytes) : Cap := cs.foldl (Cap.step maxPrev artMax) Cap.init

structure CapResult where
  preview : Bytes
  total : Nat
  truncated : Bool
  artifact : Option (Bytes × Bool)    -- stored bytes, artifact.truncated
  deriving Repr, DecidableEq

def Cap.finish (maxPrev : Nat) (c : Cap) : CapResult :=
  let truncated := decide (c.total > maxPrev)
  { preview := (truncateUtf8 c.preview maxPrev).1, total := c.total, truncated := truncated,
    artifact := if truncated then c.file.map (fun s => (s, decide (c.total > s.length))) else none }

end Rip.Capture
