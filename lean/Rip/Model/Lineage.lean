/-
C10 model: cut resolution of `ContinuityStore::branch` / `handoff` (ripd/src/continuities.rs) and
their effect on the truth log. Ids are numbers (the harness canonicalises UUIDs by first
occurrence).
-/
namespace Rip.Lineage

inductive K
  | created | message | runSpawned (mid : Nat) | runEnded (mid : Nat)
  | branched (parent : Nat) (parentSeq : Nat) (parentMsg : Option Nat)
  | handoff (src : Nat) (srcSeq : Nat) (srcMsg : Option Nat) (artifact : Option Nat) (markdown : Bool)
  | other
  deriving Repr, DecidableEq

structure F where
  stream : Nat
  id : Nat
  seq : Nat
  kind : K
  deriving Repr, DecidableEq

abbrev Log := List F

def streamOf (log : Log) (t : Nat) : List F := log.filter (·.stream == t)

inductive Sel
  | none | fromSeq (q : Nat) | fromMsg (m : Nat) | both (q m : Nat)
  deriving Repr, DecidableEq

inductive CutErr
  | conflicting | noSuchThread | outOfRange | notFound | noSummary | artifactMissing
  deriving Repr, DecidableEq

def isMessage (f : F) : Bool := match f.kind with | .message => true | _ => false

/-- last message frame (by stream order) among those satisfying `p` -/
def lastMessage (T : List F) (p : F → Bool) : Option Nat :=
  (T.reverse.find? (fun f => p f && isMessage f)).map (·.id)

def headSeq (T : List F) : Nat := match T.getLast? with | some f => f.seq | none => 0

/-- the `for event in &parent_events` loop of the from_message_id branch:
(message_seq, max_related_seq) -/
def scanMsg (m : Nat) : List F → Option Nat × Option Nat → Option Nat × Option Nat
  | [], acc => acc
  | f :: rest, (ms, mx) =>
    match f.kind with
    | .message => if f.id = m then scanMsg m rest (some f.seq, some f.seq) else scanMsg m rest (ms, mx)
    | .runSpawned mid => if mid = m then scanMsg m rest (ms, some (max (mx.getD 0) f.seq)) else scanMsg m rest (ms, mx)
    | .runEnded mid => if mid = m then scanMsg m rest (ms, some (max (mx.getD 0) f.seq)) else scanMsg m rest (ms, mx)
    | _ => scanMsg m rest (ms, mx)

/-- cut resolution shared by branch and handoff -/
def resolveCut (T : List F) (sel : Sel) : Except CutErr (Nat × Option Nat) :=
  match sel with
  | .both _ _ => .error .conflicting
  | _ =>
    if T.isEmpty then .error .noSuchThread else
    match sel with
    | .fromSeq q =>
      if q > headSeq T then .error .outOfRange
      else .ok (q, lastMessage T (fun f => f.seq ≤ q))
    | .fromMsg m =>
      match scanMsg m T (none, none) with
      | (none, _) => .error .notFound
      | (some _, mx) => .ok (mx.getD 0, some m)
    | _ => .ok (headSeq T, lastMessage T (fun _ => true))

/-- `branch`: on success two frames are appended, both on the fresh child stream -/
def branch (log : Log) (parent child idC idB : Nat) (sel : Sel) : Except CutErr (Log × Nat × Option Nat) :=
  match resolveCut (streamOf log parent) sel with
  | .error e => .error e
  | .ok (q, m) =>
    .ok (log ++ [{ stream := child, id := idC, seq := 0, kind := .created },
                 { stream := child, id := idB, seq := 1, kind := .branched parent q m }], q, m)

/-- `handoff` (after the C10 repair: a caller-supplied artifact id must exist). `artifactExists`
is the artifact store; `fresh` is the id of the bundle written for a markdown-only summary. -/
def handoff (log : Log) (artifactExists : Nat → Bool) (src child idC idH fresh : Nat) (sel : Sel)
    (markdown : Bool) (artifact : Option Nat) : Except CutErr (Log × Nat × Option Nat × Option Nat) :=
  if !markdown && artifact.isNone then .error .noSummary else
  match sel with
  | .both _ _ => .error .conflicting
  | _ =>
  match resolveCut (streamOf log src) sel with
  | .error e => .error e
  | .ok (q, m) =>
    match artifact with
    | some a =>
      if !artifactExists a then .error .artifactMissing
      else .ok (log ++ [{ stream := child, id := idC, seq := 0, kind := .created },
                        { stream := child, id := idH, seq := 1, kind := .handoff src q m (some a) markdown }], q, m, some a)
    | none =>
      .ok (log ++ [{ stream := child, id := idC, seq := 0, kind := .created },
                   { stream := child, id := idH, seq := 1, kind := .handoff src q m (some fresh) markdown }], q, m, some fresh)

end Rip.Lineage
