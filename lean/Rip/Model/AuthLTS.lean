/-
C18 model: the store-authority lock protocol of crates/ripd/src/local_authority.rs
(`AuthorityLockGuard::try_acquire`, `Drop`, `try_cleanup_stale_authority_files`,
`try_cleanup_corrupt_lock_file`) driven by the recovery loops of ripd/src/server.rs and
rip-cli/src/local_authority.rs, as a labelled transition system over the two files
`authority/lock.json` and `authority/meta.json`. One transition = one file-system call.

Process ids: contender `i` has pid `i + 1`; pid `0` is a previous authority that is gone.
`atomic = true` is the hypothetical protocol in which "re-read the lock, then rename it" is one
indivisible step; `atomic = false` is the code as it is.
-/
namespace Rip.AuthLTS

abbrev Pid := Nat

/-- content of lock.json together with the identity of the file (who created this inode) -/
structure LockFile where
  owner : Pid                  -- creator of this file
  record : Option Pid             -- `none` = created but record not written yet (empty / invalid json)
  deriving Repr, DecidableEq

inductive Pc
  | acquire        -- about to `create_new(lock.json)`
  | writeRec       -- created the file, about to write its record
  | holding        -- try_acquire returned Ok: this process believes it is the authority
  | inspect        -- acquire failed: read the lock record, decide what to do
  | staleReread (expected : Pid)     -- try_cleanup_stale: exists + re-read record
  | staleRename (expected : Pid)     -- … rename lock.json to a tombstone
  | staleMeta (expected : Pid)       -- … remove meta.json if it carries the dead pid
  | corruptCheck   -- try_cleanup_corrupt: lock exists, meta does not
  | corruptRename  -- … rename lock.json to a tombstone
  | dropMeta       -- Drop: remove meta.json
  | dropLock       -- Drop: remove lock.json
  | gaveUp         -- a live authority exists; this contender stops
  | done           -- released
  | dead           -- crashed
  deriving Repr, DecidableEq

structure S where
  lock : Option LockFile
  metaPid : Option Pid
  pcs : List Pc                -- contender i is at `pcs[i]`
  deriving Repr, DecidableEq

def pidOf (i : Nat) : Pid := i + 1

/-- liveness oracle `kill(pid, 0)`: pid 0 is gone; contender pids are alive unless crashed or done -/
def alive (s : S) (p : Pid) : Bool :=
  match p with
  | 0 => false
  | i + 1 => match s.pcs[i]? with
    | some .dead => false
    | some .done => false
    | some _ => true
    | none => false

def setPc (s : S) (i : Nat) (pc : Pc) : S := { s with pcs := s.pcs.set i pc }

inductive Act
  | step (i : Nat)      -- contender i performs its next file-system call
  | crash (i : Nat)     -- contender i dies where it stands (files stay)
  | release (i : Nat)   -- a holder starts dropping its guard
  deriving Repr, DecidableEq

def stepProc (atomic : Bool) (s : S) (i : Nat) (pc : Pc) : S :=
  match pc with
  | .acquire =>
    match s.lock with
    | none => setPc { s with lock := some { owner := pidOf i, record := none } } i .writeRec
    | some _ => setPc s i .inspect
  | .writeRec =>
    -- writes through its own file handle: only the file it created receives the record
    let lock' := match s.lock with
      | some f => if f.owner = pidOf i then some { f with record := some (pidOf i) } else some f
      | none => none
    setPc { s with lock := lock' } i .holding
  | .holding => s
  | .inspect =>
    match s.lock with
    | none => setPc s i .acquire
    | some f =>
      match f.record with
      | some p => if alive s p then setPc s i .gaveUp else setPc s i (.staleReread p)
      | none =>
        -- invalid json: cleaned only after the grace period, i.e. when its creator is not about to
        -- finish writing (modelled: creator not alive)
        if alive s f.owner then setPc s i .inspect else setPc s i .corruptCheck
  | .staleReread e =>
    match s.lock with
    | some f =>
      if f.record = some e then
        if atomic then setPc { s with lock := none } i (.staleMeta e)   -- re-read and rename in one step
        else setPc s i (.staleRename e)
      else setPc s i .acquire
    | none => setPc s i .acquire
  | .staleRename e =>
    match s.lock with
    | some _ => setPc { s with lock := none } i (.staleMeta e)          -- renames whatever is there now
    | none => setPc s i .acquire
  | .staleMeta e =>
    setPc { s with metaPid := if s.metaPid = some e then none else s.metaPid } i .acquire
  | .corruptCheck =>
    match s.lock, s.metaPid with
    | some f, none =>
      if atomic then
        (if f.record = none && !alive s f.owner then setPc { s with lock := none } i .acquire else setPc s i .acquire)
      else setPc s i .corruptRename
    | _, _ => setPc s i .acquire
  | .corruptRename =>
    match s.lock with
    | some _ => setPc { s with lock := none } i .acquire
    | none => setPc s i .acquire
  | .dropMeta => setPc { s with metaPid := none } i .dropLock
  | .dropLock => setPc { s with lock := none } i .done                  -- removes whatever is at the path
  | .gaveUp => s
  | .done => s
  | .dead => s

def act (atomic : Bool) (s : S) : Act → S
  | .step i => match s.pcs[i]? with
    | some pc => stepProc atomic s i pc
    | none => s
  | .crash i => match s.pcs[i]? with
    | some .done => s
    | some _ => setPc s i .dead
    | none => s
  | .release i => match s.pcs[i]? with
    | some .holding => setPc s i .dropMeta
    | _ => s

def run (atomic : Bool) (s : S) (sched : List Act) : S := sched.foldl (act atomic) s

/-- processes that currently believe they are the authority -/
def holders (s : S) : Nat := (s.pcs.filter (fun pc => pc == .holding || pc == .dropMeta || pc == .dropLock)).length

/-- the leftover states a crashed authority can leave behind (pid 0), for `n` fresh contenders -/
def initNone (n : Nat) : S := { lock := none, metaPid := none, pcs := List.replicate n .acquire }
def initStale (n : Nat) (withMeta : Bool) : S :=
  { lock := some { owner := 0, record := some 0 }, metaPid := if withMeta then some 0 else none,
    pcs := List.replicate n .acquire }
def initHalfWritten (n : Nat) : S :=
  { lock := some { owner := 0, record := none }, metaPid := none, pcs := List.replicate n .acquire }

end Rip.AuthLTS
