/-
C12/C13 model: patch.rs `parse_patch` / `parse_rel_path` on UTF-8 bytes, and the
Unix semantics of `std::path::Path::components` needed by the lexical path checks.
-/
import Rip.Model.Patch
import Rip.Model.Text
namespace Rip.Patch
open Rip.Proto Rip.Text

/-! ### `str::lines` -/

/-- `split_inclusive('\n')` then strip `\n` and one `\r` before it. -/
def strLines (s : Bytes) : List Bytes :=
  let rec go (s : Bytes) (cur : Bytes) : List Bytes :=
    match s with
    | [] => if cur.isEmpty then [] else [cur.reverse]      -- last line without `\n` keeps a trailing `\r`
    | b :: r =>
      if b = 10 then
        let line := cur.reverse
        (stripCr line) :: go r []
      else go r (b :: cur)
  go s []

/-! ### `Path::components` (Unix) -/

inductive Component
  | rootDir | curDir | parentDir | normal (c : Comp)
  deriving Repr, DecidableEq

def splitSlash (s : Bytes) : List Bytes :=
  let rec go (s : Bytes) (cur : Bytes) : List Bytes :=
    match s with
    | [] => [cur.reverse]
    | b :: r => if b = 47 then cur.reverse :: go r [] else go r (b :: cur)
  go s []

def isAbsolute (s : Bytes) : Bool := s.head? == some 47

def components (s : Bytes) : List Component :=
  let segs := splitSlash s
  let root : List Component := if isAbsolute s then [.rootDir] else []
  let lead : List Component :=
    if !isAbsolute s && segs.head? == some [46] then [.curDir] else []
  let rest := segs.filterMap (fun seg =>
    if seg.isEmpty then none
    else if seg = [46] then none
    else if seg = [46, 46] then some .parentDir
    else some (.normal seg))
  root ++ lead ++ rest

def normals (cs : List Component) : Path :=
  cs.filterMap (fun c => match c with | .normal x => some x | _ => none)

/-- does the spelling force the last component to be a directory (`a/`, `a/.`) -/
def spellingMustDir (s : Bytes) : Bool :=
  match (splitSlash s).getLast? with
  | some seg => (seg.isEmpty || seg = [46]) && !(normals (components s)).isEmpty
  | none => false

/-- `parse_rel_path` -/
def parseRelPath (raw : Bytes) : Except Err RPath :=
  let t := trim raw
  if t.isEmpty then .error (.parse "empty-path")
  else if isAbsolute t then .error (.parse "absolute")
  else if (components t).any (· == .parentDir) then .error (.parse "parent")
  else .ok { comps := normals (components t), mustDir := spellingMustDir t,
             raw := t.map (fun b => if b = 92 then 47 else b) }

/-! ### `parse_patch` -/

def lit (s : String) : Bytes := s.toUTF8.toList

def stripPrefix (p : Bytes) (s : Bytes) : Option Bytes :=
  if p.isPrefixOf s then some (s.drop p.length) else none

def starLine (l : Bytes) : Bool := (lit "*** ").isPrefixOf l

/-- body of an `Add File`: consume `+` lines up to the next `*** ` line -/
def parseAddBody : List Bytes → List Bytes → Except Err (List Bytes × List Bytes)
  | [], acc => .ok (acc.reverse, [])
  | l :: ls, acc =>
    if starLine l then .ok (acc.reverse, l :: ls)
    else match l with
      | 43 :: rest => parseAddBody ls (rest :: acc)
      | _ => .error (.parse "add-line")

/-- hunk lines of an `Update File` up to the next `*** ` line; `cur` and `hunks` in reverse -/
def parseUpdateBody : List Bytes → List (UInt8 × Bytes) → List (List (UInt8 × Bytes)) →
    Except Err (List (List (UInt8 × Bytes)) × List Bytes)
  | [], cur, hunks => .ok ((if cur.isEmpty then hunks else cur.reverse :: hunks).reverse, [])
  | l :: ls, cur, hunks =>
    if starLine l then .ok ((if cur.isEmpty then hunks else cur.reverse :: hunks).reverse, l :: ls)
    else if (lit "@@").isPrefixOf l then
      parseUpdateBody ls [] (if cur.isEmpty then hunks else cur.reverse :: hunks)
    else match l with
      | [] => .error (.parse "empty-line")
      | c :: rest =>
        if c = 32 || c = 43 || c = 45 then parseUpdateBody ls ((c, rest) :: cur) hunks
        else .error (.parse "bad-prefix")

def mkHunk (ls : List (UInt8 × Bytes)) : Hunk :=
  { before := ls.filterMap (fun (c, t) => if c = 32 || c = 45 then some t else none),
    after := ls.filterMap (fun (c, t) => if c = 32 || c = 43 then some t else none) }

def parseOps (fuel : Nat) (ls : List Bytes) (acc : List Op) : Except Err (List Op) :=
  match fuel with
  | 0 => .error (.parse "fuel")
  | fuel + 1 =>
    match ls with
    | [] => .error (.parse "missing-footer")
    | l :: rest =>
      if l = lit "*** End Patch" then .ok acc.reverse
      else match stripPrefix (lit "*** Add File: ") l with
      | some p =>
        match parseRelPath p with
        | .error e => .error e
        | .ok rp =>
          match parseAddBody rest [] with
          | .error e => .error e
          | .ok (content, rest2) =>
            let joined := intercalate [10] content
            let joined := if joined.isEmpty then joined else joined ++ [10]
            parseOps fuel rest2 (.add rp joined :: acc)
      | none =>
      match stripPrefix (lit "*** Delete File: ") l with
      | some p =>
        match parseRelPath p with
        | .error e => .error e
        | .ok rp => parseOps fuel rest (.delete rp :: acc)
      | none =>
      match stripPrefix (lit "*** Update File: ") l with
      | some p =>
        match parseRelPath p with
        | .error e => .error e
        | .ok rp =>
          let mv : Except Err (Option RPath × List Bytes) :=
            match rest with
            | [] => .ok (none, rest)
            | n :: rest1 =>
              match stripPrefix (lit "*** Move to: ") n with
              | some d =>
                match parseRelPath d with
                | .error e => .error e
                | .ok rd => .ok (some rd, rest1)
              | none => .ok (none, rest)
          match mv with
          | .error e => .error e
          | .ok (moved, rest2) =>
            match parseUpdateBody rest2 [] [] with
            | .error e => .error e
            | .ok (hunks, rest3) =>
              if hunks.isEmpty then .error (.parse "no-hunks")
              else parseOps fuel rest3 (.update rp moved (hunks.map mkHunk) :: acc)
      | none => .error (.parse "unexpected-line")

def parsePatch (input : Bytes) : Except Err (List Op) :=
  match strLines input with
  | [] => .error (.parse "missing-header")
  | h :: rest =>
    if h = lit "*** Begin Patch" then parseOps (rest.length + 1) rest []
    else .error (.parse "missing-header")

end Rip.Patch
