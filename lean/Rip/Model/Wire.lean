/-
C03 model: the wire form of a frame as serde produces and accepts it for
`struct Event { id, session_id, timestamp_ms, seq, #[serde(flatten)] kind: EventKind }` with
`#[serde(tag = "type", rename_all = "snake_case")] enum EventKind` and the hand-written
`Serialize` through `EventWire` (crates/rip-kernel/src/lib.rs) — as a schema interpreter over an
abstract value type `V` (payload values are opaque: only "is null" and "is the empty array"
matter). Keys and tags are interned numbers, as in Rip/Gen/EventSchema.lean.
-/
namespace Rip.Wire

structure Field where
  name : Nat
  aliases : List Nat
  option : Bool        -- Option<T>
  vec : Bool           -- Vec<T>
  skipNone : Bool      -- skip_serializing_if = "Option::is_none"
  skipEmpty : Bool     -- skip_serializing_if = "Vec::is_empty"
  default : Bool       -- #[serde(default)]
  deriving Repr, DecidableEq

structure Variant where
  tag : Nat
  aliases : List Nat
  fields : List Field
  stream : Nat         -- 0 session, 1 task, 2 continuity
  deriving Repr, DecidableEq

structure Schema where
  envelope : List Nat        -- keys written by EventWire before the flattened kind
  readEnvelope : List Nat    -- keys `Event` requires when reading (id, session_id, timestamp_ms, seq)
  tagField : Nat
  variants : List Variant
  deriving Repr, DecidableEq

/-- a JSON object: association list, first match wins on lookup -/
abbrev Obj (V : Type) := List (Nat × V)

def lookup {V : Type} (o : Obj V) (k : Nat) : Option V := (o.find? (fun e => e.1 == k)).map (·.2)

def lookupAny {V : Type} (o : Obj V) : List Nat → Option V
  | [] => none
  | k :: ks => match lookup o k with | some v => some v | none => lookupAny o ks

inductive FieldVal (V : Type)
  | req (v : V)
  | opt (v : Option V)
  deriving Repr, DecidableEq

structure Frame (V : Type) where
  envelope : List V          -- values of the schema's envelope keys, in order
  variant : Nat              -- index into the schema's variants
  fields : List (FieldVal V)
  deriving Repr, DecidableEq

/-- the environment: how tags become values, what null / [] / the default scalar look like -/
structure Env (V : Type) where
  null : V
  emptyArr : V
  dflt : V
  tagV : Nat → V

variable {V : Type} [DecidableEq V]

def encodeField (env : Env V) (fd : Field) : FieldVal V → Option (Nat × V)
  | .opt none => if fd.skipNone then none else some (fd.name, env.null)
  | .opt (some v) => some (fd.name, v)
  | .req v => if fd.skipEmpty && v == env.emptyArr then none else some (fd.name, v)

def encodeFields (env : Env V) : List Field → List (FieldVal V) → Obj V
  | fd :: fds, fv :: fvs =>
    match encodeField env fd fv with
    | some kv => kv :: encodeFields env fds fvs
    | none => encodeFields env fds fvs
  | _, _ => []

def encode (env : Env V) (S : Schema) (f : Frame V) : Option (Obj V) :=
  match S.variants[f.variant]? with
  | none => none
  | some v => some ((S.envelope.zip f.envelope) ++ [(S.tagField, env.tagV v.tag)] ++ encodeFields env v.fields f.fields)

def decodeField (env : Env V) (o : Obj V) (fd : Field) : Option (FieldVal V) :=
  match lookupAny o (fd.name :: fd.aliases) with
  | some v => if fd.option then some (.opt (if v == env.null then none else some v)) else some (.req v)
  | none =>
    if fd.option then some (.opt none)
    else if fd.default then some (.req (if fd.vec then env.emptyArr else env.dflt))
    else none

def decodeFields (env : Env V) (o : Obj V) : List Field → Option (List (FieldVal V))
  | [] => some []
  | fd :: fds =>
    match decodeField env o fd, decodeFields env o fds with
    | some fv, some fvs => some (fv :: fvs)
    | _, _ => none

def findVariant (env : Env V) (S : Schema) (t : V) : Option Nat :=
  S.variants.findIdx? (fun v => (v.tag :: v.aliases).any (fun a => env.tagV a == t))

def readAll (o : Obj V) : List Nat → Option (List V)
  | [] => some []
  | k :: ks => match lookup o k, readAll o ks with
    | some v, some vs => some (v :: vs)
    | _, _ => none

/-- reading: the envelope keys `Event` needs, the variant by its tag, the variant's fields;
everything else in the object (stream_kind, stream_id, unknown keys) is ignored. The frame that
comes back carries the envelope as `EventWire` would write it: `stream` values are recomputed on
write, so the model keeps, for the derived keys, whatever `derive` says. -/
def decode (env : Env V) (S : Schema) (derive : Nat → List V → List V) (o : Obj V) : Option (Frame V) :=
  match readAll o S.readEnvelope, lookup o S.tagField with
  | some ev, some t =>
    match findVariant env S t with
    | none => none
    | some i =>
      match S.variants[i]? with
      | none => none
      | some v =>
        match decodeFields env o v.fields with
        | none => none
        | some fs => some { envelope := derive v.stream ev, variant := i, fields := fs }
  | _, _ => none

/-- decidable well-formedness of a schema -/
def distinct (l : List Nat) : Bool := l.eraseDups.length == l.length

def fieldKeys (fd : Field) : List Nat := fd.name :: fd.aliases

def wfVariant (S : Schema) (v : Variant) : Bool :=
  distinct ((v.fields.map fieldKeys).flatten) &&
  ((v.fields.map fieldKeys).flatten).all (fun k => !S.envelope.contains k && k != S.tagField) &&
  v.fields.all (fun fd =>
    (!fd.skipNone || (fd.option && fd.default)) &&
    (!fd.skipEmpty || (fd.vec && fd.default && !fd.option)) &&
    !(fd.option && fd.vec)) &&
  v.stream < 3

def wellFormed (S : Schema) : Bool :=
  distinct ((S.variants.map (fun v => v.tag :: v.aliases)).flatten) &&
  distinct S.envelope && !S.envelope.contains S.tagField &&
  S.readEnvelope.all S.envelope.contains &&
  S.variants.all (wfVariant S)

/-- a frame fits the schema: right number of envelope values and fields, Option fields carry `opt` -/
def typed (S : Schema) (f : Frame V) : Bool :=
  match S.variants[f.variant]? with
  | none => false
  | some v =>
    f.envelope.length == S.envelope.length && f.fields.length == v.fields.length &&
    (v.fields.zip f.fields).all (fun (fd, fv) => match fv with | .opt _ => fd.option | .req _ => !fd.option)

end Rip.Wire
